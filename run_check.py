#!/venv/bin/python
""" Single entry point:  run_check.py <ID> --tier quick|thorough [--replay FILE] """
import os
import sys

sys.path.insert(0, os.path.dirname(os.path.abspath(__file__)))

from vlib.runner import main  # noqa: E402

if __name__ == "__main__":
    sys.exit(main(sys.argv[1:]))
