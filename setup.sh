#!/bin/sh
# Offline setup: make sure hypothesis is importable from the repository's venv.
set -e
if ! /venv/bin/python -c "import hypothesis" 2>/dev/null; then
    /venv/bin/pip install --no-index --find-links /opt/veriftools/wheels hypothesis
fi
/venv/bin/python -c "import hypothesis, sys; print('hypothesis', hypothesis.__version__)"
