""" Annotated records for the round-trip family of checks (C10; reusable by C11, C12, C17, C18).

    Importing this module has no side effects: antismash and Biopython are imported lazily inside the
    functions (the runner decides which repository is on sys.path), only Hypothesis is imported at the top.

    Public functions
    ----------------
    record_specs(**options)            Hypothesis strategy producing a plain-JSON *spec* of an annotated record
                                       (by construction, no filtering).  Options bias the mixture, see the docstring.
    build_record(spec) -> Built        spec -> real secmet Record, built the way the pipeline builds it:
                                       Record.from_biopython() of a GenBank-like SeqRecord (source, gene, CDS with
                                       codon_start / partial ends / qualifiers, misc features), then gene functions,
                                       sec_met and NRPS_PKS qualifiers, PFAM domains, aSDomains (generic, modular,
                                       TIGR, RRE), CDS motifs, prepeptides, modules, protoclusters (rule-like and
                                       sideloaded), subregions (plain and sideloaded), create_candidate_clusters(),
                                       create_regions().  Built.excluded names the step when candidate/region
                                       creation itself failed (C05/C06 territory); Built.classes are coverage labels.
    build_input_seqrecord(spec)        only the Biopython SeqRecord the record is parsed from
    canonical_dump(record, ...)        JSON-able, order-normalised description of everything a record holds:
                                       header, sequence, feature table as emitted by to_biopython() (multiset), the
                                       secmet features themselves (type, name, location) and the structure read
                                       through the accessors (numbering, parents, children, gene functions, domain
                                       attributes, modules, prepeptides, raw T2PKS values, ...).
                                       Two records are "the same" iff their dumps are equal.
    feature_table(bio_record, ...)     the sorted multiset [type, location, sorted qualifiers] of a SeqRecord
    location_text(location, ...)       canonical text of a Biopython/secmet location (fuzzy ends and strands kept)
    genbank_text(record)               GenBank text of record.to_biopython() via SeqIO.write
    record_from_genbank_text(text, taxon)   SeqIO.parse + Record.from_biopython
    sub_location(loc_spec, aa_start, aa_end)   the nucleotides (as a location spec) encoding residues [s, e) of a
                                       gene laid out as loc_spec; independent of antiSMASH (transcript-order model)
    area_ties(record)                  kinds of areas (and "CDS") holding two members that compare equal under the
                                       record's own ordering (equal coordinates), e.g. ["protocluster"]
    area_order_conflicts(record)       kinds holding two members that each sort before the other
    diff_dumps(first, second, limit=6) short JSON-able list of the places where two dumps (or any JSON values) differ
    spec_is_nontrivial(spec) / spec_classes(spec)   the measures used by C10

    Users of other checks: some generated classes trip known C10 findings (see known/C10.json and notes/C10.md) -
    `spec_classes(spec)` labels them: notes_added_to_noted_gene, function_description_with_colon, pfam_without_go,
    prepeptide_reverse / prepeptide_span / prepeptide_partial_codon_or_fuzzy / prepeptide_no_subclass /
    prepeptide_long_sequence, long_smiles, protocluster_sideloaded, *_equal_coordinates; `area_ties(record)` and
    `area_order_conflicts(record)` tell whether the numbering of the built record is stable at all.

    Spec format (everything is plain JSON; coordinates are 0-based half-open; parts are in Biopython order):
      {"L": int, "circular": bool, "taxon": "bacteria"|"fungi", "seed": int,
       "header": {"id", "name", "description", "annotations": {...}, "reference": bool},
       "source": bool,
       "genes": [{"name", "loc": {"parts", "strand", "operator"?: "order"}, "codon_start": 1|2|3, "fuzzy": [bool, bool],
                  "ident": "locus_tag"|"protein_id"|"gene", "protein_id": str|None, "gene": str|None,
                  "gene_feature": bool, "translation": "given"|"computed", "transl_table": str|None,
                  "quals": {key: [values]}, "added_notes": [str],
                  "functions": [[function, tool, description, product|None]],
                  "secmet": [[name, evalue, bitscore, nseeds, tool]], "nrps_type": str|None,
                  "domains": [{"kind": "modular"|"generic"|"tigr"|"rre"|"pfam"|"motif", "aa": [s, e], ...}],
                  "prepeptide": {...}|None}],
       "misc": [{"type", "loc", "quals"}],
       "modules": [{"domains": [[gene index, domain index], ...], "type", "complete", "starter", "final",
                    "iterative", "monomers": [[substrate, monomer]]}],
       "protoclusters": [{"core": loc, "loc": loc, "product", "category", "cutoff", "nrange", "rule", "tool",
                          "sideloaded": bool, "extra": {key: [values]}, "t2pks": {...}|None}],
       "subregions": [{"loc", "tool", "label", "sideloaded": bool, "extra": {...}}],
       "candidates": bool, "regions": bool, "candidate_extras": [[smiles|None, polymer|None], ...]}
      (genes may also carry "explicit_codon_start": bool - write /codon_start=1 - and "short": 0|1 - the given
      translation is that much shorter than the location, i.e. the location includes the stop codon)
"""

from __future__ import annotations

import io
import random
from types import SimpleNamespace
from typing import Any, Optional

from hypothesis import strategies as st

from vlib import gen

AMINOS = "ACDEFGHIKLMNPQRSTVWY"
LONG_VALUE = 40     # a value without spaces from about this length on no longer fits one GenBank qualifier line


# --------------------------------------------------------------------------- pure helpers (no antismash)

def sequence(length: int, seed: int) -> str:
    """ a DNA string that is a pure function of (length, seed) """
    rng = random.Random(seed * 1000003 + length)
    return "".join(rng.choices("ACGT", k=length))


def protein(length: int, seed: int) -> str:
    rng = random.Random(seed * 7919 + length)
    return "M" + "".join(rng.choices(AMINOS, k=max(0, length - 1)))


def transcript(loc: dict) -> list:
    """ base indices in the order Biopython's extract() reads them """
    out: list = []
    for start, end in loc["parts"]:
        chunk = list(range(start, end))
        if loc["strand"] == -1:
            chunk.reverse()
        out.extend(chunk)
    return out


def shifted(loc: dict, codon_start: int) -> dict:
    """ the location a gene has once codon_start-1 bases are dropped from its 5' end """
    parts = [list(p) for p in loc["parts"]]
    drop = codon_start - 1
    if drop:
        if loc["strand"] == -1:
            parts[0][1] -= drop
        else:
            parts[0][0] += drop
    out = {"parts": parts, "strand": loc["strand"]}
    if loc.get("operator"):
        out["operator"] = loc["operator"]
    return out


def loc_len(loc: dict) -> int:
    return sum(e - s for s, e in loc["parts"])


def sub_location(loc: dict, aa_start: int, aa_end: int) -> dict:
    """ nucleotides encoding residues [aa_start, aa_end) of a gene laid out as `loc`
        (already shifted by codon_start), as a location spec in Biopython part order """
    order = transcript(loc)[3 * aa_start:3 * aa_end]
    assert order, (loc, aa_start, aa_end)
    runs: list = []
    step = -1 if loc["strand"] == -1 else 1
    lo = hi = order[0]
    for base in order[1:]:
        if base == hi + step:
            hi = base
        else:
            runs.append((lo, hi))
            lo = hi = base
    runs.append((lo, hi))
    parts = [[min(a, b), max(a, b) + 1] for a, b in runs]
    return {"parts": parts, "strand": loc["strand"]}


def arc_to_area(start: int, size: int, length: int, strand: Optional[int]) -> dict:
    """ an area location spec: one part, or two forward parts meeting at the origin """
    assert 0 < size <= length and 0 <= start < length
    if start + size <= length:
        return {"parts": [[start, start + size]], "strand": strand}
    return {"parts": [[start, length], [0, start + size - length]], "strand": 1}


def extend_arc(start: int, size: int, left: int, right: int, length: int, circular: bool) -> tuple:
    """ (start, size) of the arc grown by left/right bases: clipped on a line, wrapped on a ring """
    if not circular:
        new_start = max(0, start - left)
        new_end = min(length, start + size + right)
        return new_start, new_end - new_start
    if size + left + right >= length:
        return 0, length
    return (start - left) % length, size + left + right


# --------------------------------------------------------------------------- locations and dumps

def _pos_text(pos: Any) -> str:
    name = type(pos).__name__
    prefix = {"BeforePosition": "<", "AfterPosition": ">"}.get(name, "" if name == "ExactPosition" else name + ":")
    return f"{prefix}{int(pos)}"


def location_text(location: Any, strandless_as_forward: bool = False) -> str:
    """ canonical text of a location; with strandless_as_forward a missing strand reads as +1
        (GenBank text has no way of writing a strandless feature) """
    parts = []
    for part in location.parts:
        strand = part.strand
        if strandless_as_forward and strand in (None, 0):
            strand = 1
        parts.append(f"{_pos_text(part.start)}:{_pos_text(part.end)}:{strand}")
    operator = location.operator if len(location.parts) > 1 else "-"
    return f"{operator}{{{','.join(parts)}}}"


def to_secmet_location(loc: dict, fuzzy: tuple = (False, False)) -> Any:
    from antismash.common.secmet.locations import (
        AfterPosition, BeforePosition, CompoundLocation, ExactPosition, FeatureLocation)
    low = min(range(len(loc["parts"])), key=lambda i: loc["parts"][i][0])
    high = max(range(len(loc["parts"])), key=lambda i: loc["parts"][i][1])
    parts = []
    for index, (start, end) in enumerate(loc["parts"]):
        spos = BeforePosition(start) if (fuzzy[0] and index == low) else ExactPosition(start)
        epos = AfterPosition(end) if (fuzzy[1] and index == high) else ExactPosition(end)
        parts.append(FeatureLocation(spos, epos, loc.get("strand")))
    if len(parts) == 1:
        return parts[0]
    return CompoundLocation(parts, operator=loc.get("operator") or "join")


def to_bio_location(loc: dict, fuzzy: tuple = (False, False)) -> Any:
    """ plain Biopython location, as a GenBank parser would hand it over """
    from Bio.SeqFeature import AfterPosition, BeforePosition, CompoundLocation, ExactPosition, SimpleLocation
    low = min(range(len(loc["parts"])), key=lambda i: loc["parts"][i][0])
    high = max(range(len(loc["parts"])), key=lambda i: loc["parts"][i][1])
    parts = []
    for index, (start, end) in enumerate(loc["parts"]):
        spos = BeforePosition(start) if (fuzzy[0] and index == low) else ExactPosition(start)
        epos = AfterPosition(end) if (fuzzy[1] and index == high) else ExactPosition(end)
        parts.append(SimpleLocation(spos, epos, loc.get("strand")))
    if len(parts) == 1:
        return parts[0]
    return CompoundLocation(parts, operator=loc.get("operator") or "join")


def _qualifier_items(qualifiers: dict) -> list:
    items = []
    for key in sorted(qualifiers):
        value = qualifiers[key]
        if value is None:
            items.append([key, None])
        elif isinstance(value, (list, tuple)):
            if not value:
                continue    # a qualifier without values is invisible in GenBank text and carries nothing
            items.append([key, [None if v is None else str(v) for v in value]])
        else:
            items.append([key, [str(value)]])
    return items


def feature_table(bio_record: Any, strandless_as_forward: bool = False, ordered: bool = False) -> list:
    """ [type, location text, sorted qualifiers] per SeqFeature, sorted (a multiset) unless ordered """
    rows = [[feature.type, location_text(feature.location, strandless_as_forward),
             _qualifier_items(feature.qualifiers)] for feature in bio_record.features]
    if ordered:
        return rows
    return sorted(rows, key=repr)


def genbank_text(record: Any) -> str:
    from Bio import SeqIO
    handle = io.StringIO()
    SeqIO.write([record.to_biopython()], handle, "genbank")
    return handle.getvalue()


def record_from_genbank_text(text: str, taxon: str) -> Any:
    from Bio import SeqIO
    from antismash.common.secmet import Record
    bios = list(SeqIO.parse(io.StringIO(text), "genbank"))
    assert len(bios) == 1, len(bios)
    return Record.from_biopython(bios[0], taxon)


def _names(features: Any) -> list:
    return [feature.get_name() for feature in features]


def _children(area: Any) -> dict:
    """ member genes of an area: as a set, and by origin section (the order of addition is incidental) """
    children = area.cds_children
    return {"all": sorted(_names(children)), "pre_origin": sorted(_names(children.pre_origin)),
            "cross_origin": sorted(_names(children.cross_origin)), "post_origin": sorted(_names(children.post_origin))}


def _area_key(area: Any, forward: bool) -> list:
    return [area.type, location_text(area.location, forward), getattr(area, "product", None),
            getattr(area, "tool", None), getattr(area, "label", None)]


def _region_number(record: Any, region: Any) -> Any:
    if region is None:
        return None
    if region not in record.get_regions():
        return "<not in record>"
    return region.get_region_number()


def _kinds_of(record: Any) -> tuple:
    return (("protocluster", record.get_protoclusters()), ("cand_cluster", record.get_candidate_clusters()),
            ("subregion", record.get_subregions()), ("CDS", record.get_cds_features()))


def area_ties(record: Any) -> list:
    """ kinds (protocluster, cand_cluster, subregion, CDS) with two members of which neither sorts before the
        other under the record's own ordering (__lt__): equal coordinates / equal sort keys """
    kinds = []
    for kind, areas in _kinds_of(record):
        if any(not first < second and not second < first
               for index, first in enumerate(areas) for second in areas[index + 1:]):
            kinds.append(kind)
    return kinds


def area_order_conflicts(record: Any) -> list:
    """ kinds with two members that EACH sort before the other (the ordering contradicts itself) """
    kinds = []
    for kind, areas in _kinds_of(record):
        if any(first < second and second < first
               for index, first in enumerate(areas) for second in areas[index + 1:]):
            kinds.append(kind)
    return kinds


def canonical_dump(record: Any, strandless_as_forward: bool = False, bio_record: Any = None) -> dict:
    """ see the module docstring; `bio_record` may pass an already made record.to_biopython() """
    from antismash.common.secmet.features import Prepeptide
    from antismash.common.secmet.features.protocluster import SideloadedProtocluster
    from antismash.common.secmet.features.subregion import SideloadedSubRegion
    fwd = strandless_as_forward

    def loc(location: Any) -> str:
        return location_text(location, fwd)

    bio = bio_record if bio_record is not None else record.to_biopython()
    annotations = record.annotations
    dump: dict = {
        "id": record.id, "name": record.name, "description": record.description,
        "seq": str(record.seq).upper(), "length": len(record),
        "circular": record.is_circular(),
        "topology": str(annotations.get("topology", "")).lower(),
        "molecule_type": annotations.get("molecule_type"),
        "features": feature_table(bio, fwd),
    }
    secmet = []
    for feature in record.all_features:
        name = None
        if hasattr(feature, "get_name"):
            try:
                name = feature.get_name()
            except (AssertionError, ValueError):
                name = None
        secmet.append([feature.type, type(feature).__name__, name, loc(feature.location)])
    dump["secmet_features"] = sorted(secmet, key=repr)

    structure: dict = {}
    protos = record.get_protoclusters()
    structure["protoclusters"] = []
    for proto in protos:
        t2pks = None
        if proto.t2pks:
            t2pks = {"starters": list(proto.t2pks.starter_units), "elongations": list(proto.t2pks.malonyl_elongations),
                     "classes": list(proto.t2pks.product_classes),
                     "weights": sorted(proto.t2pks.molecular_weights.items())}
        structure["protoclusters"].append({
            "number": proto.get_protocluster_number(), "loc": loc(proto.location), "core": loc(proto.core_location),
            "product": proto.product, "category": proto.product_category, "tool": proto.tool,
            "cutoff": proto.cutoff, "nrange": proto.neighbourhood_range, "rule": proto.detection_rule,
            "sideloaded": isinstance(proto, SideloadedProtocluster),
            "extra": _qualifier_items(getattr(proto, "extra_qualifiers", {}) or {}),
            "t2pks": t2pks, "contig_edge": proto.contig_edge,
            "cds": _children(proto), "definition": sorted(_names(proto.definition_cdses)),
        })
    structure["candidates"] = []
    for cand in record.get_candidate_clusters():
        structure["candidates"].append({
            "number": cand.get_candidate_cluster_number(), "loc": loc(cand.location),
            "core": loc(cand.core_location), "kind": str(cand.kind),
            "protoclusters": [p.get_protocluster_number() for p in cand.protoclusters],
            "members": [_area_key(p, fwd) + [loc(p.core_location)] for p in cand.protoclusters],
            "products": list(cand.products), "smiles": cand.smiles_structure, "polymer": cand.polymer,
            "cds": _children(cand), "contig_edge": cand.contig_edge,
            "parent": _region_number(record, cand.parent),
        })
    structure["subregions"] = []
    for sub in record.get_subregions():
        structure["subregions"].append({
            "number": sub.get_subregion_number(), "loc": loc(sub.location), "tool": sub.tool, "label": sub.label,
            "sideloaded": isinstance(sub, SideloadedSubRegion),
            "extra": _qualifier_items(getattr(sub, "extra_qualifiers", {}) or {}),
            "cds": _children(sub), "contig_edge": sub.contig_edge,
            "parent": _region_number(record, sub.parent),
        })
    structure["regions"] = []
    for region in record.get_regions():
        structure["regions"].append({
            "number": region.get_region_number(), "loc": loc(region.location),
            "candidates": [c.get_candidate_cluster_number() for c in region.candidate_clusters],
            "candidate_members": [[loc(c.location), str(c.kind)] for c in region.candidate_clusters],
            "subregions": [s.get_subregion_number() for s in region.subregions],
            "subregion_members": [_area_key(s, fwd) for s in region.subregions],
            "products": list(region.products), "cds": _children(region),
            "contig_edge": region.contig_edge,
        })
    genes: dict = {}
    for cds in record.get_cds_features():
        nrps = {"type": cds.nrps_pks.type,
                "domains": [[d.name, d.label, d.start, d.end, d.evalue, d.bitscore, d.feature_name, d.full_type]
                            for d in cds.nrps_pks.domains]}
        genes[cds.get_name()] = {
            "location": loc(cds.location), "translation": cds.translation, "transl_table": cds.transl_table,
            "ids": [cds.locus_tag, cds.protein_id, cds.gene], "product": cds.product,
            "function": str(cds.gene_function),
            "secmet": [[d.name, d.evalue, d.bitscore, d.nseeds, d.tool] for d in cds.sec_met.domains],
            "nrps": nrps,
            "region": cds.region.get_region_number() if cds.region is not None else None,
            "modules": sorted(loc(m.location) for m in cds.modules),
            "pfams": sorted(_names(record.get_pfam_domains_in_cds(cds))),
            "asdomains": sorted(_names(record.get_antismash_domains_in_cds(cds))),
        }
    structure["cds"] = genes
    structure["cds_functions"] = {cds.get_name(): [[str(f.function), f.tool, f.product, f.description]
                                                   for f in cds.gene_functions] for cds in record.get_cds_features()}
    structure["cds_order"] = _names(record.get_cds_features())
    structure["genes"] = sorted([g.get_name(), loc(g.location)] for g in record.get_genes())
    structure["modules"] = sorted(
        ([loc(m.location), _names(m.domains), str(m.module_type), m.is_complete(), m.is_starter_module(),
          m.is_final_module(), m.is_iterative(), [list(pair) for pair in m.monomers], list(m.parent_cds_names)]
         for m in record.get_modules()), key=repr)
    prepeptides = []
    for motif in record.get_cds_motifs():
        if isinstance(motif, Prepeptide):
            prepeptides.append([motif.get_name(), loc(motif.location), motif.peptide_class, motif.peptide_subclass,
                                motif.leader, motif.core, motif.tail, motif.score, motif.monoisotopic_mass,
                                motif.molecular_weight, list(motif.alternative_weights), motif.tool])
    structure["prepeptides"] = sorted(prepeptides, key=repr)
    domains = []
    for feature in list(record.get_pfam_domains()) + list(record.get_antismash_domains()) + list(record.get_cds_motifs()):
        if isinstance(feature, Prepeptide):
            continue
        go = getattr(feature, "gene_ontologies", None)
        domains.append({
            "name": feature.get_name(), "class": type(feature).__name__, "loc": loc(feature.location),
            "protein": [int(feature.protein_location.start), int(feature.protein_location.end)],
            "locus_tag": feature.locus_tag, "domain": feature.domain, "tool": feature.tool, "label": feature.label,
            "detection": feature.detection, "database": feature.database, "score": feature.score,
            "evalue": feature.evalue, "translation": feature._translation,  # pylint: disable=protected-access
            "asf": list(feature.asf.hits), "created_by_antismash": feature.created_by_antismash,
            "identifier": getattr(feature, "identifier", None), "version": getattr(feature, "version", None),
            "description": getattr(feature, "description", None),
            "subtypes": list(getattr(feature, "subtypes", []) or []),
            "specificity": list(getattr(feature, "specificity", []) or []),
            "go": sorted(go.go_entries.items()) if go else [],
        })
    structure["domains"] = sorted(domains, key=lambda item: item["name"])
    structure["domain_names"] = sorted(
        _names(record.get_pfam_domains()) + _names(record.get_antismash_domains()) + _names(record.get_cds_motifs()))
    dump["structure"] = structure
    return dump


def diff_dumps(first: Any, second: Any, path: str = "", limit: int = 6) -> list:
    """ short, JSON-able list of the places where two dumps differ """
    out: list = []

    def walk(a: Any, b: Any, where: str) -> None:
        if len(out) >= limit or a == b:
            return
        if isinstance(a, dict) and isinstance(b, dict):
            for key in sorted(set(a) | set(b), key=str):
                if key not in a:
                    out.append({"at": f"{where}/{key}", "first": "<absent>", "second": _short(b[key])})
                elif key not in b:
                    out.append({"at": f"{where}/{key}", "first": _short(a[key]), "second": "<absent>"})
                else:
                    walk(a[key], b[key], f"{where}/{key}")
                if len(out) >= limit:
                    return
            return
        if isinstance(a, list) and isinstance(b, list) and len(a) == len(b):
            for index, (x, y) in enumerate(zip(a, b)):
                walk(x, y, f"{where}[{index}]")
                if len(out) >= limit:
                    return
            return
        out.append({"at": where, "first": _short(a), "second": _short(b)})

    walk(first, second, path)
    return out


def _short(value: Any) -> Any:
    text = repr(value)
    return value if len(text) <= 4000 else text[:4000] + "..."


# --------------------------------------------------------------------------- building

class Built(SimpleNamespace):
    """ record: the Record (None when excluded); excluded: None or "create_regions: <message>";
        classes: coverage labels; taxon: what Record.from_biopython needs for a reload """


def build_input_seqrecord(spec: dict) -> Any:
    from Bio.Seq import Seq
    from Bio.SeqFeature import Reference, SeqFeature, SimpleLocation
    from Bio.SeqRecord import SeqRecord
    length = spec["L"]
    header = spec["header"]
    bio = SeqRecord(Seq(sequence(length, spec["seed"])), id=header["id"], name=header["name"],
                    description=header["description"])
    annotations = dict(header["annotations"])
    annotations["topology"] = "circular" if spec["circular"] else "linear"
    annotations["molecule_type"] = "DNA"
    if header.get("reference"):
        ref = Reference()
        ref.authors = "Doe,J. and Roe,R."
        ref.title = "Direct Submission"
        ref.journal = "Submitted (01-JAN-2000) Some Institute, Some Street 1, Town, Country"
        ref.location = [SimpleLocation(0, length)]
        annotations["references"] = [ref]
    bio.annotations.update(annotations)
    features = []
    if spec.get("source", True):
        features.append(SeqFeature(SimpleLocation(0, length, 1), type="source",
                                   qualifiers={"organism": [annotations.get("organism", "Unknown")],
                                               "mol_type": ["genomic DNA"]}))
    for gene in spec["genes"]:
        fuzzy = tuple(gene.get("fuzzy") or (False, False))
        qualifiers: dict = {}
        ident = gene.get("ident", "locus_tag")
        if ident == "locus_tag":
            qualifiers["locus_tag"] = [gene["name"]]
            if gene.get("protein_id"):
                qualifiers["protein_id"] = [gene["protein_id"]]
            if gene.get("gene"):
                qualifiers["gene"] = [gene["gene"]]
        else:
            qualifiers[ident] = [gene["name"]]
        if gene.get("codon_start", 1) != 1 or gene.get("explicit_codon_start"):
            qualifiers["codon_start"] = [str(gene.get("codon_start", 1))]
        if gene.get("transl_table"):
            qualifiers["transl_table"] = [gene["transl_table"]]
        if gene.get("translation", "given") == "given":
            aminos = loc_len(shifted(gene["loc"], gene.get("codon_start", 1))) // 3
            qualifiers["translation"] = [protein(max(1, aminos - gene.get("short", 0)), spec["seed"] + len(features))]
        for key, values in (gene.get("quals") or {}).items():
            qualifiers[key] = list(values)
        if gene.get("gene_feature"):
            gene_quals = {("locus_tag" if ident != "gene" else "gene"): [gene["name"]]}
            for key, values in (gene.get("gene_quals") or {}).items():
                gene_quals[key] = list(values)
            features.append(SeqFeature(to_bio_location(gene["loc"], fuzzy), type="gene", qualifiers=gene_quals))
        features.append(SeqFeature(to_bio_location(gene["loc"], fuzzy), type="CDS", qualifiers=qualifiers))
    for misc in spec.get("misc") or []:
        features.append(SeqFeature(to_bio_location(misc["loc"]), type=misc["type"],
                                   qualifiers={k: list(v) for k, v in misc["quals"].items()}))
    bio.features = features
    return bio


def _add_domain(record: Any, cds: Any, gene: dict, dom: dict, gene_loc: dict) -> Any:
    from antismash.common.secmet.features import AntismashDomain, CDSMotif, PFAMDomain
    from antismash.common.secmet.locations import FeatureLocation
    from antismash.common.secmet.qualifiers import GOQualifier
    from antismash.detection.nrps_pks_domains.modular_domain import ModularDomain
    from antismash.detection.tigrfam.tigr_domain import TIGRDomain
    from antismash.modules.rrefinder.rre_domain import RREDomain
    start, end = dom["aa"]
    location = to_secmet_location(sub_location(gene_loc, start, end))
    prot = FeatureLocation(start, end)
    name = cds.get_name()
    kind = dom["kind"]
    if kind == "modular":
        feature = ModularDomain(location, protein_location=prot, locus_tag=name)
        feature.domain = dom["domain"]
        feature.subtypes = list(dom.get("subtypes") or [])
        feature.specificity = list(dom.get("specificity") or [])
        feature.detection = "hmmscan"
        feature.database = "nrpspksdomains.hmm"
        feature.label = dom["label"]
    elif kind == "generic":
        feature = AntismashDomain(location, dom["tool"], prot, name, domain=dom.get("domain"))
        feature.label = dom.get("label")
    elif kind == "tigr":
        feature = TIGRDomain(location, dom["description"], prot, dom["identifier"], name, domain=dom["domain"])
        feature.detection = "hmmscan"
        feature.database = "TIGRFam"
    elif kind == "rre":
        feature = RREDomain(location, dom["description"], prot, dom["identifier"], name, domain=dom["domain"])
        feature.detection = "hmmscan"
        feature.database = "RREFam.hmm"
    elif kind == "pfam":
        feature = PFAMDomain(location, dom["description"], prot, identifier=dom["identifier"], tool=dom["tool"],
                             locus_tag=name, domain=dom.get("domain"))
        feature.label = dom.get("label")
        feature.database = dom.get("database")
        feature.detection = "hmmscan"
        if dom.get("go"):
            feature.gene_ontologies = GOQualifier(dict(dom["go"]))
    else:
        assert kind == "motif", kind
        feature = CDSMotif(location, name, prot, tool=dom["tool"])
        feature.label = dom.get("label")
        feature.detection = "hmmscan"
        feature.database = "abmotifs"
    feature.domain_id = dom["id"]
    if dom.get("evalue") is not None:
        feature.evalue = dom["evalue"]
    if dom.get("score") is not None:
        feature.score = dom["score"]
    if dom.get("translation", True):
        translation = cds.translation[start:end].replace("*", "X")
        feature.translation = translation or "X"
    for label in dom.get("asf") or []:
        feature.asf.add(label)
    for note in dom.get("notes") or []:
        feature.notes.append(note)
    if kind == "pfam":
        record.add_pfam_domain(feature)
    elif kind == "motif":
        record.add_cds_motif(feature)
        cds.motifs.append(feature)
    else:
        record.add_antismash_domain(feature)
    if kind == "modular":
        hit = SimpleNamespace(hit_id=dom["hit_id"], query_start=start, query_end=end, evalue=dom["evalue"],
                              bitscore=dom["score"], detailed_names=[dom["hit_id"]] + list(dom.get("subtypes") or []))
        cds.nrps_pks.add_domain(hit, feature.get_name())
    return feature


def build_record(spec: dict) -> Built:
    """ see the module docstring """
    from antismash.common.secmet import Record
    from antismash.common.secmet.features import Module, Prepeptide, Protocluster, SubRegion
    from antismash.common.secmet.features.protocluster import SideloadedProtocluster
    from antismash.common.secmet.features.subregion import SideloadedSubRegion
    from antismash.common.secmet.qualifiers import GeneFunction, SecMetQualifier
    from antismash.common.secmet.qualifiers.t2pks import T2PKSQualifier

    taxon = spec.get("taxon", "bacteria")
    record = Record.from_biopython(build_input_seqrecord(spec), taxon)
    built = Built(record=record, excluded=None, classes=[], taxon=taxon)

    # areas first, in the order of the pipeline: detection, candidates, regions, then the annotating modules
    for gene in spec["genes"]:
        cds = record.get_cds_by_name(gene["name"])
        for function, tool, description, product in gene.get("functions") or []:
            cds.gene_functions.add(GeneFunction[function], tool, description, product)
        if gene.get("secmet"):
            domains = [SecMetQualifier.Domain(*values) for values in gene["secmet"]]
            if not cds.sec_met:
                cds.sec_met = SecMetQualifier(domains)
            else:
                cds.sec_met.add_domains(domains)
    for proto in spec.get("protoclusters") or []:
        core = to_secmet_location(proto["core"])
        surrounds = to_secmet_location(proto["loc"])
        if proto.get("sideloaded"):
            area: Any = SideloadedProtocluster(core, surrounds, proto["tool"], proto["product"],
                                               neighbourhood_range=proto["nrange"],
                                               extra_qualifiers={k: list(v) for k, v in (proto.get("extra") or {}).items()})
        else:
            area = Protocluster(core, surrounds, proto["tool"], proto["product"], proto["cutoff"], proto["nrange"],
                                proto["rule"], product_category=proto["category"])
            if proto.get("t2pks"):
                t2 = proto["t2pks"]
                area.t2pks = T2PKSQualifier(list(t2["starters"]), list(t2["elongations"]), list(t2["classes"]),
                                            dict(t2["weights"]))
        record.add_protocluster(area)
    for sub in spec.get("subregions") or []:
        location = to_secmet_location(sub["loc"])
        if sub.get("sideloaded"):
            record.add_subregion(SideloadedSubRegion(location, sub["tool"], label=sub["label"],
                                                     extra_qualifiers={k: list(v) for k, v in (sub.get("extra") or {}).items()}))
        else:
            record.add_subregion(SubRegion(location, sub["tool"], label=sub["label"]))
    if spec.get("candidates", True):
        try:
            record.create_candidate_clusters()
        except Exception as err:  # pylint: disable=broad-except  # C05 judges this step
            built.record = None
            built.excluded = f"create_candidate_clusters: {type(err).__name__}: {str(err)[:80]}"
            return built
        for index, values in enumerate(spec.get("candidate_extras") or []):
            cands = record.get_candidate_clusters()
            if index < len(cands):
                cands[index].smiles_structure = values[0]
                cands[index].polymer = values[1]
    if spec.get("regions", True):
        try:
            record.create_regions()
        except Exception as err:  # pylint: disable=broad-except  # C06 judges this step
            built.record = None
            built.excluded = f"create_regions: {type(err).__name__}: {str(err)[:80]}"
            return built

    # annotations
    made: dict = {}
    for gindex, gene in enumerate(spec["genes"]):
        cds = record.get_cds_by_name(gene["name"])
        gene_loc = shifted(gene["loc"], gene.get("codon_start", 1))
        if gene.get("nrps_type"):
            cds.nrps_pks.type = gene["nrps_type"]
        for dindex, dom in enumerate(gene.get("domains") or []):
            made[(gindex, dindex)] = _add_domain(record, cds, gene, dom, gene_loc)
        for note in gene.get("added_notes") or []:
            cds.notes.append(note)
        pre = gene.get("prepeptide")
        if pre:
            peptide = Prepeptide(cds.location, pre["class"], pre["core"], f"{cds.get_name()}_{pre['class']}",
                                 pre["tool"], pre.get("subclass"), pre["score"], pre["mass"], pre["weight"],
                                 list(pre.get("alt_weights") or []), leader=pre.get("leader", ""),
                                 tail=pre.get("tail", ""))
            record.add_cds_motif(peptide)
    for module in spec.get("modules") or []:
        domains = [made[tuple(ref)] for ref in module["domains"]]
        location = record.connect_locations([dom.location for dom in domains])
        feature = Module(location, domains, module_type=Module.types[module["type"]], complete=module["complete"],
                         starter=module["starter"], final=module["final"], iterative=module["iterative"])
        for substrate, monomer in module.get("monomers") or []:
            feature.add_monomer(substrate, monomer)
        record.add_module(feature)
    return built


# --------------------------------------------------------------------------- measures

def _finish_protoclusters(draw: Any, protos: list, genes: list) -> None:
    """ defining genes: a CORE function with the product on the anchor genes, as rule detection leaves it """
    for proto in protos:
        anchors_of = proto.pop("_anchors")
        proto.pop("_core_arc")
        if proto["sideloaded"]:
            continue
        for gi in anchors_of:
            entry = ["CORE", "rule-based-clusters", draw(st.sampled_from(["PKS_KS", "AMP-binding", "Condensation"])),
                     proto["product"]]
            if entry not in genes[gi]["functions"]:
                genes[gi]["functions"].append(entry)


def _is_span(loc: dict) -> bool:
    return gen.is_span(loc)


def spec_classes(spec: dict) -> list:
    classes = ["circular" if spec["circular"] else "linear", f"taxon_{spec.get('taxon', 'bacteria')}"]
    genes = spec["genes"]
    if any(_is_span(g["loc"]) for g in genes):
        classes.append("gene_span")
    if any(len(g["loc"]["parts"]) > 1 and not _is_span(g["loc"]) for g in genes):
        classes.append("gene_multi_exon")
    if any(g.get("codon_start", 1) != 1 for g in genes):
        classes.append("codon_start")
    if any(any(g.get("fuzzy") or ()) for g in genes):
        classes.append("gene_partial")
    if any(g.get("functions") for g in genes):
        classes.append("gene_functions")
    if any(g.get("secmet") for g in genes):
        classes.append("sec_met")
    if any(g.get("added_notes") for g in genes):
        classes.append("notes_added")
    if any(g.get("ident", "locus_tag") != "locus_tag" for g in genes):
        classes.append("gene_without_locus_tag")
    kinds = {d["kind"] for g in genes for d in g.get("domains") or []}
    classes.extend(f"domain_{kind}" for kind in sorted(kinds))
    for gene in genes:
        gene_loc = shifted(gene["loc"], gene.get("codon_start", 1))
        for dom in gene.get("domains") or []:
            sub = sub_location(gene_loc, *dom["aa"])
            if _is_span(sub):
                classes.append("domain_span")
            elif len(sub["parts"]) > 1:
                classes.append("domain_multi_part")
    pres = [(g, g["prepeptide"]) for g in genes if g.get("prepeptide")]
    if pres:
        classes.append("prepeptide")
    if any(g["loc"]["strand"] == -1 for g, _ in pres):
        classes.append("prepeptide_reverse")
    if any(len(g["loc"]["parts"]) > 1 and not _is_span(g["loc"]) for g, _ in pres):
        classes.append("prepeptide_multi_exon")
    if any(_is_span(g["loc"]) for g, _ in pres):
        classes.append("prepeptide_span")
    if any(p.get("subclass") is None for _, p in pres):
        classes.append("prepeptide_no_subclass")
    if any(p.get("leader") and p.get("tail") for _, p in pres):
        classes.append("prepeptide_leader_and_tail")
    if any(max(len(p.get("leader", "")), len(p["core"]), len(p.get("tail", ""))) >= LONG_VALUE for _, p in pres):
        classes.append("prepeptide_long_sequence")
    if any(loc_len(shifted(g["loc"], g.get("codon_start", 1))) % 3 or any(g.get("fuzzy") or ()) for g, _ in pres):
        classes.append("prepeptide_partial_codon_or_fuzzy")
    if any(len(v or "") >= LONG_VALUE for pair in spec.get("candidate_extras") or [] for v in pair) and spec.get("candidates", True):
        classes.append("long_smiles")
    if any(f[3] is None and ":" in f[2] for g in genes for f in g.get("functions") or []):
        classes.append("function_description_with_colon")
    if any(g.get("added_notes") and (g.get("quals") or {}).get("note") for g in genes):
        classes.append("notes_added_to_noted_gene")
    if any(d["kind"] == "pfam" and not d.get("go") for g in genes for d in g.get("domains") or []):
        classes.append("pfam_without_go")
    modules = spec.get("modules") or []
    if modules:
        classes.append("module")
    if any(len({ref[0] for ref in m["domains"]}) > 1 for m in modules):
        classes.append("module_multi_cds")
    protos = spec.get("protoclusters") or []
    if protos:
        classes.append("protocluster")
    if any(p.get("sideloaded") for p in protos):
        classes.append("protocluster_sideloaded")
    if any(p.get("sideloaded") and p.get("extra") for p in protos):
        classes.append("protocluster_sideloaded_extra")
    if any(p.get("t2pks") for p in protos):
        classes.append("protocluster_t2pks")
    if any(len(p["loc"]["parts"]) > 1 for p in protos):
        classes.append("protocluster_span")
    if any(len(p["core"]["parts"]) > 1 for p in protos):
        classes.append("protocluster_core_span")
    keys = [(tuple(map(tuple, p["loc"]["parts"]))) for p in protos]
    if len(set(keys)) < len(keys):
        classes.append("protocluster_equal_coordinates")
    subs = spec.get("subregions") or []
    if subs:
        classes.append("subregion")
    if any(s.get("sideloaded") for s in subs):
        classes.append("subregion_sideloaded")
    if any(len(s["loc"]["parts"]) > 1 for s in subs):
        classes.append("subregion_span")
    keys = [(tuple(map(tuple, s["loc"]["parts"]))) for s in subs]
    if len(set(keys)) < len(keys):
        classes.append("subregion_equal_coordinates")
    if any(_is_span(m["loc"]) for m in spec.get("misc") or []):
        classes.append("misc_span")
    if any(m["loc"].get("operator") == "order" for m in spec.get("misc") or []):
        classes.append("misc_order_location")
    if any(g["loc"].get("operator") == "order" for g in genes):
        classes.append("gene_order_location")
    hulls: dict = {}
    for gene in genes:
        parts = gene["loc"]["parts"]
        if _is_span(gene["loc"]):
            forward = parts if gene["loc"]["strand"] != -1 else list(reversed(parts))
            key = ("span", forward[0][0], gene["loc"]["strand"])
        else:
            key = ("hull", min(p[0] for p in parts), max(p[1] for p in parts), gene["loc"]["strand"])
        hulls.setdefault(key, []).append(gene)
    for key, members in hulls.items():
        if len(members) > 1 and len({loc_len(g["loc"]) for g in members}) == len(members):
            classes.append("gene_isoforms_same_hull" if key[0] == "hull" else "gene_span_pair_same_pre_origin_start")
            if len(members) > 2:
                classes.append("gene_three_same_hull")
    long_named = [g for g in genes if len(g["name"]) > LONG_VALUE]
    if long_named:
        classes.append("gene_long_name")
    if any(d["kind"] in ("tigr", "rre") for g in long_named for d in g.get("domains") or []):
        classes.append("long_name_tigr_or_rre")
    if any(g.get("prepeptide") for g in long_named):
        classes.append("long_name_prepeptide")
    if any(d["kind"] == "modular" for g in long_named for d in g.get("domains") or []):
        classes.append("long_name_modular")
    if any(len(g.get(key) or "") > LONG_VALUE for g in genes for key in ("protein_id", "gene")):
        classes.append("long_protein_id_or_gene_name")
    if any(g["loc"].get("operator") == "order" and g.get("codon_start", 1) != 1 for g in genes):
        classes.append("gene_order_location_codon_start")
    if spec["header"].get("reference"):
        classes.append("header_reference")
    if spec.get("family") == "many_areas":
        classes.append("family_many_areas")
    if len(protos) >= 10:
        classes.append("protoclusters_10_or_more")
    if len(subs) >= 10:
        classes.append("subregions_10_or_more")
    values = [d.get(key) for g in genes for d in g.get("domains") or [] for key in ("evalue", "score")]
    values += [v for g in genes for entry in g.get("secmet") or [] for v in entry[1:3]]
    if any(v == 0 for v in values if v is not None):
        classes.append("zero_evalue_or_score")
    if any(v is not None and v < 0 for v in values):
        classes.append("negative_score")
    if any(v is None for v in values):
        classes.append("domain_without_evalue_or_score")
    return classes


def spec_is_nontrivial(spec: dict, classes: Optional[list] = None) -> bool:
    classes = set(classes if classes is not None else spec_classes(spec))
    interesting = {"gene_span", "domain_span", "protocluster_span", "subregion_span", "misc_span",
                   "protocluster_equal_coordinates", "subregion_equal_coordinates", "prepeptide_reverse",
                   "module_multi_cds", "cand_equal_coordinates", "region_span", "cand_span", "module_span",
                   "cand_members_cross_digits", "region_members_cross_digits", "zero_evalue_or_score"}
    return bool(classes & interesting)


# --------------------------------------------------------------------------- strategy

WORDS = ["alpha", "beta", "synthase", "like", "protein", "domain", "family", "putative", "type", "II", "ABC",
         "transporter", "N-terminal", "3-oxoacyl", "reductase", "(EC", "1.1.1.100)", "regulator,", "LuxR"]
PRODUCTS = ["NRPS", "T1PKS", "T2PKS", "terpene", "lanthipeptide-class-i", "RiPP-like", "NRPS-like", "hglE-KS",
            "NAPAA", "transAT-PKS", "thiopeptide", "lassopeptide", "sactipeptide", "PKS_like"]
CATEGORIES = ["NRPS", "PKS", "RiPP", "terpene", "other", "saccharide"]
RULES = ["cds(Condensation and (AMP-binding or A-OX))", "(PKS_KS or ene_KS) and PKS_AT",
         "minimum(2, [t2ks, t2clf, t2fas]) and not hglE", "Terpene_synth_C or phytoene_synt",
         "LANC_like and (Lant_dehydr_N or Lant_dehydr_C) and minscore(TIGR03731, 18)", "strepbact"]
MODULAR = [("AMP-binding", "AMP-binding"), ("PKS_KS", "PKS_KS"), ("PKS_AT", "PKS_AT"), ("PKS_KR", "PKS_KR"),
           ("Condensation_LCL", "Condensation"), ("PCP", "PCP"), ("ACP", "PP-binding"), ("Thioesterase", "Thioesterase"),
           ("CAL_domain", "CAL_domain"), ("A-OX", "A-OX"), ("Epimerization", "Epimerization"), ("PKS_DH", "PKS_DH")]
NRPS_TYPES = ["NRPS", "Type I Modular PKS", "Hybrid PKS-NRPS", "PKS/NRPS-like protein", "NRPS-like protein",
              "Glycopeptide NRPS", "other"]
DESCRIPTIONS = ["SMCOG1000: ABC transporter ATP-binding protein", "SMCOG1127: condensation domain-containing protein",
                "AMP-binding", "KS (Score: 123.4; E-value: 1.2e-30)", "RF0001: multidrug resistance",
                "MITE0000001: halogenase (87% identity)", "predicted lanthipeptide", "TIGR03731",
                "EC 2.3.1.41; acyltransferase", "PF00109", "EC:2.3.1.41"]
PLAIN_DESCRIPTIONS = ["AMP-binding", "predicted lanthipeptide", "TIGR03731", "PF00109", "PKS_KS", "halogenase",
                      "EC 2.3.1.41; acyltransferase", "KS (Score 123.4; E-value 1.2e-30)"]
MISC_TYPES = ["misc_feature", "regulatory", "tRNA", "repeat_region", "misc_RNA", "RBS", "mobile_element", "primer_bind"]
DETAIL_KEYS = ["evidence", "score.raw", "my-key", "Ab1", "x2", "reference-id", "confidence_level"]


def _one_in(n: int) -> st.SearchStrategy:
    """ True about once in n draws (Hypothesis favours the ends of an integer range, so test the middle) """
    if n <= 2:
        return st.booleans() if n == 2 else st.just(True)
    return st.integers(0, n - 1).map(lambda value: value == n // 2)


def _text(max_words: int = 6) -> st.SearchStrategy:
    return st.lists(st.sampled_from(WORDS), min_size=1, max_size=max_words).map(" ".join)


def _nice_float(low: float, high: float, digits: int) -> st.SearchStrategy:
    scale = 10 ** digits
    return st.integers(int(low * scale), int(high * scale)).map(lambda v: v / scale)


def _evalue() -> st.SearchStrategy:
    """ e-values at the precision of their GenBank text (.2E): ordinary ones, and the boundary values tools report:
        exactly 0.0 (HMMER once the value underflows), the smallest doubles, 1.0, values above 1 """
    ordinary = st.tuples(st.integers(100, 999), st.integers(1, 150)).map(lambda p: float(f"{p[0] / 100:.2f}E-{p[1]:02d}"))
    boundary = st.sampled_from([0.0, 0.0, 5e-235, 1e-300, 4.94e-324, 1.0, 10.0, 3.5, 0.01])
    return st.one_of(ordinary, ordinary, ordinary, boundary)


def _score() -> st.SearchStrategy:
    """ bit scores: ordinary ones with one decimal, and exactly 0.0, negative ones, whole numbers, large ones """
    boundary = st.sampled_from([0.0, 0.0, -0.1, -12.5, 1.0, 100.0, 25.0, 12345.6, 0.1])
    return st.one_of(_nice_float(1, 900, 1), _nice_float(1, 900, 1), _nice_float(1, 900, 1), boundary)


@st.composite
def _header(draw) -> dict:
    base = draw(st.sampled_from(["NC_003888", "CP000001", "scaffold_12", "contig1", "AB123456", "c00001_NODE_1"]))
    version = draw(st.sampled_from([None, 1, 3]))
    rec_id = base if version is None else f"{base}.{version}"
    annotations = {
        "data_file_division": draw(st.sampled_from(["BCT", "PLN", "UNK"])),
        "date": draw(st.sampled_from(["01-JAN-2000", "26-SEP-2026"])),
        "accessions": [base],
        "keywords": draw(st.sampled_from([[""], ["RefSeq"], ["WGS", "draft"]])),
        "source": "Streptomyces coelicolor A3(2)",
        "organism": "Streptomyces coelicolor A3(2)",
        "taxonomy": ["Bacteria", "Actinomycetota", "Streptomyces"],
    }
    if version is not None:
        annotations["sequence_version"] = version
    if draw(st.booleans()):
        annotations["comment"] = draw(_text(8))
    return {"id": rec_id, "name": base, "description": draw(_text(5)), "annotations": annotations,
            "reference": draw(_one_in(4))}


@st.composite
def _domains(draw, gene: dict, aminos: int, gindex: int, want_modular: bool, forced: tuple = ()) -> list:
    count = draw(st.integers(1, 4)) if want_modular else draw(st.sampled_from([0, 0, 1, 2, 3]))
    count = max(count, len(forced))
    doms: list = []
    hit_counts: dict = {}
    # cut points in residue space, sorted, so that modular domains come in position order (as the pipeline adds them)
    for dindex in range(count):
        kind = "modular" if want_modular and draw(st.integers(0, 3)) else draw(
            st.sampled_from(["pfam", "pfam", "generic", "tigr", "rre", "motif", "modular"]))
        if dindex < len(forced):
            kind = forced[dindex]
        start = draw(gen.coord(0, aminos - 1))
        end = draw(gen.coord(start + 1, aminos))
        dom: dict = {"kind": kind, "aa": [start, end], "evalue": draw(_evalue()), "score": draw(_score())}
        if kind in ("generic", "motif") and draw(_one_in(6)):
            # a tool that reports no value at all (not the same as a value of zero)
            dom[draw(st.sampled_from(["evalue", "score"]))] = None
        name = gene["name"]
        if kind == "modular":
            hit_id, domain_name = draw(st.sampled_from(MODULAR))
            hit_counts[hit_id] = hit_counts.get(hit_id, 0) + 1
            dom.update({"hit_id": hit_id, "domain": domain_name, "label": f"{name}_{hit_id}.{hit_counts[hit_id]}",
                        "id": f"nrpspksdomains_{name}_{hit_id}.{hit_counts[hit_id]}",
                        "subtypes": draw(st.sampled_from([[], [], ["Trans-AT-KS"], ["Trans-AT-KS", "Clade_12"], ["LCL"]])),
                        "specificity": draw(st.sampled_from([[], [], ["consensus: ser"], ["KR activity: active", "KR stereochemistry: A1"]]))})
        elif kind == "generic":
            dom.update({"tool": draw(st.sampled_from(["generictool", "nrps_pks", "my_tool"])),
                        "domain": draw(st.sampled_from([None, "SomeDomain"])), "label": draw(st.sampled_from([None, f"lab{dindex}"])),
                        "id": f"generic_{name}_{dindex:04d}"})
        elif kind == "tigr":
            dom.update({"description": draw(_text()), "identifier": f"TIGR{draw(st.integers(0, 99999)):05d}",
                        "domain": draw(st.sampled_from(["TIGR03731", "lanti_2_LanM"])), "id": f"tigrfam_{name}_{dindex:04d}"})
        elif kind == "rre":
            dom.update({"description": draw(_text()), "identifier": f"RREFam{draw(st.integers(0, 999)):03d}.{draw(st.integers(1, 3))}",
                        "domain": draw(st.sampled_from(["Lanthipeptide_RRE", "Stand_Alone_Lasso_RRE"])),
                        "id": f"RREFam_{name}_{dindex:04d}"})
        elif kind == "pfam":
            version = draw(st.sampled_from(["", ".1", ".14"]))
            tool = draw(st.sampled_from(["fullhmmer", "clusterhmmer"]))
            dom.update({"description": draw(_text()), "identifier": f"PF{draw(st.integers(0, 99999)):05d}{version}",
                        "tool": tool, "domain": draw(st.sampled_from([None, "p450", "ketoacyl-synt"])),
                        "label": draw(st.sampled_from([None, "p450"])), "database": draw(st.sampled_from([None, "35.0"])),
                        "id": f"{tool}_{name}_{dindex:04d}",
                        "go": None if draw(st.booleans()) else draw(st.sampled_from([
                            {"GO:0004871": "signal transducer activity"},
                            {"GO:0016020": "membrane", "GO:0005215": "transporter activity"}]))})
        else:
            dom.update({"tool": draw(st.sampled_from(["nrps_pks_domains", "lanthipeptides"])),
                        "label": draw(st.sampled_from(["NRPS-A_a3", "C1_dual_004-017", None])),
                        "id": f"nrpspksmotif_{name}_{dindex:04d}"})
        if draw(_one_in(6)):
            dom["asf"] = draw(st.sampled_from([["active site serine present"], ["found 2 of 3", "catalytic triad S,D,H inconclusive"]]))
        if draw(_one_in(8)):
            dom["translation"] = False
        doms.append(dom)
    # the pipeline adds modular domains in position order
    modular = sorted((d for d in doms if d["kind"] == "modular"), key=lambda d: (d["aa"][0], d["aa"][1]))
    seen: dict = {}
    for dom in modular:
        seen[dom["hit_id"]] = seen.get(dom["hit_id"], 0) + 1
        dom["label"] = f"{gene['name']}_{dom['hit_id']}.{seen[dom['hit_id']]}"
        dom["id"] = f"nrpspksdomains_{gene['name']}_{dom['hit_id']}.{seen[dom['hit_id']]}"
    others = [d for d in doms if d["kind"] != "modular"]
    return modular + others


@st.composite
def _prepeptide(draw, aminos: int) -> dict:
    leader = draw(st.integers(0, max(0, aminos - 2)))
    tail = draw(st.sampled_from([0, 0, 1, 2, 5]))
    tail = min(tail, max(0, aminos - leader - 2))
    core_len = max(1, aminos - leader - tail - draw(st.sampled_from([0, 1, 1])))
    peptide_class = draw(st.sampled_from(["lanthipeptide", "thiopeptide", "lassopeptide", "sactipeptide"]))
    subclass = draw(st.sampled_from(["Class I", "Type II", "Class II", "Class I", "Type III", None])) \
        if peptide_class != "sactipeptide" else draw(st.sampled_from([None, "Class I", "Class I"]))
    seed = draw(st.integers(0, 99))
    return {"class": peptide_class, "tool": peptide_class + "s", "subclass": subclass,
            "leader": protein(leader, seed) if leader else "", "tail": protein(tail, seed + 1)[:tail] if tail else "",
            "core": protein(core_len, seed + 2),
            "score": draw(_nice_float(-20, 60, 2)), "mass": draw(_nice_float(100, 4000, 1)),
            "weight": draw(_nice_float(100, 4000, 1)),
            "alt_weights": draw(st.lists(_nice_float(100, 4000, 1), max_size=3))}


@st.composite
def _gene_details(draw, gene: dict, gindex: int, circular: bool, modular_bias: bool, notes_bias: int,
                  seen: set) -> None:
    loc = gene["loc"]
    span = gen.is_span(loc)
    first_part = loc["parts"][0]
    codon_start = 1
    if not span and first_part[1] - first_part[0] >= 6 and draw(_one_in(5)):
        codon_start = draw(st.sampled_from([2, 3]))
    key = repr(shifted(loc, codon_start)["parts"]) + str(loc["strand"])
    if key in seen:
        # two genes must not share a location once shifted (the record refuses such input)
        codon_start = 1
        key = repr(loc["parts"]) + str(loc["strand"])
    seen.add(key)
    gene["codon_start"] = codon_start
    if len(loc["parts"]) > 1 and draw(_one_in(4)):
        loc["operator"] = "order"       # order(a..b,c..d): NCBI writes it where the relation of the parts is unknown
    if codon_start == 1 and draw(_one_in(6)):
        gene["explicit_codon_start"] = True
    gene["fuzzy"] = [False, False]
    if not span and (codon_start != 1 or draw(_one_in(10))):
        gene["fuzzy"] = [draw(st.booleans()), draw(st.booleans())]
    gene["ident"] = draw(st.sampled_from(["locus_tag"] * 8 + ["protein_id", "gene"]))
    gene["protein_id"] = draw(st.sampled_from([None, None, f"WP_{gindex:09d}.1"])) if gene["ident"] == "locus_tag" else None
    gene["gene"] = draw(st.sampled_from([None, None, f"abc{chr(65 + gindex % 26)}"])) if gene["ident"] == "locus_tag" else None
    if len(gene["name"]) > LONG_VALUE:
        # a long name is a locus tag (what assembly pipelines produce); now and then the secondary identifiers are long too
        gene["ident"] = "locus_tag"
        gene["protein_id"] = f"prot{gindex}_" + "LongProteinIdentifierFromSomeOtherPipeline_v2_"[:draw(st.integers(45, 46))] \
            if draw(_one_in(4)) else None
        gene["gene"] = f"gene{gindex}" + "WithAVeryLongGeneNameNobodyShouldEverUseButSomeDo"[:draw(st.integers(42, 49))] \
            if draw(_one_in(8)) else None
    gene["gene_feature"] = draw(_one_in(3))
    gene["translation"] = draw(st.sampled_from(["given", "given", "given", "computed"]))
    gene["short"] = draw(st.sampled_from([0, 1, 1]))
    gene["transl_table"] = draw(st.sampled_from([None, None, None, "11", "4"]))
    quals: dict = {}
    if draw(st.booleans()):
        quals["product"] = [draw(_text(4))]
    notes = draw(st.integers(0, notes_bias))
    if notes:
        quals["note"] = [draw(_text(5)) for _ in range(draw(st.integers(1, 2)))]
    if draw(_one_in(4)):
        quals["db_xref"] = draw(st.sampled_from([["GeneID:1234"], ["GI:5678", "UniProtKB/TrEMBL:Q9X"]]))
    if draw(_one_in(6)):
        quals["EC_number"] = ["2.3.1.41"]
    if draw(_one_in(8)):
        quals["pseudo"] = [""]
    if draw(_one_in(6)):
        quals["inference"] = ["COORDINATES: similar to AA sequence:RefSeq:WP_000000001.1"]
    gene["quals"] = quals
    gene["added_notes"] = []
    if draw(_one_in(8)):
        gene["added_notes"] = [f"smCOG tree PNG image: smcogs/{gene['name']}.png"]
    if gene["gene_feature"] and draw(_one_in(4)):
        gene["gene_quals"] = {"note": [draw(_text(3))]}
    aminos = max(1, loc_len(shifted(loc, codon_start)) // 3)
    functions = []
    for _ in range(draw(st.sampled_from([0, 0, 1, 2, 3]))):
        function = draw(st.sampled_from(["OTHER", "ADDITIONAL", "TRANSPORT", "REGULATORY", "RESISTANCE"]))
        tool = draw(st.sampled_from(["smcogs", "rule-based-clusters", "resist", "t2pks", "mite", "halogenases"]))
        product = draw(st.sampled_from([None, None, None, "NRPS"]))
        pool = DESCRIPTIONS if draw(_one_in(30)) else PLAIN_DESCRIPTIONS
        functions.append([function, tool, draw(st.sampled_from(pool)), product])
    gene["functions"] = functions
    secmet = []
    for index in range(draw(st.sampled_from([0, 0, 1, 2]))):
        secmet.append([draw(st.sampled_from(["AMP-binding", "PKS_KS", "Condensation", "LANC_like", "p450"])) + ("" if index == 0 else str(index)),
                       draw(_evalue()), draw(_score()), draw(st.sampled_from([0, 1, 12, 400])),
                       draw(st.sampled_from(["rule-based-clusters", "cassis"]))])
    gene["secmet"] = secmet
    want_modular = modular_bias and not draw(_one_in(3))
    long_name = len(gene["name"]) > LONG_VALUE
    # the features that name their gene and are found through it: TIGRFam / RRE domains, precursor peptides
    forced = (draw(st.sampled_from(["tigr", "rre"])),) if long_name and not draw(_one_in(4)) else ()
    gene["domains"] = draw(_domains(gene, aminos, gindex, want_modular, forced))
    gene["nrps_type"] = draw(st.sampled_from(NRPS_TYPES)) if any(d["kind"] == "modular" for d in gene["domains"]) else None
    gene["prepeptide"] = None
    whole = loc_len(shifted(loc, codon_start)) % 3 == 0 and not any(gene["fuzzy"])
    plain = not span and loc["strand"] == 1
    if aminos >= 3 and (plain or draw(_one_in(3))) and draw(_one_in((2 if long_name else 4) if whole else 24)):
        gene["prepeptide"] = draw(_prepeptide(aminos))


def _gene_arc(gene: dict, length: int) -> tuple:
    """ (start, size) of the hull of a gene along the ring/line """
    parts = gene["loc"]["parts"]
    if gen.is_span(gene["loc"]):
        forward = parts if gene["loc"]["strand"] != -1 else list(reversed(parts))
        # forward order: parts before the origin first
        cut = next(i for i in range(1, len(forward)) if forward[i][0] < forward[i - 1][0])
        start = min(p[0] for p in forward[:cut])
        end = max(p[1] for p in forward[cut:])
        return start, length - start + end
    start = min(p[0] for p in parts)
    end = max(p[1] for p in parts)
    return start, end - start


def _hull(arcs: list, length: int, circular: bool) -> tuple:
    """ smallest arc (start, size) holding all arcs, walking forward from the first arc's start """
    covered = set()
    for start, size in arcs:
        covered.update((start + i) % length for i in range(size))
    if len(covered) == length:
        return 0, length
    if not circular or not any(start + size > length for start, size in arcs):
        low = min(covered)
        high = max(covered)
        if not circular or (high - low + 1) * 2 <= length:
            return low, high - low + 1
    # complement of the largest gap
    ordered = sorted(covered)
    best_gap, best_after = -1, 0
    for index, base in enumerate(ordered):
        nxt = ordered[(index + 1) % len(ordered)]
        gap = (nxt - base - 1) % length
        if gap > best_gap:
            best_gap, best_after = gap, nxt
    return best_after, length - best_gap


@st.composite
def _protoclusters(draw, genes: list, length: int, circular: bool, count: int, allow_ties: bool) -> list:
    protos: list = []
    arcs = [_gene_arc(g, length) for g in genes]
    order = sorted(range(len(genes)), key=lambda i: arcs[i][0])
    for pindex in range(count):
        sideloaded = draw(_one_in(6))
        reuse = protos and draw(_one_in(3 if allow_ties else 5))
        if reuse:
            previous = draw(st.sampled_from(protos))
            core_arc = tuple(previous["_core_arc"])
            anchors = list(previous["_anchors"])
        elif sideloaded and draw(st.booleans()):
            size = draw(gen.coord(1, max(1, length // 3)))
            start = draw(gen.coord(0, length - 1 if circular else length - size))
            if not circular:
                start = min(start, length - size)
            core_arc = (start, size)
            anchors = []
        else:
            first = draw(st.integers(0, len(order) - 1))
            run = draw(st.sampled_from([1, 1, 2, 3]))
            chosen = [order[(first + k) % len(order)] for k in range(run) if circular or first + k < len(order)]
            chosen = list(dict.fromkeys(chosen))
            core_arc = _hull([arcs[i] for i in chosen], length, circular)
            anchors = chosen
        typical = max(1, length // 20)
        nrange = draw(st.sampled_from([0, 1, typical // 2, typical, typical + 1, 2 * typical, 3 * typical, 5 * typical]))
        if draw(_one_in(12)):
            nrange = draw(st.sampled_from([length // 3, length]))
        if reuse and allow_ties and draw(st.booleans()):
            nrange = previous["nrange"]
        left = right = nrange
        if sideloaded:
            left = draw(st.sampled_from([0, nrange, nrange // 2]))
            right = draw(st.sampled_from([0, nrange]))
            if not circular:
                left = min(left, core_arc[0])
        loc_arc = extend_arc(core_arc[0], core_arc[1], left, right, length, circular)
        strands = [genes[i]["loc"]["strand"] for i in anchors]
        if sideloaded or not strands:
            strand = None
        elif len(set(strands)) == 1:
            strand = strands[0]
        else:
            strand = None
        core = arc_to_area(core_arc[0], core_arc[1], length, strand)
        if len(core["parts"]) > 1 and loc_arc == (0, length):
            # a core across the origin needs surroundings across the origin (Protocluster refuses otherwise)
            loc_arc = (core_arc[0], core_arc[1])
        loc = arc_to_area(loc_arc[0], loc_arc[1], length, strand if len(core["parts"]) == 1 else 1)
        product = draw(st.sampled_from(PRODUCTS + ["T2PKS"]))
        proto = {"core": core, "loc": loc, "product": product, "sideloaded": sideloaded,
                 "nrange": max(left, right) if sideloaded else nrange,
                 "_core_arc": list(core_arc), "_anchors": anchors}
        if sideloaded:
            if proto["nrange"] == 0:
                # SideloadedProtocluster derives a missing range from the coordinates (min/max of the locations)
                proto["nrange"] = 0
            proto.update({"tool": draw(st.sampled_from(["external tool", "mytool", "side-loader"])), "category": "other",
                          "cutoff": 0, "rule": "from external annotation",
                          "extra": draw(_details())})
        else:
            proto.update({"tool": "rule-based-clusters", "category": draw(st.sampled_from(CATEGORIES)),
                          "cutoff": draw(st.sampled_from([0, typical, 20000])), "rule": draw(st.sampled_from(RULES)),
                          "t2pks": None})
            if product == "T2PKS" and not draw(_one_in(4)):
                elong = not draw(_one_in(4))
                proto["t2pks"] = {"starters": ["acetyl-CoA (Score: 10.5; E-value: 1e-05)"],
                                  "elongations": ["7 (Score: 20.0; E-value: 1e-10)", "8|9 (Score: 0.0; E-value: 0.1)"] if elong else [],
                                  "classes": draw(st.sampled_from([[], ["angucycline", "tetracenomycin"]])),
                                  "weights": {"acetyl-CoA_7": 342.347, "acetyl-CoA_8|9": 400.5} if elong else {}}
        if not allow_ties and any(other["loc"]["parts"] == proto["loc"]["parts"] for other in protos):
            continue    # equal coordinates are a class of their own (allow_ties), not an accident of small records
        protos.append(proto)
    return protos


@st.composite
def _details(draw) -> dict:
    keys = draw(st.lists(st.sampled_from(DETAIL_KEYS), max_size=3, unique=True))
    return {key: draw(st.lists(st.sampled_from(["high", "0.95", "see paper", "PKS-I", "a b c"]), min_size=1, max_size=2))
            for key in keys}


@st.composite
def _subregions(draw, length: int, circular: bool, count: int, anchors: tuple, allow_ties: bool) -> list:
    subs: list = []
    for _ in range(count):
        if subs and allow_ties and draw(_one_in(3)):
            loc = dict(draw(st.sampled_from(subs))["loc"])
        else:
            size = draw(gen.coord(1, max(1, length // 2)))
            if circular and draw(_one_in(4)) and size > 1:
                start = draw(gen.coord(max(1, length - size + 1), length - 1, anchors))
            else:
                start = draw(gen.coord(0, length - size, anchors))
            loc = arc_to_area(start, size, length, None)
        sideloaded = draw(st.booleans())
        sub = {"loc": loc, "sideloaded": sideloaded,
               "label": draw(st.sampled_from(["", "g1", "Type I PKS", "Polyketide", "anchor_gene"]))}
        if sideloaded:
            sub.update({"tool": draw(st.sampled_from(["external tool", "mytool"])), "extra": draw(_details())})
            if len(loc["parts"]) == 1:
                sub["loc"] = {"parts": loc["parts"], "strand": None}
        else:
            sub.update({"tool": draw(st.sampled_from(["cassis", "clusterfinder"])), "extra": {}})
            if len(loc["parts"]) == 1:
                sub["loc"] = {"parts": loc["parts"], "strand": draw(st.sampled_from([None, 1]))}
        if not allow_ties and any(other["loc"]["parts"] == sub["loc"]["parts"] for other in subs):
            continue
        subs.append(sub)
    return subs


@st.composite
def _modules(draw, genes: list, length: int) -> list:
    modules: list = []
    with_modular = [(gi, [di for di, d in enumerate(g["domains"]) if d["kind"] == "modular"]) for gi, g in enumerate(genes)]
    with_modular = [(gi, ds) for gi, ds in with_modular if ds]
    for position, (gi, ds) in enumerate(with_modular):
        if draw(_one_in(4)):
            continue
        size = draw(st.integers(1, len(ds)))
        refs = [[gi, di] for di in ds[:size]]
        if position + 1 < len(with_modular) and draw(_one_in(3)):
            other, other_ds = with_modular[position + 1]
            if genes[other]["loc"]["strand"] == genes[gi]["loc"]["strand"]:
                refs = [[gi, di] for di in ds[-draw(st.integers(1, len(ds))):]] + [[other, other_ds[0]]]
        modules.append({"domains": refs, "type": draw(st.sampled_from(["UNKNOWN", "NRPS", "PKS", "CAL"])),
                        "complete": draw(st.booleans()), "starter": draw(_one_in(4)),
                        "final": draw(_one_in(4)), "iterative": draw(_one_in(6)),
                        "monomers": draw(st.sampled_from([[], [], [["mal", "ccmal"]], [["ser", "D-ser"], ["thr", "D-thr"]]]))})
        if len(ds) > size and draw(st.booleans()):
            modules.append({"domains": [[gi, di] for di in ds[size:]], "type": "UNKNOWN", "complete": False,
                            "starter": False, "final": False, "iterative": False, "monomers": []})
    return modules


@st.composite
def _isoforms_and_origin_pairs(draw, genes: list, length: int, circular: bool) -> list:
    """ genes that share their first and last coordinate with another gene of the same strand but differ in their
        exons (1-2 isoforms of one gene), and on circular records a pair of origin-crossing genes whose pre-origin
        part starts at the same coordinate.  Their summed lengths differ, so the record's ordering (start, then
        summed length) still tells them apart: these are NOT equal-coordinate ties. """
    extra: list = []
    taken = {(repr(sorted(g["loc"]["parts"])), g["loc"]["strand"]) for g in genes}
    lengths = {(min(p[0] for p in g["loc"]["parts"]), loc_len(g["loc"])) for g in genes}

    def add(parts: list, strand: int, kind: str) -> None:
        key = (repr(sorted(parts)), strand)
        size = sum(e - s for s, e in parts)
        start_key = parts[0][0] if kind == "span" else min(p[0] for p in parts)
        if key in taken or (start_key, size) in lengths:
            return
        taken.add(key)
        lengths.add((start_key, size))
        ordered = list(reversed(parts)) if strand == -1 else parts
        extra.append({"loc": {"parts": ordered, "strand": strand, "kind": kind}})

    candidates = [g for g in genes if not gen.is_span(g["loc"])
                  and max(p[1] for p in g["loc"]["parts"]) - min(p[0] for p in g["loc"]["parts"]) >= 15]
    if candidates and draw(_one_in(4)):
        base = draw(st.sampled_from(candidates))
        start = min(p[0] for p in base["loc"]["parts"])
        end = max(p[1] for p in base["loc"]["parts"])
        for _ in range(draw(st.sampled_from([1, 1, 2]))):
            cut1 = draw(st.integers(start + 3, end - 7))
            cut2 = draw(st.integers(cut1 + 1, end - 3))
            add([[start, cut1], [cut2, end]], base["loc"]["strand"], "multi")
    if circular and length >= 60 and draw(_one_in(4)):
        pre = draw(st.integers(3, max(3, min(length // 4, 60))))
        strand = draw(st.sampled_from([1, -1]))
        posts = draw(st.lists(st.integers(3, max(3, min(length // 4, 60))), min_size=2, max_size=3, unique=True))
        for post in posts:
            add([[length - pre, length], [0, post]], strand, "span")
    return extra


@st.composite
def _many_areas(draw, length: int, circular: bool) -> tuple:
    """ the "two digit" family: 10-14 small genes in a row, a protocluster on each (some genes carry a second one
        of another product: chemical hybrids), neighbourhoods that reach the neighbour for a drawn share of the
        adjacent pairs (neighbouring candidates over consecutive numbers, e.g. 9|10), optionally 10+ subregions.
        Every number qualifier (protocluster, candidate, subregion, region numbers and the lists of them) then crosses
        the boundary between one and two digits.  Returns (genes, protoclusters with _anchors/_core_arc, subregions). """
    count = draw(st.integers(10, 14))
    slot = length // count
    first = draw(st.integers(0, max(0, slot // 4)))
    genes = []
    for index in range(count):
        size = draw(st.integers(9, max(9, slot // 3)))
        start = first + index * slot + draw(st.integers(0, max(0, slot // 6)))
        end = min(length, start + size)
        strand = draw(st.sampled_from([1, -1]))
        genes.append({"name": f"g{index}", "loc": {"parts": [[start, end]], "strand": strand, "kind": "simple"}})
    joined = draw(st.sampled_from([0, 1, 2, 2, 3]))     # how many of four adjacent pairs share their neighbourhoods
    protos = []
    used = set()
    for index, gene in enumerate(genes):
        start, end = gene["loc"]["parts"][0]
        reach = draw(st.integers(0, 3)) < joined
        products = [draw(st.sampled_from(PRODUCTS))]
        if draw(_one_in(5)):
            products.append(draw(st.sampled_from([p for p in PRODUCTS if p != products[0]])))
        for extra, product in enumerate(products):
            nrange = (slot // 2 + slot // 8 if reach else slot // 10) + extra + draw(st.integers(0, 2))
            arc = extend_arc(start, end - start, nrange, nrange, length, circular)
            while arc in used:      # equal coordinates are a class of their own, not wanted here
                nrange += 1
                arc = extend_arc(start, end - start, nrange, nrange, length, circular)
            used.add(arc)
            strand = gene["loc"]["strand"]
            loc = arc_to_area(arc[0], arc[1], length, strand)
            protos.append({"core": {"parts": [[start, end]], "strand": strand}, "loc": loc, "product": product,
                           "sideloaded": False, "nrange": nrange, "tool": "rule-based-clusters",
                           "category": draw(st.sampled_from(CATEGORIES)), "cutoff": draw(st.sampled_from([0, slot // 10, 20000])),
                           "rule": draw(st.sampled_from(RULES)), "t2pks": None,
                           "_core_arc": [start, end - start], "_anchors": [index]})
    subs = []
    if draw(st.booleans()):
        taken = set()
        for index in range(draw(st.integers(10, 13))):
            gene = genes[index % count]
            start, end = gene["loc"]["parts"][0]
            low = max(0, start - draw(st.integers(0, slot // 8 + 1)) - index // count)
            high = min(length, end + draw(st.integers(0, slot // 8 + 1)))
            while (low, high) in taken:
                high = min(length, high + 1)
                low = max(0, low - 1)
            taken.add((low, high))
            sideloaded = draw(_one_in(4))
            subs.append({"loc": {"parts": [[low, high]], "strand": None}, "sideloaded": sideloaded,
                         "label": draw(st.sampled_from(["", f"g{index % count}", "Type I PKS"])),
                         "tool": "external tool" if sideloaded else "cassis", "extra": draw(_details()) if sideloaded else {}})
    return genes, protos, subs


@st.composite
def _many_areas_spec(draw, circular: bool, always_regions: bool) -> dict:
    length = draw(st.integers(2400, 6000))
    genes, protos, subs = draw(_many_areas(length, circular))
    modular_bias = draw(_one_in(3))
    seen = {repr(gene["loc"]["parts"]) + str(gene["loc"]["strand"]) for gene in genes}
    for gindex, gene in enumerate(genes):
        seen.discard(repr(gene["loc"]["parts"]) + str(gene["loc"]["strand"]))
        draw(_gene_details(gene, gindex, circular, modular_bias, 0, seen))
    _finish_protoclusters(draw, protos, genes)
    return {"L": length, "circular": circular, "taxon": "bacteria", "seed": draw(st.integers(0, 999)),
            "header": draw(_header()), "source": True, "genes": genes, "misc": [], "modules": draw(_modules(genes, length)),
            "protoclusters": protos, "subregions": subs, "candidates": True,
            "regions": always_regions or not draw(_one_in(10)),
            "candidate_extras": draw(st.sampled_from([[], [], [["CC(=O)O", None]]])), "family": "many_areas"}


@st.composite
def record_specs(draw, *, max_len: int = 5000, max_genes: int = 8, max_protoclusters: int = 5,
                 max_subregions: int = 3, min_areas: int = 0, force_circular: Optional[bool] = None,
                 always_regions: bool = False, many_areas: Optional[bool] = None) -> dict:
    """ Options: max_len / max_genes / max_protoclusters / max_subregions bound the sizes; min_areas forces at
        least that many protoclusters+subregions; force_circular fixes the topology; always_regions makes
        candidate and region creation unconditional (C12 wants regions); many_areas forces (True) or forbids
        (False) the family with 10-14 genes/protoclusters (default: one record in five). """
    circular = draw(st.booleans()) if force_circular is None else force_circular
    if many_areas is None:
        many_areas = draw(_one_in(5))
    if many_areas:
        return draw(_many_areas_spec(circular, always_regions))
    length = draw(st.one_of(st.integers(300, 900), st.integers(300, max_len)))
    taxon = "bacteria" if circular else draw(st.sampled_from(["bacteria", "bacteria", "fungi"]))
    size_hint = draw(st.sampled_from([30, 60, 120, max(30, length // 8)]))
    genes = draw(gen.gene_layout(length, circular, max_genes=max_genes, size_hint=size_hint,
                                 gap_choices=(0, 10, length // 10)))
    if not draw(_one_in(8)):
        # genes with equal (start, length) - gene_layout's antisense twins and same-start accidents - always trip the
        # open finding C10-equal-coordinates-renumbered; they are kept as a class of their own (1 record in 8)
        kept, keys = [], set()
        for gene in genes:
            key = (min(p[0] for p in gene["loc"]["parts"]), loc_len(gene["loc"]))
            if key in keys and not gen.is_span(gene["loc"]):
                continue
            keys.add(key)
            kept.append(gene)
        genes = kept
    genes.extend(draw(_isoforms_and_origin_pairs(genes, length, circular)))
    long_names = draw(_one_in(5))
    for index, gene in enumerate(genes):
        gene["name"] = f"g{index}"
        if long_names and not draw(_one_in(3)):
            # locus tags longer than one GenBank qualifier line (46 characters and up get wrapped)
            gene["name"] = (f"g{index}_" + "LongLocusTagOfAnAssemblyPipeline_contig000123_" * 2)[:draw(st.integers(47, 70))]
    modular_bias = draw(st.booleans())
    notes_bias = draw(st.sampled_from([0, 1, 1]))
    seen = {repr(gene["loc"]["parts"]) + str(gene["loc"]["strand"]) for gene in genes}
    for gindex, gene in enumerate(genes):
        seen.discard(repr(gene["loc"]["parts"]) + str(gene["loc"]["strand"]))
        draw(_gene_details(gene, gindex, circular, modular_bias, notes_bias, seen))
    anchors = tuple(x for g in genes for p in g["loc"]["parts"] for x in p)
    misc = []
    for _ in range(draw(st.sampled_from([0, 1, 1, 2]))):
        loc = draw(gen.any_location(length, allow_span=circular))
        quals = {"note": [draw(_text(4))]} if draw(st.booleans()) else {}
        if draw(_one_in(4)):
            quals["db_xref"] = ["CDD:123456"]
        misc_loc = {"parts": loc["parts"], "strand": loc["strand"]}
        if len(loc["parts"]) > 1 and draw(_one_in(2)):
            misc_loc["operator"] = "order"
        misc.append({"type": draw(st.sampled_from(MISC_TYPES)), "loc": misc_loc, "quals": quals})
    n_protos = draw(st.integers(0, max_protoclusters))
    n_subs = draw(st.sampled_from([0, 0, 1, 2, 3][:max_subregions + 2]))
    if n_protos + n_subs < min_areas:
        n_protos = min_areas - n_subs
    allow_ties = draw(_one_in(16))
    protos = draw(_protoclusters(genes, length, circular, n_protos, allow_ties))
    _finish_protoclusters(draw, protos, genes)
    subs = draw(_subregions(length, circular, n_subs, anchors, allow_ties))
    modules = draw(_modules(genes, length))
    make = True if always_regions else not draw(_one_in(10))
    spec = {"L": length, "circular": circular, "taxon": taxon, "seed": draw(st.integers(0, 999)),
            "header": draw(_header()), "source": not draw(_one_in(6)), "genes": genes, "misc": misc,
            "modules": modules, "protoclusters": protos, "subregions": subs,
            "candidates": make, "regions": make and (always_regions or not draw(_one_in(10))),
            "candidate_extras": draw(st.sampled_from([[]] * 7 + [[["CC(=O)O", None]]] * 2 + [ [[None, "(mal) + (ser - D-ser)"], ["C1CC1", "(x)"]],
                                                      [["NC(C(C)C)C(=O)NC(CC(C)C)C(=O)NC(CO)C(=O)NC(Cc1ccccc1)C(=O)NC(C)C(=O)O", "(val) + (leu) + (ser)"]]] + [[["CC(=O)O", None]]]))}
    return spec
