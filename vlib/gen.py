""" Hypothesis strategies shared by the checks (construction, not rejection). """

from __future__ import annotations

from typing import Optional

from hypothesis import strategies as st


def lengths(min_len: int = 1, max_len: int = 3000) -> st.SearchStrategy:
    """ record lengths: tiny, odd/even, medium """
    return st.one_of(
        st.integers(min_len, min(max_len, max(min_len, 12))),
        st.integers(min_len, min(max_len, max(min_len, 120))),
        st.integers(min_len, max_len),
    )


@st.composite
def coord(draw, low: int, high: int, anchors: tuple = ()) -> int:
    """ a coordinate in [low, high], biased to the ends, the middle and to anchors +-1 """
    assert low <= high
    interesting = {low, high, low + 1, high - 1, (low + high) // 2, (low + high) // 2 + 1,
                   (low + high) // 2 - 1}
    for anchor in anchors:
        interesting.update((anchor - 1, anchor, anchor + 1))
    interesting = sorted(x for x in interesting if low <= x <= high)
    if draw(st.integers(0, 9)) < 4:
        return draw(st.sampled_from(interesting))
    return draw(st.integers(low, high))


def _order_parts(parts: list, strand: Optional[int]) -> list:
    """ parts given in transcript-forward order along the arc -> Biopython order """
    if strand == -1:
        return list(reversed(parts))
    return list(parts)


@st.composite
def arc(draw, length: int, *, allow_span: bool = True, strands=(1, -1), min_len: int = 1,
        max_len: Optional[int] = None, anchors: tuple = ()) -> dict:
    """ a contiguous location: simple, or two parts meeting at the origin """
    max_len = min(length, max_len or length)
    min_len = min(min_len, max_len)
    size = draw(coord(min_len, max_len))
    strand = draw(st.sampled_from(list(strands)))
    if allow_span and size > 0 and draw(st.integers(0, 3)) == 0 and length > 1:
        # spanning: start in (length - size, length) so that it crosses or reaches past the origin
        low = max(1, length - size + 1)
        if low <= length - 1:
            start = draw(coord(low, length - 1, anchors))
            parts = [[start, length], [0, start + size - length]]
            return {"parts": _order_parts(parts, strand), "strand": strand, "kind": "span"}
    start = draw(coord(0, length - size, anchors))
    return {"parts": [[start, start + size]], "strand": strand, "kind": "simple"}


@st.composite
def exon_location(draw, length: int, *, allow_span: bool = True, strands=(1, -1),
                  max_parts: int = 4, max_total: Optional[int] = None) -> dict:
    """ a multi-exon location (1..max_parts exons separated by introns >= 1),
        optionally rotated so it spans the origin (wrap inside an exon or an intron) """
    strand = draw(st.sampled_from(list(strands)))
    nparts = draw(st.integers(1, max_parts))
    budget = min(length, max_total or length)
    # exon and intron sizes by construction: 2n-1 positive sizes with a total <= budget
    nparts = max(1, min(nparts, (budget + 1) // 2))
    count = 2 * nparts - 1
    spare = budget - count
    big = max(1, budget // count)
    sizes = []
    for _ in range(count):
        extra = draw(st.integers(0, min(spare, big))) if spare > 0 else 0
        spare -= extra
        sizes.append(1 + extra)
    total = sum(sizes)
    assert total <= length
    span = allow_span and length > 1 and draw(st.integers(0, 3)) == 0
    if span:
        # choose start so that the location crosses the origin: start + total > length
        low = max(1, length - total + 1)
        if low > length - 1:
            span = False
    if span:
        start = draw(coord(low, length - 1))
    else:
        start = draw(coord(0, length - total))
    parts = []
    pos = start
    for index, size in enumerate(sizes):
        if index % 2 == 0:
            first, last = pos, pos + size
            if first >= length:
                parts.append([first - length, last - length])
            elif last > length:
                parts.append([first, length])
                parts.append([0, last - length])
            else:
                parts.append([first, last])
        pos += size
    is_span = any(parts[i][0] > parts[i + 1][0] for i in range(len(parts) - 1))
    kind = "simple" if len(parts) == 1 else ("span" if is_span else "multi")
    return {"parts": _order_parts(parts, strand), "strand": strand, "kind": kind}


def any_location(length: int, *, allow_span: bool = True, strands=(1, -1)) -> st.SearchStrategy:
    return st.one_of(arc(length, allow_span=allow_span, strands=strands),
                     exon_location(length, allow_span=allow_span, strands=strands))


def is_span(loc: dict) -> bool:
    parts = loc["parts"]
    if len(parts) < 2:
        return False
    starts = [p[0] for p in parts]
    if loc.get("strand") == -1:
        return starts != sorted(starts, reverse=True)
    return starts != sorted(starts)


# --------------------------------------------------------------------------- gene layouts

@st.composite
def gene_layout(draw, length: int, circular: bool, *, max_genes: int = 10, min_genes: int = 1,
                multi_exon: bool = True, allow_span: bool = True, size_hint: int = 0,
                gap_choices: tuple = ()) -> list:
    """ genes built by construction: walking along the record with gaps drawn from a mixture of
        touching / overlapping / nested / same-start / same-end / far, both strands, optionally
        multi-exon, optionally one or two genes spanning the origin of a circular record.
        Returns a list of {"name", "loc"} with pairwise distinct locations (the record requires it).
    """
    count = draw(st.integers(min_genes, max_genes))
    typical = size_hint or max(1, length // max(4, 2 * count))
    genes: list = []
    seen: set = set()
    pos = draw(st.integers(0, max(0, min(length - 1, typical))))
    prev = None
    for _ in range(count):
        strand = draw(st.sampled_from([1, -1]))
        size = draw(st.one_of(st.integers(3, max(3, typical)), st.integers(3, max(3, min(length, 3 * typical))),
                              st.sampled_from([3, 4, 6])))
        mode = draw(st.sampled_from(["gap", "gap", "gap", "touch", "overlap", "nested", "same_start", "same_end",
                                     "antisense"]))
        if prev is None:
            mode = "gap"
        if mode == "antisense":
            # the previous gene again on the other strand: equal coordinates, which no sort by position can order
            twin = genes[-1]["loc"] if genes else None
            if twin is None or twin.get("kind") == "span":
                mode = "gap"
            else:
                parts = sorted(list(part) for part in twin["parts"])
                strand = -twin["strand"]
                key = (tuple(map(tuple, parts)), strand)
                if key not in seen:
                    seen.add(key)
                    genes.append({"loc": {"parts": _order_parts(parts, strand), "strand": strand, "kind": twin["kind"]}})
                continue
        if mode == "gap":
            choices = [st.integers(0, max(1, typical)), st.integers(0, max(1, 3 * typical)), st.sampled_from([0, 1, 2])]
            if gap_choices:
                choices.append(st.sampled_from(list(gap_choices)))
                choices.append(st.sampled_from(list(gap_choices)))
            start = (prev[1] if prev else pos) + draw(st.one_of(*choices))
        elif mode == "touch":
            start = prev[1]
        elif mode == "overlap":
            start = max(prev[0], prev[1] - draw(st.integers(1, max(1, prev[1] - prev[0]))))
        elif mode == "nested":
            start = draw(st.integers(prev[0], max(prev[0], prev[1] - 1)))
            size = draw(st.integers(min(3, prev[1] - start), max(1, prev[1] - start)))
        elif mode == "same_start":
            start = prev[0]
        else:  # same_end
            size = min(size, prev[1])
            start = prev[1] - size
        start = max(0, start)
        if start >= length:
            break
        end = min(length, start + size)
        if end - start < 3:
            continue
        parts = [[start, end]]
        if multi_exon and end - start >= 7 and draw(st.integers(0, 5)) == 0:
            cut1 = draw(st.integers(start + 3, end - 4))
            cut2 = draw(st.integers(cut1 + 1, end - 3))
            parts = [[start, cut1], [cut2, end]]
        key = (tuple(map(tuple, parts)), strand)
        if key in seen:
            continue
        seen.add(key)
        genes.append({"loc": {"parts": _order_parts(parts, strand), "strand": strand,
                              "kind": "simple" if len(parts) == 1 else "multi"}})
        if mode in ("gap", "touch", "overlap") or prev is None or end > prev[1]:
            prev = (start, end)
    if circular and allow_span and length >= 4 and draw(st.integers(0, 2)) == 0:
        for _ in range(draw(st.integers(1, 2))):
            strand = draw(st.sampled_from([1, -1]))
            pre = draw(st.integers(1, max(1, min(length // 2 - 1, typical))))
            post = draw(st.integers(1, max(1, min(length // 2 - 1, typical))))
            if pre + post < 3:
                post = 3 - pre
            parts = [[length - pre, length], [0, post]]
            key = (tuple(map(tuple, parts)), strand)
            if key in seen:
                continue
            seen.add(key)
            genes.append({"loc": {"parts": _order_parts(parts, strand), "strand": strand, "kind": "span"}})
    if not genes:
        assert length >= 3
        genes.append({"loc": {"parts": [[0, 3]], "strand": 1, "kind": "simple"}})
    for index, gene in enumerate(genes):
        gene["name"] = f"g{index}"
    return genes
