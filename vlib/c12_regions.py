""" C12 helpers: records with areas/regions from plain-JSON specs, and the coordinate model of a
    region extract.  Small and focused on regions (vlib/c10_records.py is the general
    annotated-record generator, written concurrently; nothing here depends on it).

    Spec of a record:
        {"L": int, "circular": bool, "seed": int,
         "genes":  [{"name": str, "loc": LOC}],
         "protos": [{"loc": LOC, "core": LOC, "product": str, "side": bool}],
         "subs":   [{"loc": LOC, "label": str, "side": bool}],
         "annos":  [{"kind": "pfam"|"asdomain"|"motif"|"prepeptide", "gene": int, "a": int, "b": int, ...}],
         "misc":   [{"loc": LOC}]}           (genes may carry "core_for": [products], "gene_feature": bool)
    LOC = {"parts": [[s, e], ...], "strand": 1|-1} in Biopython part order.
"""

from __future__ import annotations

import re
from typing import Any, Optional

from vlib.build import dna, make_cds, to_loc


# --------------------------------------------------------------------------- pure model

def transcript_order(parts: list, strand: Optional[int]) -> list:
    """ the bases in the order Biopython's extract() visits them """
    out: list = []
    for start, end in parts:
        chunk = list(range(start, end))
        if strand == -1:
            chunk.reverse()
        out.extend(chunk)
    return out


def runs_to_parts(ordered: list, strand: int) -> list:
    """ ordered: bases in transcript order -> parts in Biopython order (maximal contiguous runs) """
    parts: list = []
    step = -1 if strand == -1 else 1
    run_start = prev = ordered[0]
    for base in ordered[1:]:
        if base == prev + step:
            prev = base
            continue
        parts.append([min(run_start, prev), max(run_start, prev) + 1])
        run_start = prev = base
    parts.append([min(run_start, prev), max(run_start, prev) + 1])
    return parts


def sub_location(gene_loc: dict, aa_start: int, aa_end: int) -> dict:
    """ the DNA location of protein residues [aa_start, aa_end) of a gene, from first principles """
    ordered = transcript_order(gene_loc["parts"], gene_loc["strand"])[3 * aa_start:3 * aa_end]
    assert ordered
    return {"parts": runs_to_parts(ordered, gene_loc["strand"]), "strand": gene_loc["strand"]}


_PART = re.compile(r"\[<?(-?\d+):>?(-?\d+)\]\(([+-])\)")


def parse_location_text(text: str) -> dict:
    """ '[3:9](+)' / 'join{[90:100](+), [0:5](+)}' -> LOC; independent of antiSMASH's parser """
    found = _PART.findall(text)
    if not found:
        raise ValueError(f"unparsable location text: {text!r}")
    stripped = _PART.sub("", text).replace("join", "").replace("order", "")
    if stripped.strip("{}, ") != "":
        raise ValueError(f"unparsable location text: {text!r}")
    strands = {1 if sign == "+" else -1 for _, _, sign in found}
    if len(strands) != 1:
        raise ValueError(f"mixed strands in location text: {text!r}")
    return {"parts": [[int(s), int(e)] for s, e, _ in found], "strand": strands.pop()}


class RegionMap:
    """ parent coordinates <-> coordinates of the region's own (linear) record """
    def __init__(self, start: int, end: int, length: int) -> None:
        self.start = start
        self.end = end
        self.length = length
        self.crosses = start > end
        self.size = (length - start + end) if self.crosses else (end - start)

    def sequence(self, parent_seq: str) -> str:
        if self.crosses:
            return parent_seq[self.start:] + parent_seq[:self.end]
        return parent_seq[self.start:self.end]

    def inside(self, parts: list) -> bool:
        """ every part lies wholly inside the region """
        for s, e in parts:
            if self.crosses:
                if not ((s >= self.start and e <= self.length) or (s >= 0 and e <= self.end)):
                    return False
            elif not (s >= self.start and e <= self.end):
                return False
        return True

    def to_region(self, pos: int) -> int:
        if self.crosses:
            return (pos - self.start) % self.length
        return pos - self.start

    def ordered_in_region(self, loc: dict) -> tuple:
        """ the transcript-ordered bases of a parent location, in region coordinates """
        return tuple(self.to_region(b) for b in transcript_order(loc["parts"], loc["strand"]))


def ordered_bases(loc: dict) -> tuple:
    return tuple(transcript_order(loc["parts"], loc["strand"]))


def bio_to_loc(location: Any) -> dict:
    return {"parts": [[int(p.start), int(p.end)] for p in location.parts], "strand": location.strand}


# --------------------------------------------------------------------------- builders

HEADER = {
    "molecule_type": "DNA", "data_file_division": "BCT", "date": "01-JAN-2000", "accessions": ["REC1"],
    "sequence_version": 1, "keywords": [""], "source": "verif", "organism": "verif organism",
    "taxonomy": ["Bacteria"],
}


def build_record(spec: dict) -> Any:
    """ the record with genes, annotations, protoclusters and subregions; no candidates/regions yet """
    from antismash.common.secmet.features import (
        AntismashDomain, CDSMotif, Feature, Gene, PFAMDomain, Prepeptide, Protocluster, SubRegion)
    from antismash.common.secmet.features.protocluster import SideloadedProtocluster
    from antismash.common.secmet.features.subregion import SideloadedSubRegion
    from antismash.common.secmet.locations import FeatureLocation
    from antismash.common.secmet.qualifiers.gene_functions import GeneFunction
    from antismash.common.secmet.record import Record

    length = spec["L"]
    record = Record(dna(length, spec.get("seed", 0)), transl_table=11)
    record.id = "REC1"
    record.name = "REC1"
    record.description = "verif record"
    for key, value in HEADER.items():
        record.annotations[key] = value
    record.add_annotation("topology", "circular" if spec["circular"] else "linear")

    for gene in spec["genes"]:
        cds = make_cds(gene["loc"], gene["name"])
        for product in gene.get("core_for", []):
            cds.gene_functions.add(GeneFunction.CORE, "verif", "core gene", product)
        record.add_cds_feature(cds)
        if gene.get("gene_feature"):
            record.add_gene(Gene(to_loc(gene["loc"]), locus_tag=gene["name"]))
    for index, misc in enumerate(spec.get("misc", [])):
        feature = Feature(to_loc(misc["loc"]), feature_type="misc_feature")
        feature.notes.append(f"misc {index}")
        record.add_feature(feature)

    for index, anno in enumerate(spec.get("annos", [])):
        gene = spec["genes"][anno["gene"]]
        location = to_loc(sub_location(gene["loc"], anno["a"], anno["b"]))
        protein = FeatureLocation(anno["a"], anno["b"])
        kind = anno["kind"]
        if kind == "pfam":
            feature = PFAMDomain(location, f"pfam desc {index}", protein, identifier=f"PF{index:05d}", tool="verif",
                                 locus_tag=gene["name"])
            feature.domain_id = f"pf_{index}"
            feature.database = "31.0"
            record.add_pfam_domain(feature)
        elif kind == "asdomain":
            feature = AntismashDomain(location, tool="verif", protein_location=protein, locus_tag=gene["name"])
            feature.domain_id = f"asd_{index}"
            feature.domain = "PKS_KS"
            record.add_antismash_domain(feature)
        elif kind == "motif":
            feature = CDSMotif(location, gene["name"], protein, tool="verif")
            feature.domain_id = f"mot_{index}"
            record.add_cds_motif(feature)
        else:
            assert kind == "prepeptide", kind
            # like the RiPP modules: the prepeptide takes the location of its gene
            total = len(location) // 3
            leader = "L" * anno.get("leader", 0)
            tail = "T" * anno.get("tail", 0)
            core = "C" * (total - len(leader) - len(tail))
            feature = Prepeptide(location, "lanthipeptide", core, f"{gene['name']}_pre{index}", "verif",
                                 "Class I", 1.5, 100.0, 200.0, [300.0], leader, tail)
            record.add_cds_motif(feature)

    for proto in spec["protos"]:
        core = to_loc(proto["core"])
        surrounds = to_loc(proto["loc"])
        if proto.get("side"):
            area = SideloadedProtocluster(core, surrounds, "ext", proto["product"])
        else:
            area = Protocluster(core, surrounds, "verif", proto["product"], 20, 10, f"rule {proto['product']}",
                                product_category="catA")
        record.add_protocluster(area)
    for sub in spec["subs"]:
        if sub.get("side"):
            record.add_subregion(SideloadedSubRegion(to_loc(sub["loc"]), "ext", label=sub["label"]))
        else:
            record.add_subregion(SubRegion(to_loc(sub["loc"]), tool="verif", label=sub["label"]))
    return record


def genbank_text(bio_record: Any) -> str:
    from io import StringIO
    from Bio import SeqIO
    handle = StringIO()
    SeqIO.write([bio_record], handle, "genbank")
    return handle.getvalue()
