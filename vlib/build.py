""" Builds real antiSMASH objects from plain-JSON specs.

    Imports antismash lazily so that the runner controls sys.path first.
"""

from __future__ import annotations

import random
from typing import Any, Optional


def to_loc(spec: dict) -> Any:
    """ spec {"parts": [[s, e], ...], "strand": x} -> FeatureLocation / CompoundLocation """
    from antismash.common.secmet.locations import CompoundLocation, FeatureLocation
    strand = spec.get("strand", 1)
    parts = [FeatureLocation(s, e, strand) for s, e in spec["parts"]]
    if len(parts) == 1:
        return parts[0]
    return CompoundLocation(parts, operator=spec.get("operator", "join"))


def dna(length: int, seed: int = 0) -> str:
    rng = random.Random(seed)
    return "".join(rng.choice("ACGT") for _ in range(length))


def make_record(length: int, circular: bool, seq: Optional[str] = None, record_id: str = "rec1") -> Any:
    from antismash.common.secmet.record import Record
    if seq is None:
        # cheap but real sequence of the right length
        unit = "ACGTTGCAAGCTTCGA"
        seq = (unit * (length // len(unit) + 1))[:length]
    assert len(seq) == length
    record = Record(seq, transl_table=11)
    record.id = record_id
    record.name = record_id
    record.add_annotation("topology", "circular" if circular else "linear")
    record.add_annotation("molecule_type", "DNA")
    return record


def make_cds(loc_spec: dict, name: str, translation: Optional[str] = None) -> Any:
    from antismash.common.secmet.features import CDSFeature
    location = to_loc(loc_spec)
    if translation is None:
        translation = "M" + "A" * max(0, len(location) // 3 - 1)
    return CDSFeature(location, translation=translation, locus_tag=name)


def make_protocluster(core: dict, surrounds: dict, product: str = "prodA", cutoff: int = 10,
                      neighbourhood: int = 10, tool: str = "verif", category: str = "catA") -> Any:
    from antismash.common.secmet.features import Protocluster
    return Protocluster(to_loc(core), to_loc(surrounds), tool, product, cutoff, neighbourhood,
                        "rule text", product_category=category)


def make_subregion(loc_spec: dict, tool: str = "verif", label: str = "") -> Any:
    from antismash.common.secmet.features import SubRegion
    return SubRegion(to_loc(loc_spec), tool=tool, label=label)
