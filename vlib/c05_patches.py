""" C05 helper: the proposed repairs of formation.py as in-process replacements.

    They are NOT part of the oracle.  check_form uses them only to classify a disagreement that the
    reference model already reported: a case is attributed to a set of known root causes when running
    the unchanged code with exactly those repairs switched on makes the disagreement go away.  The
    functions are copies of the repository's, changed in the marked places only, so that what is being
    tested is the proposed patch (notes/C05.md) and nothing else.
"""

from __future__ import annotations

import contextlib

FIX_MERGE = "merge_single_pass"          # _merge_sets leaves groups that share a member
FIX_ATTACHED = "attached_single"         # _find_neighbouring: single attached to a candidate never meets other singles
FIX_SCAN = "candidate_scan_start"        # bisect start index skips earlier candidates that still overlap
FIX_CROSS = "cross_origin_partial_group"  # _find_cross_origin_interleaved emits part of a candidate as a group
ALL_FIXES = (FIX_MERGE, FIX_ATTACHED, FIX_SCAN, FIX_CROSS)


def _merge_sets_fixed(groups):
    groups = [set(group) for group in groups]
    ordered = sorted(groups, key=lambda group: min(cluster.location.start for cluster in group))
    for i, first in enumerate(ordered[:-1]):
        if not first:
            continue
        changed = True
        while changed:            # CHANGED: repeat until nothing later touches the grown group
            changed = False
            for second in ordered[i+1:]:
                if not second or first.isdisjoint(second):
                    continue
                first.update(second)
                second.clear()
                changed = True
    return [sorted(group) for group in ordered if group]


def _make_find_cross_origin_interleaved(formation):
    connect_locations = formation.connect_locations
    locations_overlap = formation.locations_overlap

    def _find_cross_origin_interleaved(candidates, unassigned, existing_groups, wrap_point):
        found = set()
        if not (unassigned and candidates):
            return found
        if not any(candidate.core_crosses_origin() for candidate in candidates):
            return found
        core = connect_locations([c.core_location for c in candidates if c.core_crosses_origin()], wrap_point)
        core_group = set()
        for candidate in candidates:
            if candidate.core_crosses_origin():
                core_group.update([proto for proto in candidate.protoclusters if proto.core_location.crosses_origin()])
        assert core_group
        for direction in [-1, 1]:
            index = 0 if direction == 1 else -1
            while (abs(index) < len(unassigned) and len(found) < len(unassigned)):
                cluster = unassigned[index]
                if not locations_overlap(cluster.core_location, core):
                    break
                core_group.add(cluster)
                found.add(cluster)
                index += direction
        if any(core_group == set(candidate.protoclusters) for candidate in candidates):
            return set()
        if found and len(core_group) > 1:            # CHANGED: only when something actually joined
            existing_groups.append(core_group)
        return found
    return _find_cross_origin_interleaved


def _make_find_interleaved(formation):
    locations_overlap = formation.locations_overlap

    def _find_interleaved(clusters, candidates, wrap_point):
        found = set()
        groups = formation._find_interleaved_candidates(candidates)
        unassigned_by_core = sorted(clusters, key=lambda x: x.core_location.start)
        for i, cluster in enumerate(unassigned_by_core):
            for other_cluster in unassigned_by_core[i + 1:]:
                if cluster.core_location.end <= other_cluster.core_location.start:
                    break
                if locations_overlap(cluster.core_location, other_cluster.core_location):
                    groups.append({cluster, other_cluster})
                    found.add(cluster)
                    found.add(other_cluster)
        for cluster in unassigned_by_core:
            for candidate in candidates:          # CHANGED: every candidate, no bisect start, no early break
                if locations_overlap(candidate.core_location, cluster.core_location):
                    groups.append(set(candidate.protoclusters + (cluster,)))
                    found.add(cluster)
        found.update(formation._find_cross_origin_interleaved(candidates, unassigned_by_core, groups,
                                                              wrap_point=wrap_point))
        return formation._merge_sets(groups), sorted(set(clusters).difference(found))
    return _find_interleaved


def _make_find_neighbouring(formation, fix_attached: bool, fix_scan: bool):
    import bisect
    locations_overlap = formation.locations_overlap

    def _find_neighbouring(singles, candidates):
        groups = formation._find_neighbouring_candidates(candidates)
        unassigned = set(singles)
        for single in singles:
            if fix_scan:
                scanned = candidates               # CHANGED: every candidate
            else:
                index = max(0, bisect.bisect_left(candidates, single) - 1)
                scanned = candidates[index:] + candidates[:1]
            for candidate in scanned:
                if not fix_scan and candidate.location.start > single.location.end:
                    break
                if single.overlaps_with(candidate):
                    groups.append(set(candidate.protoclusters).union({single}))
                    unassigned.discard(single)
        edges = []
        if unassigned and candidates:
            if candidates[0].crosses_origin():
                edges.append(candidates[0])
            if len(candidates) > 1 and candidates[-1].crosses_origin():
                edges.append(candidates[-1])
            for candidate in edges:
                for single in unassigned:
                    if locations_overlap(single.location, candidate.location):
                        groups.append(set(candidate.protoclusters + (single,)))
                        break
        # CHANGED (fix_attached): pairs among all singles, not only those left unattached
        groups.extend(formation._find_neighbouring_protoclusters(sorted(singles if fix_attached else unassigned)))
        return formation._merge_sets(groups)
    return _find_neighbouring


@contextlib.contextmanager
def repaired(fixes):
    """ runs the body with the chosen repairs patched into the formation module """
    from antismash.common.secmet.features.candidate_cluster import formation
    saved = {name: getattr(formation, name) for name in
             ("_merge_sets", "_find_cross_origin_interleaved", "_find_interleaved", "_find_neighbouring")}
    try:
        if FIX_MERGE in fixes:
            formation._merge_sets = _merge_sets_fixed
        if FIX_CROSS in fixes:
            formation._find_cross_origin_interleaved = _make_find_cross_origin_interleaved(formation)
        if FIX_SCAN in fixes:
            formation._find_interleaved = _make_find_interleaved(formation)
        if FIX_SCAN in fixes or FIX_ATTACHED in fixes:
            formation._find_neighbouring = _make_find_neighbouring(formation, FIX_ATTACHED in fixes, FIX_SCAN in fixes)
        yield
    finally:
        for name, value in saved.items():
            setattr(formation, name, value)
