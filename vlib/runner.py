""" Shared runner for all property checks.

    A check module (checks/cNN_*.py) defines

        PROPERTY_ID, LEVEL, RULE, ASSUMPTIONS   plain constants
        SUBCHECKS   : dict name -> callable(spec) raising Violation  (the property bodies;
                      also used for replay, so they never touch hypothesis)
        SIGNATURES  : dict name -> callable(sub, spec, clause, detail) -> bool
                      (narrow predicates describing known findings)
        run(ctx)    : drives generators / enumerations through ctx.hyp / ctx.enum

    Exit codes: 0 held (KNOWN-FINDING lines allowed), 1 violation, 2 harness problem.
"""

from __future__ import annotations

import collections
import hashlib
import importlib
import json
import multiprocessing
import os
import random
import signal
import sys
import threading
import time
import traceback
from typing import Any, Callable, Iterable, Optional

VERIF_DIR = os.path.dirname(os.path.dirname(os.path.abspath(__file__)))
REPO_DIR = os.environ.get("VERIF_REPO", "/repo")
OUT_DIR = os.path.join(VERIF_DIR, "out")
NCPU = int(os.environ.get("VERIF_CPUS", "16"))


class Violation(Exception):
    """ The property was observed not to hold for a case """
    def __init__(self, clause: str, detail: Any = None) -> None:
        super().__init__(f"{clause}: {detail}")
        self.clause = clause
        self.detail = detail


class code_under_test:  # pylint: disable=invalid-name
    """ Context manager: any exception raised by the code under test inside the
        block is a violation of `clause` (used where the statement promises totality).
        Violations raised inside pass through unchanged.
    """
    def __init__(self, clause: str, allowed: tuple = ()) -> None:
        self.clause = clause
        self.allowed = allowed

    def __enter__(self) -> "code_under_test":
        return self

    def __exit__(self, etype, exc, tb) -> bool:
        if exc is None or isinstance(exc, Violation):
            return False
        if isinstance(exc, (KeyboardInterrupt, SystemExit, MemoryError)):
            return False
        if self.allowed and isinstance(exc, self.allowed):
            return False
        frames = traceback.extract_tb(tb)
        where = ""
        for frame in reversed(frames):
            if "/antismash/" in frame.filename:
                where = f"{frame.filename.split('/antismash/', 1)[1]}:{frame.name}"
                break
        raise Violation(self.clause, {"exception": type(exc).__name__, "message": str(exc)[:300],
                                      "where": where}) from exc


def canonical(spec: Any) -> str:
    return json.dumps(spec, sort_keys=True, default=str, separators=(",", ":"))


def digest(spec: Any) -> str:
    return hashlib.sha1(canonical(spec).encode()).hexdigest()[:16]


class Stats:
    """ Mergeable per-subcheck statistics """
    def __init__(self) -> None:
        self.evaluations = 0
        self.nontrivial_digests: set[str] = set()
        self.nontrivial_count = 0      # used when cases are distinct by construction
        self.distinct_digests: set[str] = set()
        self.classes: collections.Counter = collections.Counter()
        self.excluded: collections.Counter = collections.Counter()
        self.first_samples: list = []
        self.reservoir: list = []
        self.violations: list = []     # dicts (sub, clause, spec, detail)
        self.exhaustive: Optional[bool] = None
        self.notes: list[str] = []

    def merge(self, other: "Stats") -> None:
        self.evaluations += other.evaluations
        self.nontrivial_digests |= other.nontrivial_digests
        self.nontrivial_count += other.nontrivial_count
        self.distinct_digests |= other.distinct_digests
        self.classes.update(other.classes)
        self.excluded.update(other.excluded)
        for sample in other.first_samples:
            if len(self.first_samples) < 3:
                self.first_samples.append(sample)
        self.reservoir.extend(other.reservoir)
        self.reservoir = self.reservoir[:5]
        self.violations.extend(other.violations)
        self.notes.extend(other.notes)

    @property
    def distinct_nontrivial(self) -> int:
        return len(self.nontrivial_digests) + self.nontrivial_count


_FORK_REGISTRY: dict[str, Callable] = {}


def _run_registered(args: tuple) -> Any:
    key, shard, nshards = args
    try:
        return ("ok", _FORK_REGISTRY[key](shard, nshards))
    except BaseException as err:  # pylint: disable=broad-except
        return ("error", f"{type(err).__name__}: {err}\n{traceback.format_exc()}")


class HarnessError(Exception):
    pass


class CaseTimeout(KeyboardInterrupt):
    """ one generated case ran longer than VERIF_CASE_TIMEOUT seconds: the run is inconclusive (exit 2), the case is
        written to out/slow/ so that it can be looked at. Derived from KeyboardInterrupt so that hypothesis lets it
        through instead of shrinking towards it """


CASE_TIMEOUT = int(os.environ.get("VERIF_CASE_TIMEOUT", "600"))


class Context:
    def __init__(self, module: Any, tier: str, seed: int, known: list[dict]) -> None:
        self.module = module
        self.property_id = module.PROPERTY_ID
        self.tier = tier
        self.seed = seed
        self.thorough = tier == "thorough"
        self.known_open = [k for k in known if k["property"] == self.property_id and k["status"] == "open"]
        self.stats: dict[str, Stats] = collections.OrderedDict()
        self.extra: dict[str, Any] = {}
        self.exhaustive_flags: dict[str, bool] = {}
        self.started = time.time()

    # ---------------------------------------------------------------- helpers
    def pick(self, quick: Any, thorough: Any) -> Any:
        return thorough if self.thorough else quick

    def _match_known(self, sub: str, spec: Any, vio: Violation) -> Optional[str]:
        for entry in self.known_open:
            sig = self.module.SIGNATURES.get(entry["signature"])
            if sig is None:
                raise HarnessError(f"unknown signature {entry['signature']}")
            try:
                if sig(sub, spec, vio.clause, vio.detail):
                    return entry["id"]
            except Exception as err:  # a signature that cannot judge the case does not match
                raise HarnessError(f"signature {entry['signature']} raised {err!r}") from err
        return None

    def _wrap(self, sub: str, body: Callable, stats: Stats, nontrivial: Optional[Callable],
              classes: Optional[Callable], distinct_by_construction: bool, rng: random.Random,
              last_failure: dict) -> Callable:
        def runner(spec: Any) -> None:
            stats.evaluations += 1
            info: dict = {}
            def too_slow(_signum, _frame) -> None:
                os.makedirs(os.path.join(OUT_DIR, "slow"), exist_ok=True)
                path = os.path.join(OUT_DIR, "slow", f"{self.property_id}-{sub}-{digest(spec)}.json")
                with open(path, "w", encoding="utf-8") as handle:
                    json.dump({"property": self.property_id, "sub": sub, "spec": spec}, handle, indent=1, sort_keys=True)
                raise CaseTimeout(f"{self.property_id}/{sub}: one case ran for more than {CASE_TIMEOUT}s, see {path}")
            watched = threading.current_thread() is threading.main_thread()
            if watched:
                previous = signal.signal(signal.SIGALRM, too_slow)
                signal.alarm(CASE_TIMEOUT)
            try:
                result = body(spec)
                if isinstance(result, dict):
                    info = result
            except Violation as vio:
                known_id = self._match_known(sub, spec, vio)
                if known_id is not None:
                    stats.excluded[known_id] += 1
                    return
                last_failure["spec"] = spec
                last_failure["vio"] = vio
                raise
            finally:
                if watched:
                    signal.alarm(0)
                    signal.signal(signal.SIGALRM, previous)
            is_nt = bool(info.get("nontrivial")) if nontrivial is None else bool(nontrivial(spec))
            for cls in (info.get("classes") or ()):
                stats.classes[cls] += 1
            if classes is not None:
                for cls in classes(spec):
                    stats.classes[cls] += 1
            if is_nt:
                if distinct_by_construction:
                    stats.nontrivial_count += 1
                else:
                    stats.nontrivial_digests.add(digest(spec))
                if len(stats.first_samples) < 3:
                    stats.first_samples.append(spec)
                elif rng.random() < 0.002 or len(stats.reservoir) < 2:
                    if len(stats.reservoir) < 5:
                        stats.reservoir.append(spec)
                    else:
                        stats.reservoir[rng.randrange(5)] = spec
        return runner

    def _fan_out(self, worker: Callable[[int, int], Stats], shards: int) -> Stats:
        total = Stats()
        if shards <= 1:
            total.merge(worker(0, 1))
            return total
        key = f"k{len(_FORK_REGISTRY)}"
        _FORK_REGISTRY[key] = worker
        ctx = multiprocessing.get_context("fork")
        with ctx.Pool(min(shards, NCPU)) as pool:
            results = pool.map(_run_registered, [(key, i, shards) for i in range(shards)], chunksize=1)
        del _FORK_REGISTRY[key]
        for status, payload in results:
            if status != "ok":
                raise HarnessError(f"shard failed: {payload}")
            total.merge(payload)
        return total

    def _store(self, sub: str, stats: Stats) -> None:
        if sub in self.stats:
            self.stats[sub].merge(stats)
        else:
            self.stats[sub] = stats

    # ---------------------------------------------------------------- hypothesis driver
    def hyp(self, sub: str, strategy: Any, *, max_examples: int, nontrivial: Callable = None,
            classes: Callable = None, shards: int = 1, body: Callable = None) -> None:
        """ Runs SUBCHECKS[sub] (or body) over `strategy` with hypothesis.
            The body may return {"nontrivial": bool, "classes": [...]}.
        """
        import hypothesis
        from hypothesis import HealthCheck, Phase, given, settings

        body = body or self.module.SUBCHECKS[sub]
        per_shard = max(1, max_examples // max(1, shards))

        def worker(shard: int, nshards: int) -> Stats:
            stats = Stats()
            rng = random.Random(self.seed * 7919 + shard)
            last_failure: dict = {}
            runner = self._wrap(sub, body, stats, nontrivial, classes, False, rng, last_failure)
            cfg = settings(max_examples=per_shard, deadline=None, database=None, derandomize=False,
                           report_multiple_bugs=False, print_blob=False,
                           suppress_health_check=list(HealthCheck),
                           phases=[Phase.generate, Phase.shrink])

            @hypothesis.seed(self.seed * 1000 + shard)
            @cfg
            @given(strategy)
            def test(spec: Any) -> None:
                runner(spec)

            try:
                test()
            except Violation:
                vio = last_failure["vio"]
                stats.violations.append({"sub": sub, "clause": vio.clause,
                                         "spec": last_failure["spec"], "detail": vio.detail})
            return stats

        self._store(sub, self._fan_out(worker, shards))

    # ---------------------------------------------------------------- stateful driver
    def stateful(self, sub: str, machine_factory: Callable[[Stats], Any], *, max_examples: int,
                 steps: int, shards: int = 1) -> None:
        """ machine_factory(stats) returns a RuleBasedStateMachine subclass whose rules
            raise Violation; the machine records its own history in `self.history`
            (a JSON-able list) and calls stats hooks at teardown.
        """
        import hypothesis
        from hypothesis import HealthCheck, Phase, settings
        from hypothesis.stateful import run_state_machine_as_test

        per_shard = max(1, max_examples // max(1, shards))

        def worker(shard: int, nshards: int) -> Stats:
            stats = Stats()
            stats.rng = random.Random(self.seed * 7919 + shard)  # type: ignore
            stats.known = lambda spec, vio: self._match_known(sub, spec, vio)  # type: ignore
            machine = machine_factory(stats)
            cfg = settings(max_examples=per_shard, stateful_step_count=steps, deadline=None,
                           database=None, derandomize=False, report_multiple_bugs=False,
                           print_blob=False, suppress_health_check=list(HealthCheck),
                           phases=[Phase.generate, Phase.shrink])
            try:
                run_state_machine_as_test(hypothesis.seed(self.seed * 1000 + shard)(machine), settings=cfg)
            except Violation as vio:
                spec = getattr(machine, "last_failure_history", None)
                stats.violations.append({"sub": sub, "clause": vio.clause, "spec": spec,
                                         "detail": vio.detail})
            return stats

        self._store(sub, self._fan_out(worker, shards))

    # ---------------------------------------------------------------- enumeration driver
    def enum(self, sub: str, cases: Callable[[], Iterable], *, nontrivial: Callable = None,
             classes: Callable = None, shards: int = 1, exhaustive: bool = True,
             body: Callable = None, stop_after: int = 1, distinct: bool = True) -> None:
        """ Runs the body over every case produced by cases() (a fresh iterator per shard;
            shard i takes items i, i+n, ...).  Stops a shard after `stop_after` unlisted violations.
        """
        body = body or self.module.SUBCHECKS[sub]

        def worker(shard: int, nshards: int) -> Stats:
            stats = Stats()
            rng = random.Random(self.seed * 7919 + shard)
            last_failure: dict = {}
            runner = self._wrap(sub, body, stats, nontrivial, classes, distinct, rng, last_failure)
            found = 0
            for index, spec in enumerate(cases()):
                if index % nshards != shard:
                    continue
                try:
                    runner(spec)
                except Violation as vio:
                    stats.violations.append({"sub": sub, "clause": vio.clause, "spec": spec,
                                             "detail": vio.detail})
                    found += 1
                    if found >= stop_after:
                        stats.exhaustive = False
                        break
            return stats

        total = self._fan_out(worker, shards)
        if exhaustive and total.exhaustive is None and not total.violations:
            self.exhaustive_flags[sub] = True
        else:
            self.exhaustive_flags[sub] = False
        self._store(sub, total)

    def direct(self, sub: str) -> tuple[Stats, Callable]:
        """ For checks that drive their own loops: returns (stats, runner) """
        stats = self.stats.setdefault(sub, Stats())
        rng = random.Random(self.seed * 7919)
        last_failure: dict = {}
        body = self.module.SUBCHECKS[sub]
        wrapped = self._wrap(sub, body, stats, None, None, False, rng, last_failure)

        def runner(spec: Any) -> None:
            try:
                wrapped(spec)
            except Violation as vio:
                stats.violations.append({"sub": sub, "clause": vio.clause, "spec": spec,
                                         "detail": vio.detail})
        return stats, runner


# ---------------------------------------------------------------------------------------------

def load_known() -> list[dict]:
    """ known_findings.json plus known/<ID>.json (same format) """
    findings: list[dict] = []
    paths = [os.path.join(VERIF_DIR, "known_findings.json")]
    extra_dir = os.path.join(VERIF_DIR, "known")
    if os.path.isdir(extra_dir):
        paths.extend(os.path.join(extra_dir, name) for name in sorted(os.listdir(extra_dir)) if name.endswith(".json"))
    for path in paths:
        if not os.path.exists(path):
            continue
        with open(path, encoding="utf-8") as handle:
            findings.extend(json.load(handle)["findings"])
    return findings


def find_module(prop: str) -> Any:
    checks_dir = os.path.join(VERIF_DIR, "checks")
    for name in sorted(os.listdir(checks_dir)):
        if name.lower().startswith(prop.lower() + "_") and name.endswith(".py"):
            return importlib.import_module(f"checks.{name[:-3]}")
    raise HarnessError(f"no check module for {prop}")


def write_replay(prop: str, violation: dict) -> str:
    os.makedirs(os.path.join(OUT_DIR, "replays"), exist_ok=True)
    name = f"{prop}-{violation['sub']}-{digest(violation['spec'])}.json"
    path = os.path.join(OUT_DIR, "replays", name)
    with open(path, "w", encoding="utf-8") as handle:
        json.dump({"property": prop, "sub": violation["sub"], "clause": violation["clause"],
                   "detail": violation["detail"], "spec": violation["spec"]}, handle, indent=1,
                  default=str, sort_keys=True)
    return path


def replay_file(module: Any, path: str) -> Optional[Violation]:
    with open(path, encoding="utf-8") as handle:
        data = json.load(handle)
    return replay_spec(module, data["sub"], data["spec"])


def replay_spec(module: Any, sub: str, spec: Any) -> Optional[Violation]:
    body = module.SUBCHECKS[sub]
    try:
        body(spec)
    except Violation as vio:
        return vio
    return None


def main(argv: list[str]) -> int:
    import argparse
    parser = argparse.ArgumentParser()
    parser.add_argument("property")
    parser.add_argument("--tier", default=os.environ.get("VERIF_TIER", "quick"), choices=["quick", "thorough"])
    parser.add_argument("--replay")
    parser.add_argument("--no-evidence", action="store_true")
    args = parser.parse_args(argv)

    if os.environ.get("PYTHONHASHSEED") is None:
        env = dict(os.environ)
        env["PYTHONHASHSEED"] = "0"
        os.execve(sys.executable, [sys.executable] + sys.argv, env)

    seed = int(os.environ.get("VERIF_SEED", "1") or "1")
    prop = args.property.upper()
    sys.path.insert(0, VERIF_DIR)
    sys.path.insert(0, REPO_DIR)
    os.environ.setdefault("ANTISMASH_VERIF", "1")
    import logging
    logging.disable(logging.CRITICAL)
    import warnings
    import antismash  # noqa: F401  (must be imported before warnings are silenced: blast.py asserts on one)
    warnings.filterwarnings("ignore")

    started = time.time()
    try:
        module = find_module(prop)
        known = load_known()

        if args.replay:
            vio = replay_file(module, args.replay)
            if vio is None:
                print(f"replay {args.replay}: property held")
                return 0
            with open(args.replay, encoding="utf-8") as handle:
                replayed = json.load(handle)
            matched = Context(module, args.tier, seed, known)._match_known(replayed["sub"], replayed["spec"], vio)
            if matched is not None:
                print(f"KNOWN-FINDING: property={prop} {matched} (replay {args.replay})")
                return 0
            print(f"replay {args.replay}: {vio.clause}: {json.dumps(vio.detail, default=str)[:2000]}")
            print(f"VIOLATION property={prop} replay={args.replay}")
            return 1

        ctx = Context(module, args.tier, seed, known)
        violations: list[dict] = []
        stale_dir = os.path.join(OUT_DIR, "replays")
        if os.path.isdir(stale_dir):
            for name in os.listdir(stale_dir):
                if name.startswith(prop + "-"):
                    os.unlink(os.path.join(stale_dir, name))

        # 1. known findings: replay each witness, report it as KNOWN-FINDING if it still fails
        known_lines = []
        for entry in ctx.known_open:
            vio = replay_spec(module, entry["witness"]["sub"], entry["witness"]["spec"])
            if vio is not None and module.SIGNATURES[entry["signature"]](
                    entry["witness"]["sub"], entry["witness"]["spec"], vio.clause, vio.detail):
                known_lines.append(f"KNOWN-FINDING: property={prop} {entry['id']}: {entry['what']}")
            elif vio is not None:
                violations.append({"sub": entry["witness"]["sub"], "clause": vio.clause,
                                   "spec": entry["witness"]["spec"], "detail": vio.detail})
            else:
                print(f"NOTE: known finding {entry['id']} no longer reproduces on this tree")
        for line in known_lines:
            print(line)

        # 2. committed regressions
        replay_dir = os.path.join(VERIF_DIR, "replays", prop)
        replayed = 0
        if os.path.isdir(replay_dir):
            for name in sorted(os.listdir(replay_dir)):
                if not name.endswith(".json"):
                    continue
                with open(os.path.join(replay_dir, name), encoding="utf-8") as handle:
                    data = json.load(handle)
                replayed += 1
                vio = replay_spec(module, data["sub"], data["spec"])
                if vio is not None and ctx._match_known(data["sub"], data["spec"], vio) is None:
                    violations.append({"sub": data["sub"], "clause": vio.clause, "spec": data["spec"],
                                       "detail": vio.detail})

        # 3. generation
        module.run(ctx)
        for stats in ctx.stats.values():
            violations.extend(stats.violations)

        wall = time.time() - started
        if not args.no_evidence:
            write_evidence(ctx, module, violations, replayed, known_lines, wall)

        if violations:
            seen = set()
            per_clause: collections.Counter = collections.Counter()
            for violation in violations:
                per_clause[(violation["sub"], violation["clause"])] += 1
                if per_clause[(violation["sub"], violation["clause"])] > 2:
                    continue
                path = write_replay(prop, violation)
                if path in seen:
                    continue
                seen.add(path)
                print(f"  clause={violation['clause']} sub={violation['sub']} "
                      f"detail={json.dumps(violation['detail'], default=str)[:1500]}")
                print(f"VIOLATION property={prop} replay={path}")
            return 1
        total = sum(s.evaluations for s in ctx.stats.values())
        nontrivial = sum(s.distinct_nontrivial for s in ctx.stats.values())
        print(f"OK property={prop} tier={args.tier} seed={seed} evaluations={total} "
              f"distinct_nontrivial={nontrivial} wall={wall:.1f}s")
        return 0
    except HarnessError as err:
        print(f"HARNESS-ERROR property={prop}: {err}")
        return 2
    except Exception:  # pylint: disable=broad-except
        traceback.print_exc()
        print(f"HARNESS-ERROR property={prop}: unexpected exception in the harness")
        return 2


def write_evidence(ctx: Context, module: Any, violations: list[dict], replayed: int,
                   known_lines: list[str], wall: float) -> None:
    os.makedirs(os.path.join(VERIF_DIR, "evidence"), exist_ok=True)
    evaluations = sum(s.evaluations for s in ctx.stats.values())
    nontrivial = sum(s.distinct_nontrivial for s in ctx.stats.values())
    samples = []
    per_sub = {}
    classes: collections.Counter = collections.Counter()
    excluded: collections.Counter = collections.Counter()
    for sub, stats in ctx.stats.items():
        for sample in (stats.first_samples[:2] + stats.reservoir[:1]):
            samples.append({"sub": sub, "case": sample})
        per_sub[sub] = {"evaluations": stats.evaluations,
                        "distinct_nontrivial": stats.distinct_nontrivial,
                        "exhaustive": ctx.exhaustive_flags.get(sub, False),
                        "classes": dict(sorted(stats.classes.items())),
                        "excluded_known": dict(stats.excluded)}
        for cls, count in stats.classes.items():
            classes[f"{sub}.{cls}"] += count
        excluded.update(stats.excluded)
    coverage = {
        "evaluations": evaluations,
        "distinct_nontrivial": nontrivial,
        "rule": module.RULE,
        "samples": samples[:24],
        "exhaustive": bool(ctx.exhaustive_flags) and all(ctx.exhaustive_flags.values())
                      and set(ctx.exhaustive_flags) == set(ctx.stats),
        "exhaustive_subchecks": sorted(k for k, v in ctx.exhaustive_flags.items() if v),
        "subchecks": per_sub,
        "excluded_known": dict(excluded),
        "known_findings_reported": known_lines,
        "committed_replays_run": replayed,
    }
    coverage.update(ctx.extra)
    evidence = {
        "property_id": ctx.property_id,
        "tier": ctx.tier,
        "seed": ctx.seed,
        "level": module.LEVEL,
        "coverage": coverage,
        "assumptions": list(module.ASSUMPTIONS),
        "wall_s": round(wall, 2),
        "violations": len(violations),
    }
    path = os.path.join(VERIF_DIR, "evidence", f"{ctx.property_id}.json")
    with open(path, "w", encoding="utf-8") as handle:
        json.dump(evidence, handle, indent=1, default=str, sort_keys=True)
        handle.write("\n")
