""" C17 worker: runs pipeline stages of antiSMASH on plain-JSON specs and reports canonical dumps.

    Two uses:
      * as a child process (`/venv/bin/python -u vlib/c17_worker.py <child index> <garbage base>`), started by
        checks/c17_determinism.py with an explicit PYTHONHASHSEED.  Protocol: one JSON object per line on
        stdin, one JSON object per line on the (saved) stdout; everything antiSMASH might print goes to stderr.
            {"op": "run",  "id": n, "sub": name, "spec": {...}, "repeats": r}
                -> {"id": n, "runs": [{"digests": {stage: sha256}, "error": null | {...}}, ...], "info": {...}}
            {"op": "dump", "id": n, "repeat": r, "stage": name}   (dumps of the last "run" are cached)
                -> {"id": n, "dump": <canonical dump of that stage>}
            {"op": "ping"} -> {"pong": true, "hashseed": ..., "repo": ...}
      * as a library: STAGES[sub](spec) -> (ordered dict stage -> dump, info)

    A *dump* is a JSON-able value in which every order that is an output of antiSMASH is kept as produced
    (lists, and dicts in iteration order) and every container that is a set in antiSMASH's own API is sorted.
    Text outputs (GenBank, JSON) are dumped verbatim.

    The module imports antismash lazily (inside the stage functions), the same way the check bodies do.
"""

from __future__ import annotations

import hashlib
import io
import json
import os
import sys
import traceback
from typing import Any, Callable


# --------------------------------------------------------------------------- canonical text / digests

def canonical(dump: Any) -> str:
    """ order-preserving: dict order is part of the dump """
    return json.dumps(dump, separators=(",", ":"), ensure_ascii=True, default=str)


def digest(dump: Any) -> str:
    return hashlib.sha256(canonical(dump).encode()).hexdigest()


class StageFailure(Exception):
    """ an exception of the code under test, with the dumps and class labels completed before it """
    def __init__(self, stages: dict, stage: str, error: BaseException, classes: list) -> None:
        super().__init__(str(error))
        self.stages = stages
        self.stage = stage
        self.error = error
        self.classes = classes


def describe_exception(err: BaseException) -> dict:
    where = ""
    inside = False
    for frame in reversed(traceback.extract_tb(err.__traceback__)):
        if "/antismash/" in frame.filename:
            where = f"{frame.filename.split('/antismash/', 1)[1]}:{frame.name}"
            inside = True
            break
    return {"type": type(err).__name__, "message": str(err)[:300], "where": where, "in_antismash": inside}


class _Stages:
    """ collects the dumps of one case in order; `guard` marks the code under test """
    def __init__(self) -> None:
        self.dumps: dict = {}
        self.classes: list = []      # labels measured on the results so far (kept when a later stage raises)

    def add(self, name: str, dump: Any) -> None:
        self.dumps[name] = dump

    def guard(self, stage: str, func: Callable, *args: Any, **kwargs: Any) -> Any:
        try:
            return func(*args, **kwargs)
        except Exception as err:  # pylint: disable=broad-except
            raise StageFailure(self.dumps, stage, err, self.classes) from err


# --------------------------------------------------------------------------- small shared helpers

def _evalue(exponent: int) -> float:
    return float(f"1e-{int(exponent)}")


def _loc_text(location: Any) -> str:
    return str(location)


# =========================================================================== hits: refine_hmmscan_results

class _Hsp:  # the attributes gather_by_query reads from Bio's HSP
    def __init__(self, query_id, hit_id, start, end, evalue, bitscore):
        self.query_id = query_id
        self.hit_id = hit_id
        self.query_start = start
        self.query_end = end
        self.evalue = evalue
        self.bitscore = bitscore


class _QueryResult:
    def __init__(self, hsps):
        self.hsps = list(hsps)


def stage_refine(spec: dict) -> tuple:
    """ spec: {"lengths": {profile: n}, "hits": [[profile, start, end, score, evalue exponent, cds index], ...],
               "split": k}   hits are spread over k QueryResult objects (round robin) """
    from antismash.common import hmmscan_refinement
    stages = _Stages()
    lengths = {key: int(val) for key, val in spec["lengths"].items()}
    split = max(1, int(spec.get("split", 1)))
    for mode in ("list", "neighbour"):
        queries: list = [[] for _ in range(split)]
        for index, raw in enumerate(spec["hits"]):
            queries[index % split].append(_Hsp(f"cds{raw[5]}", raw[0], int(raw[1]), int(raw[2]),
                                               _evalue(raw[4]), float(raw[3])))
        results = [_QueryResult(hsps) for hsps in queries]
        refined = stages.guard(f"refine_{mode}", hmmscan_refinement.refine_hmmscan_results, results, lengths,
                               neighbour_mode=(mode == "neighbour"))
        stages.add(f"refine_{mode}", {
            cds: [[hit.hit_id, hit.query_start, hit.query_end, hit.evalue, hit.bitscore] for hit in hits]
            for cds, hits in refined.items()})
    kept = sum(len(hits) for hits in stages.dumps["refine_list"].values())
    stages.classes.append(f"kept_list_{min(kept, 4)}")
    return stages.dumps, {"classes": stages.classes}


# =========================================================================== hits: hmmer.remove_overlapping

def _hmmer_evalue(identifier: str, score: float) -> float:
    return float(f"1e-{int(score * 2) % 60 + len(identifier)}")


def stage_hmmer(spec: dict) -> tuple:
    """ spec: {"limit": n, "cutoffs": {identifier: x}, "hits": [[identifier, start, end, score], ...]} """
    from antismash.common.hmmer import HmmerHit, remove_overlapping
    stages = _Stages()
    hits = []
    for raw in spec["hits"]:
        identifier, start, end, score = raw[0], int(raw[1]), int(raw[2]), float(raw[3])
        hits.append(HmmerHit(location=f"[{start * 3}:{end * 3}](+)", label="cds0", locus_tag="cds0",
                             domain=f"name_{identifier}", evalue=_hmmer_evalue(identifier, score), score=score,
                             identifier=identifier, description=f"desc {identifier}", protein_start=start,
                             protein_end=end, translation="A" * (end - start)))
    cutoffs = {key: float(val) for key, val in spec["cutoffs"].items()}
    kept = stages.guard("hmmer_kept", remove_overlapping, hits, cutoffs, overlap_limit=int(spec["limit"]))
    stages.add("hmmer_kept", [[hit.identifier, hit.protein_start, hit.protein_end, hit.score, hit.evalue]
                              for hit in kept])
    stages.classes.append("some_dropped" if len(kept) < len(hits) else "all_kept")
    return stages.dumps, {"classes": stages.classes}


# =========================================================================== hits: filter_results / filter_result_multiple

class _FilterHsp:
    """ what the filters read from Bio's HSP; like Bio's HSP it hashes and compares by identity """
    def __init__(self, query_id, hit_id, hit_start, hit_end, bitscore):
        self.query_id = query_id
        self.hit_id = hit_id
        self.hit_start = hit_start
        self.hit_end = hit_end
        self.bitscore = bitscore
        self.evalue = float(f"1e-{int(bitscore)}")

    def key(self) -> list:
        return [self.hit_id, self.query_id, self.hit_start, self.hit_end, self.bitscore]


def stage_filter(spec: dict) -> tuple:
    """ spec: {"groups": [[profile, ...], ...], "hits": [[cds index, profile, start, end, score], ...]} """
    from antismash.common.hmm_rule_parser.cluster_prediction import filter_result_multiple, filter_results
    stages = _Stages()
    hsps = [_FilterHsp(raw[1], f"cds{raw[0]}", int(raw[2]), int(raw[3]), float(raw[4])) for raw in spec["hits"]]
    results = list(hsps)
    by_id: dict = {}
    for hsp in results:
        by_id.setdefault(hsp.hit_id, []).append(hsp)
    groups = [set(group) for group in spec["groups"]]

    def dump(res, res_by_id):
        return {"results": [hsp.key() for hsp in res],
                "by_id": [{"cds": cds, "hits": [hsp.key() for hsp in hits]} for cds, hits in res_by_id.items()]}

    first, first_by_id = stages.guard("filter_results", filter_results, results, by_id, groups)
    stages.add("filter_results", dump(first, first_by_id))
    second, second_by_id = stages.guard("filter_multiple", filter_result_multiple, first, first_by_id)
    stages.add("filter_multiple", dump(second, second_by_id))
    if len(stages.dumps["filter_results"]["results"]) < len(hsps):
        stages.classes.append("stage1_dropped")
    if len(stages.dumps["filter_multiple"]["results"]) < len(stages.dumps["filter_results"]["results"]):
        stages.classes.append("stage2_dropped")
    return stages.dumps, {"classes": stages.classes}


# =========================================================================== records: detection, areas, outputs

def _make_record(spec: dict) -> Any:
    from vlib.build import make_cds, make_record
    record = make_record(int(spec["L"]), bool(spec["circular"]), record_id=spec.get("id", "rec1"))
    for gene in spec["genes"]:
        record.add_cds_feature(make_cds(gene["loc"], gene["name"]))
    return record


def _add_subregions(record: Any, spec: dict) -> None:
    from antismash.common.secmet.features import SubRegion
    from vlib.build import to_loc
    for sub in spec.get("subregions") or []:
        record.add_subregion(SubRegion(to_loc(sub["loc"]), tool=sub.get("tool", "verif"), label=sub.get("label", "")))


def _proto_key(proto: Any) -> str:
    return f"{proto.product}|{proto.tool}|{proto.core_location}|{proto.location}"


def _cand_key(cand: Any) -> str:
    return f"{cand.kind}|{cand.location}|" + ";".join(sorted({_proto_key(p) for p in cand.protoclusters}))


def _sub_key(sub: Any) -> str:
    return f"{sub.tool}|{sub.label}|{sub.location}"


def _area_dumps(record: Any) -> tuple:
    """ (order-free view, repeated members, exact view) of protoclusters, candidate clusters and regions """
    protos = record.get_protoclusters()
    cands = record.get_candidate_clusters()
    regions = record.get_regions()
    sets = {
        "protoclusters": sorted(_proto_key(p) for p in protos),
        "candidates": sorted(_cand_key(c) for c in cands),
        "regions": sorted(
            f"{region.location}|" + ";".join(sorted(_cand_key(c) for c in region.candidate_clusters)) + "|"
            + ";".join(sorted(_sub_key(s) for s in region.subregions)) + "|" + ",".join(sorted(region.products))
            for region in regions),
        "cds_regions": sorted(f"{cds.get_name()}|{cds.region.location if cds.region else None}"
                              for cds in record.get_cds_features()),
        "definition_cdses": sorted(
            _proto_key(p) + "|" + ",".join(sorted(cds.get_name() for cds in p.definition_cdses)) for p in protos),
    }
    # a protocluster that a candidate cluster lists more than once (membership above is judged as a set)
    repeats = sorted(f"{_cand_key(c)}||{_proto_key(p)}" for c in cands for i, p in enumerate(c.protoclusters)
                     if any(p is q for q in c.protoclusters[:i]))
    exact = {
        "protoclusters": [{"number": p.get_protocluster_number(), "key": _proto_key(p),
                           "cdses": [cds.get_name() for cds in p.cds_children]} for p in protos],
        "candidates": [{"number": c.get_candidate_cluster_number(), "kind": str(c.kind), "location": str(c.location),
                        "core": str(c.core_location),
                        "protoclusters": [p.get_protocluster_number() for p in c.protoclusters],
                        "protocluster_keys": [_proto_key(p) for p in c.protoclusters],
                        "products": list(c.products), "product_string": c.get_product_string(),
                        "detection_rules": list(c.detection_rules),
                        "cdses": [cds.get_name() for cds in c.cds_children]} for c in cands],
        "regions": [{"number": r.get_region_number(), "location": str(r.location), "products": list(r.products),
                     "product_string": r.get_product_string(),
                     "candidates": [c.get_candidate_cluster_number() for c in r.candidate_clusters],
                     "subregions": [s.get_subregion_number() for s in r.subregions],
                     "unique_protoclusters": [_proto_key(p) for p in r.get_unique_protoclusters()],
                     "unique_protocluster_numbers": [p.get_protocluster_number()
                                                     for p in r.get_unique_protoclusters()],
                     "detection_rules": list(r.detection_rules),
                     "categories": sorted(r.product_categories),
                     "cdses": [cds.get_name() for cds in r.cds_children]} for r in regions],
        "subregions": [{"number": s.get_subregion_number(), "key": _sub_key(s),
                        "cdses": [cds.get_name() for cds in s.cds_children]} for s in record.get_subregions()],
    }
    return sets, repeats, exact


def _cds_annotation_dump(record: Any) -> list:
    out = []
    for cds in record.get_cds_features():
        functions = [str(function) for function in cds.gene_functions]
        domains = list(cds.sec_met.domain_ids) if cds.sec_met else []
        if functions or domains:
            out.append({"cds": cds.get_name(), "gene_functions": functions, "gene_kind": str(cds.gene_function),
                        "sec_met_domains": domains})
    return out


def _genbank_text(record: Any) -> str:
    from Bio import SeqIO
    handle = io.StringIO()
    SeqIO.write([record.to_biopython()], handle, "genbank")
    return handle.getvalue()


_SCRATCH: list = []


def _scratch_dir() -> str:
    """ one scratch directory per process for the per-region GenBank files; below the pool's scratch directory
        (removed by the parent) when there is one, else a directory of its own removed at exit """
    if not _SCRATCH:
        import tempfile
        base = os.environ.get("VERIF_C17_SCRATCH")
        if base and os.path.isdir(base):
            path = tempfile.mkdtemp(prefix="child_", dir=base)
        else:
            import atexit
            import shutil
            path = tempfile.mkdtemp(prefix="verif_c17_")
            atexit.register(shutil.rmtree, path, ignore_errors=True)
        _SCRATCH.append(path)
    return _SCRATCH[0]


def _region_genbank_texts(record: Any) -> dict:
    """ the per-region GenBank files as Region.write_to_genbank writes them: {file name: text} """
    out = {}
    directory = _scratch_dir()
    bio_record = record.to_biopython()
    for region in record.get_regions():
        name = f"{record.id}.region{region.get_region_number():03d}.gbk"
        path = os.path.join(directory, name)
        try:
            region.write_to_genbank(directory=directory, record=bio_record)
            with open(path, encoding="utf-8") as handle:
                out[name] = handle.read()
        finally:
            if os.path.exists(path):
                os.unlink(path)
    return out


def _results_json_text(record: Any, module_results: dict) -> str:
    from antismash.common import json as as_json
    from antismash.common import serialiser
    results = serialiser.AntismashResults("input.gbk", [record], [module_results], "verif-version",
                                          timings={}, taxon="bacteria")
    return as_json.dumps(results.to_json())


def _form_areas_and_outputs(stages: _Stages, record: Any, module_results: dict) -> None:
    """ what main.run_detection does after the detection modules, then the two output writers """
    stages.guard("areas", record.create_candidate_clusters)
    stages.guard("areas", record.create_regions)
    sets, repeats, exact = stages.guard("areas", _area_dumps, record)
    stages.add("areas_sets", sets)
    stages.add("candidate_member_repeats", repeats)
    stages.add("areas", exact)
    stages.classes.extend(stages.guard("areas", _area_classes, record))
    stages.add("genbank", stages.guard("genbank", _genbank_text, record))
    stages.add("region_genbank", stages.guard("region_genbank", _region_genbank_texts, record))
    stages.add("results_json", stages.guard("results_json", _results_json_text, record, module_results))


def _area_classes(record: Any) -> list:
    classes = []
    protos = record.get_protoclusters()
    classes.append(f"protoclusters_{min(len(protos), 4)}")
    coords = [str(p.location) for p in protos]
    if len(set(coords)) < len(coords):
        classes.append("equal_coordinate_protoclusters")
    # pairs that the areas' own comparison does not put in one order (neither is less, or each is less than the other)
    if any((one < two) == (two < one) for i, one in enumerate(protos) for two in protos[i + 1:]):
        classes.append("unordered_protoclusters")
    kinds = sorted({str(c.kind) for c in record.get_candidate_clusters()})
    classes.extend(f"kind_{kind}" for kind in kinds)
    cand_coords = [str(c.location) for c in record.get_candidate_clusters()]
    if len(set(cand_coords)) < len(cand_coords):
        classes.append("equal_coordinate_candidates")
    cands = record.get_candidate_clusters()
    if any((one < two) == (two < one) for i, one in enumerate(cands) for two in cands[i + 1:]):
        classes.append("unordered_candidates")
    for region in record.get_regions():
        members = region.get_unique_protoclusters()
        if any((one < two) == (two < one) for i, one in enumerate(members) for two in members[i + 1:]):
            label = "unordered_in_crossing_region" if region.crosses_origin() else "unordered_in_plain_region"
            if label not in classes:
                classes.append(label)
    for area in list(protos) + list(record.get_regions()):
        spans = [(int(cds.location.start), int(cds.location.end)) for cds in area.cds_children]
        if len(set(spans)) < len(spans):
            label = "equal_coordinate_cdses_in_crossing_area" if area.crosses_origin() else \
                "equal_coordinate_cdses_in_plain_area"
            if label not in classes:
                classes.append(label)
    classes.append(f"regions_{min(len(record.get_regions()), 3)}")
    if any(region.crosses_origin() for region in record.get_regions()):
        classes.append("region_crosses_origin")
    if any(len(region.products) > 1 for region in record.get_regions()):
        classes.append("region_with_several_products")
    if record.get_subregions():
        classes.append("with_subregions")
    return classes


class _Options:  # the attributes hmm_detection.run_on_record and get_ruleset read
    hmmdetection_strictness = "relaxed"
    hmmdetection_limit_to_rules: list = []
    hmmdetection_limit_to_categories: list = []
    taxon = "bacteria"


def _rule_text(rule: dict) -> str:
    text = f"RULE {rule['name']} CATEGORY {rule['category']}"
    if rule.get("superiors"):
        text += " SUPERIORS " + ", ".join(rule["superiors"])
    text += f" CUTOFF 1 NEIGHBOURHOOD 1 CONDITIONS {rule['conditions']}"
    if rule.get("extenders"):
        text += f" EXTENDERS {rule['extenders']}"
    return text


def build_ruleset(spec: dict) -> Any:
    """ a Ruleset of dynamic profiles only: every profile 'finds' the hits listed in the spec """
    from antismash.common.hmm_rule_parser import cluster_prediction, rule_parser
    from antismash.common.hmm_rule_parser.structures import DynamicHit, DynamicProfile
    profiles = list(spec["profiles"])
    categories = {rule["category"] for rule in spec["rules"]}
    text = "\n".join(_rule_text(rule) for rule in spec["rules"])
    parsed = rule_parser.Parser(text, set(profiles), categories).rules
    for rule, raw in zip(parsed, spec["rules"]):
        rule.cutoff = int(raw["cutoff"])            # the parser reads kilobases; distances are set in bases
        rule.neighbourhood = int(raw["neighbourhood"])

    def finder(profile: str) -> Callable:
        def detect(_record: Any, _hmmer_hits: dict) -> dict:
            found: dict = {}
            for gene, hits in spec["hits"].items():
                for name, score, exponent in hits:
                    if name == profile:
                        found.setdefault(gene, []).append(DynamicHit(gene, profile, float(score), _evalue(exponent)))
            return found
        return detect

    dynamic = {profile: DynamicProfile(profile, f"dynamic {profile}", finder(profile)) for profile in profiles}
    return cluster_prediction.Ruleset(tuple(parsed), {}, "", categories, "rule-based-clusters",
                                      dynamic_profiles=dynamic, equivalence_groups=[])


def stage_detect(spec: dict) -> tuple:
    """ spec: {"L", "circular", "genes": [{"name", "loc"}], "profiles": [...],
               "hits": {gene: [[profile, score, evalue exponent], ...]},
               "rules": [{"name", "category", "cutoff", "neighbourhood", "conditions", "superiors"?, "extenders"?}],
               "subregions": [{"loc", "tool", "label"}]}
        Runs hmm_detection.run_on_record (with get_ruleset answering the spec's ruleset), then what
        main.run_detection does with the result, then the GenBank and JSON writers. """
    from antismash.detection import hmm_detection
    stages = _Stages()
    record = _make_record(spec)
    _add_subregions(record, spec)
    ruleset = stages.guard("ruleset", build_ruleset, spec)
    original = hmm_detection.get_ruleset
    hmm_detection.get_ruleset = lambda _options: ruleset
    try:
        results = stages.guard("protoclusters", hmm_detection.run_on_record, record, None, _Options)
    finally:
        hmm_detection.get_ruleset = original
    rule_results = results.rule_results
    dump = []
    for cluster, cds_results in rule_results.cds_by_cluster.items():
        dump.append({
            "product": cluster.product, "core": str(cluster.core_location), "location": str(cluster.location),
            "cutoff": cluster.cutoff, "neighbourhood": cluster.neighbourhood_range,
            "rule": cluster.detection_rule, "category": cluster.product_category,
            "cds_results": [{"cds": res.cds.get_name(), "domains": [dom.name for dom in res.domains],
                             "definition_domains": [[product, sorted(names)]
                                                    for product, names in res.definition_domains.items()]}
                            for res in cds_results]})
    stages.add("protoclusters", {"protoclusters": dump,
                                 "outside": [res.cds.get_name() for res in rule_results.cdses_outside_clusters]})
    if any(len(names) > 1 for item in dump for res in item["cds_results"] for _, names in res["definition_domains"]):
        stages.classes.append("cds_with_several_definition_domains")
    if rule_results.cdses_outside_clusters:
        stages.classes.append("cds_results_outside")
    # defining domains of one rule on one gene whose names only a careless sort key tells apart
    groups = [names for item in dump for res in item["cds_results"] for _, names in res["definition_domains"]]
    if any(len({name.lower() for name in names}) < len(names) for names in groups):
        stages.classes.append("definition_domains_equal_up_to_case")
    if any(len({name.replace("-", "").replace("_", "").lower() for name in names}) < len(names) for names in groups):
        stages.classes.append("definition_domains_equal_up_to_punctuation")
    stages.add("cds_annotations", _cds_annotation_dump(record))
    for protocluster in results.get_predicted_protoclusters():
        stages.guard("areas", record.add_protocluster, protocluster)
    for subregion in results.get_predicted_subregions():
        stages.guard("areas", record.add_subregion, subregion)
    _form_areas_and_outputs(stages, record, {"antismash.detection.hmm_detection": results})
    return stages.dumps, {"classes": stages.classes}


def stage_areas(spec: dict) -> tuple:
    """ spec: {"L", "circular", "genes": [{"name", "loc", "core_for": [product, ...]}],
               "protoclusters": [{"core": loc, "loc": loc, "product", "category", "tool", "cutoff", "neighbourhood"}],
               "subregions": [{"loc", "tool", "label"}]}
        Protoclusters and subregions are added in list order (what a detection module's result list would do),
        then candidate clusters and regions are formed and both outputs written. """
    from antismash.common.secmet.features import Protocluster
    from antismash.common.secmet.qualifiers import GeneFunction
    from vlib.build import to_loc
    stages = _Stages()
    record = _make_record(spec)
    for gene in spec["genes"]:
        cds = record.get_cds_by_name(gene["name"])
        for product in gene.get("core_for") or []:
            cds.gene_functions.add(GeneFunction.CORE, "rule-based-clusters", f"dom_{product}", product)
    for raw in spec["protoclusters"]:
        proto = stages.guard("areas", Protocluster, to_loc(raw["core"]), to_loc(raw["loc"]), raw.get("tool", "verif"),
                             raw["product"], int(raw.get("cutoff", 10)), int(raw.get("neighbourhood", 10)),
                             f"rule {raw['product']}", product_category=raw.get("category", "cat"))
        stages.guard("areas", record.add_protocluster, proto)
    for sub in spec.get("subregions") or []:
        stages.guard("areas", _add_subregions, record, {"subregions": [sub]})
    _form_areas_and_outputs(stages, record, {})
    return stages.dumps, {"classes": stages.classes}


STAGES = {
    "refine": stage_refine,
    "hmmer": stage_hmmer,
    "filter": stage_filter,
    "detect": stage_detect,
    "areas": stage_areas,
}


# =========================================================================== child process

_KEEP: Any = None


def perturb(amount: int) -> None:
    """ changes where the next objects are placed: frees the previous ballast, then allocates objects of every
        small-object size class and keeps `amount` of each alive, with freed slots in between """
    global _KEEP  # pylint: disable=global-statement
    _KEEP = None
    keep = []
    for payload in range(0, 496, 16):
        chunk = [bytes(payload + 1) for _ in range(2 * amount + 2)]
        keep.append(chunk[1::2][:amount])
        chunk = [[None] * (payload // 8) for _ in range(amount)]   # gc-tracked objects plus their item arrays
        keep.append(chunk)
    _KEEP = keep


def run_once(sub: str, spec: dict) -> tuple:
    """ (dumps of completed stages, error description or None, info) """
    try:
        dumps, info = STAGES[sub](spec)
        return dumps, None, info
    except StageFailure as failure:
        error = describe_exception(failure.error)
        error["stage"] = failure.stage
        if not error["in_antismash"]:
            error["traceback"] = "".join(traceback.format_exception(failure.error))[-1500:]
        return failure.stages, error, {"classes": list(failure.classes) + ["raised"]}


def _bootstrap() -> None:
    """ the same import order and repository choice as vlib/runner.py:main """
    here = os.path.dirname(os.path.abspath(__file__))
    verif_dir = os.path.dirname(here)
    repo_dir = os.environ.get("VERIF_REPO", "/repo")
    sys.path[:] = [entry for entry in sys.path if os.path.abspath(entry or ".") != here]   # the script's own directory
    sys.path.insert(0, verif_dir)
    sys.path.insert(0, repo_dir)
    os.environ.setdefault("ANTISMASH_VERIF", "1")
    import logging
    logging.disable(logging.CRITICAL)
    import warnings
    import antismash  # noqa: F401  pylint: disable=unused-import,import-outside-toplevel
    warnings.filterwarnings("ignore")


def main(argv: list) -> int:
    index = int(argv[0])
    garbage = int(argv[1])
    protocol_out = os.fdopen(os.dup(sys.stdout.fileno()), "w", encoding="utf-8")
    os.dup2(sys.stderr.fileno(), sys.stdout.fileno())    # nothing but the protocol reaches the parent
    sys.stdout = sys.stderr
    _bootstrap()
    import antismash
    cache: dict = {}

    def reply(message: dict) -> None:
        protocol_out.write(json.dumps(message, separators=(",", ":"), default=str) + "\n")
        protocol_out.flush()

    for line in iter(sys.stdin.readline, ""):
        if not line.strip():
            continue
        request = json.loads(line)
        try:
            if request["op"] == "ping":
                reply({"pong": True, "index": index, "hashseed": os.environ.get("PYTHONHASHSEED"),
                       "repo": os.path.dirname(os.path.dirname(os.path.abspath(antismash.__file__))),
                       "hash_of_a": hash("a")})
            elif request["op"] == "run":
                cache.clear()
                runs = []
                info: dict = {}
                for repeat in range(int(request.get("repeats", 1))):
                    perturb(garbage + 5 * repeat + int(request["spec"].get("ballast", 0)))
                    dumps, error, run_info = run_once(request["sub"], request["spec"])
                    cache[repeat] = dumps
                    runs.append({"digests": {stage: digest(dump) for stage, dump in dumps.items()}, "error": error})
                    if repeat == 0:
                        info = run_info
                reply({"id": request["id"], "runs": runs, "info": info})
            elif request["op"] == "dump":
                reply({"id": request["id"], "dump": cache[int(request["repeat"])].get(request["stage"])})
            else:
                reply({"id": request.get("id"), "fatal": f"unknown op {request['op']}"})
        except Exception:  # pylint: disable=broad-except
            reply({"id": request.get("id"), "fatal": traceback.format_exc()[-3000:]})
    return 0


if __name__ == "__main__":
    sys.exit(main(sys.argv[1:]))
