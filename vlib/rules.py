""" Rule language model: AST, renderer, an independent reference tokenizer/parser and the
    reference evaluator of the documented formula semantics.  Nothing here calls antiSMASH.

    AST nodes (JSON lists):
        ["id", name] | ["not", node] | ["and", [nodes]] | ["or", [nodes]] | ["group", node]
        | ["cds", node] | ["minimum", n, [names]] | ["minscore", name, score]
"""

from __future__ import annotations

from typing import Any, Optional

KEYWORDS = {"RULE", "CATEGORY", "DESCRIPTION", "EXAMPLE", "RELATED", "SUPERIORS", "CUTOFF",
            "NEIGHBOURHOOD", "CONDITIONS", "EXTENDERS", "DEFINE", "AS"}
WORD_OPS = {"and", "or", "not", "minimum", "cds", "minscore"}
PUNCT = set("()[],.")


class RefSyntaxError(Exception):
    pass


# --------------------------------------------------------------------------- rendering

def render(node: list) -> str:
    kind = node[0]
    if kind == "id":
        return node[1]
    if kind == "not":
        return "not " + render(node[1])
    if kind == "and":
        return " and ".join(render(sub) for sub in node[1])
    if kind == "or":
        return " or ".join(render(sub) for sub in node[1])
    if kind == "group":
        return "(" + render(node[1]) + ")"
    if kind == "cds":
        return "cds(" + render(node[1]) + ")"
    if kind == "minimum":
        return f"minimum({node[1]}, [{', '.join(node[2])}])"
    if kind == "minscore":
        return f"minscore({node[1]}, {node[2]})"
    raise ValueError(kind)


def canon(node: list) -> str:
    """ canonical text used only to keep operands at one level textually distinct
        (redundant groups around a single non-'and' item are dropped, as the parser's own
        rendering does) """
    kind = node[0]
    if kind == "group":
        inner = node[1]
        if inner[0] in ("and", "or"):
            return "(" + canon(inner) + ")"
        return canon(inner)
    if kind == "not":
        return "not " + canon(node[1])
    if kind in ("and", "or"):
        return f" {kind} ".join(canon(sub) for sub in node[1])
    if kind == "cds":
        return "cds(" + canon(node[1]) + ")"
    if kind == "minimum":
        return f"minimum({node[1]}, [{', '.join(sorted(node[2]))}])"
    return render(node)


def profiles_of(node: list) -> set:
    kind = node[0]
    if kind == "id":
        return {node[1]}
    if kind in ("not", "group", "cds"):
        return profiles_of(node[1])
    if kind in ("and", "or"):
        out: set = set()
        for sub in node[1]:
            out |= profiles_of(sub)
        return out
    if kind == "minimum":
        return set(node[2])
    if kind == "minscore":
        return {node[1]}
    raise ValueError(kind)


def has_positive(node: list) -> bool:
    """ the documented 'at least one positive requirement' rule """
    kind = node[0]
    if kind == "not":
        return False
    if kind in ("id", "minimum", "minscore"):
        return True
    if kind in ("group", "cds"):
        return has_positive(node[1])
    if kind in ("and", "or"):
        return any(has_positive(sub) for sub in node[1])
    raise ValueError(kind)


def operator_kinds(node: list) -> set:
    kind = node[0]
    out = set()
    if kind in ("and", "or", "not", "cds", "minimum", "minscore"):
        out.add(kind)
    if kind in ("not", "group", "cds"):
        out |= operator_kinds(node[1])
    elif kind in ("and", "or"):
        for sub in node[1]:
            out |= operator_kinds(sub)
    return out


# --------------------------------------------------------------------------- reference tokenizer / parser

def tokenize(text: str) -> list:
    tokens: list = []
    for line in text.split("\n"):
        if "#" in line:
            line = line[:line.index("#")]
        current = ""
        for char in line:
            if char.isspace():
                if current:
                    tokens.append(current)
                    current = ""
            elif char in PUNCT:
                if current:
                    tokens.append(current)
                    current = ""
                tokens.append(char)
            else:
                current += char
        if current:
            tokens.append(current)
    return tokens


def _is_identifier(token: str) -> bool:
    if token in KEYWORDS or token in WORD_OPS or token in ("cluster", "score"):
        return False
    if not any(c.isalpha() for c in token):
        return False
    return all(c.isalnum() or c in "_-" for c in token)


class _ConditionParser:
    """ recursive descent with the documented precedence not > and > or """
    def __init__(self, tokens: list) -> None:
        self.tokens = tokens
        self.pos = 0

    def peek(self) -> Optional[str]:
        return self.tokens[self.pos] if self.pos < len(self.tokens) else None

    def take(self, expected: Optional[str] = None) -> str:
        token = self.peek()
        if token is None or (expected is not None and token != expected):
            raise RefSyntaxError(f"expected {expected}, found {token}")
        self.pos += 1
        return token

    def parse_or(self, in_cds: bool) -> list:
        operands = [self.parse_and(in_cds)]
        while self.peek() == "or":
            self.take()
            operands.append(self.parse_and(in_cds))
        return operands[0] if len(operands) == 1 else ["or", operands]

    def parse_and(self, in_cds: bool) -> list:
        operands = [self.parse_single(in_cds)]
        while self.peek() == "and":
            self.take()
            operands.append(self.parse_single(in_cds))
        return operands[0] if len(operands) == 1 else ["and", operands]

    def parse_single(self, in_cds: bool) -> list:
        negated = False
        if self.peek() == "not":
            self.take()
            negated = True
        token = self.peek()
        if token == "(":
            self.take()
            node: list = ["group", self.parse_or(in_cds)]
            self.take(")")
        elif token == "minimum" and not in_cds:
            self.take()
            self.take("(")
            count = self.take()
            if not count.isdigit():
                raise RefSyntaxError("minimum count")
            self.take(",")
            self.take("[")
            names = [self.take_identifier()]
            while self.peek() == ",":
                self.take()
                names.append(self.take_identifier())
            self.take("]")
            self.take(")")
            node = ["minimum", int(count), names]
        elif token == "cds" and not in_cds:
            self.take()
            self.take("(")
            node = ["cds", self.parse_or(True)]
            self.take(")")
        elif token == "minscore":
            self.take()
            self.take("(")
            name = self.take_identifier()
            self.take(",")
            score = self.take()
            if not score.isdigit():
                raise RefSyntaxError("minscore value")
            self.take(")")
            node = ["minscore", name, int(score)]
        else:
            node = ["id", self.take_identifier()]
        return ["not", node] if negated else node

    def take_identifier(self) -> str:
        token = self.take()
        if not _is_identifier(token):
            raise RefSyntaxError(f"not an identifier: {token}")
        return token


def parse_file(text: str) -> dict:
    """ Reference parse of a rule file: returns {"rules": [...], "aliases": {...}} where each rule is
        {"name", "category", "description", "related", "superiors" (as written), "cutoff_kb",
         "neighbourhood_kb", "conditions" (AST), "extenders" (AST or None)}.
        Aliases are plain token substitution, expanded at definition time. """
    raw = tokenize(text)
    aliases: dict = {}

    def expand(tokens: list) -> list:
        out: list = []
        for token in tokens:
            if token in aliases:
                out.extend(aliases[token])
            else:
                out.append(token)
        return out

    rules = []
    pos = 0
    while pos < len(raw):
        token = raw[pos]
        if token == "DEFINE":
            name = raw[pos + 1]
            if raw[pos + 2] != "AS":
                raise RefSyntaxError("DEFINE without AS")
            end = pos + 3
            while end < len(raw) and raw[end] not in KEYWORDS:
                end += 1
            aliases[name] = expand(raw[pos + 3:end])
            pos = end
            continue
        if token != "RULE":
            raise RefSyntaxError(f"expected RULE, found {token}")
        end = pos + 1
        while end < len(raw) and raw[end] not in ("RULE", "DEFINE"):
            end += 1
        rules.append(_parse_rule_tokens(raw[pos:end], expand))
        pos = end
    return {"rules": rules, "aliases": aliases}


def _section(tokens: list, start: int) -> int:
    end = start
    while end < len(tokens) and tokens[end] not in KEYWORDS:
        end += 1
    return end


def _parse_rule_tokens(tokens: list, expand) -> dict:
    assert tokens[0] == "RULE"
    rule: dict = {"name": tokens[1], "description": "", "related": [], "superiors": [], "extenders": None}
    pos = 2
    while pos < len(tokens):
        key = tokens[pos]
        end = _section(tokens, pos + 1)
        body = tokens[pos + 1:end]
        if key == "CATEGORY":
            rule["category"] = body[0]
        elif key == "DESCRIPTION":
            rule["description"] = " ".join(body)
        elif key == "EXAMPLE":
            pass
        elif key == "RELATED":
            rule["related"] = [t for t in expand(body) if t != ","]
        elif key == "SUPERIORS":
            rule["superiors"] = [t for t in expand(body) if t != ","]
        elif key == "CUTOFF":
            rule["cutoff_kb"] = int(expand(body)[0])
        elif key == "NEIGHBOURHOOD":
            rule["neighbourhood_kb"] = int(expand(body)[0])
        elif key == "CONDITIONS":
            parser = _ConditionParser(expand(body))
            rule["conditions"] = parser.parse_or(False)
            if parser.peek() is not None:
                raise RefSyntaxError(f"trailing tokens in conditions: {parser.peek()}")
        elif key == "EXTENDERS":
            parser = _ConditionParser(expand(body))
            rule["extenders"] = parser.parse_single(False)
            if parser.peek() is not None:
                raise RefSyntaxError("trailing tokens in extenders")
        else:
            raise RefSyntaxError(f"unexpected keyword {key}")
        pos = end
    for needed in ("category", "cutoff_kb", "neighbourhood_kb", "conditions"):
        if needed not in rule:
            raise RefSyntaxError(f"missing {needed}")
    return rule


# --------------------------------------------------------------------------- reference evaluator

class World:
    """ genes with hits and an in-range relation.
        hits: {gene: {profile: bitscore}}; near: {gene: set of genes closer than the cutoff (incl. itself)} """
    def __init__(self, hits: dict, near: dict) -> None:
        self.hits = hits
        self.near = near


def evaluate(node: list, gene: str, world: World, local: bool = False) -> bool:
    kind = node[0]
    own = world.hits.get(gene, {})
    if kind == "id":
        if node[1] in own:
            return True
        if local:
            return False
        return any(node[1] in world.hits.get(other, {}) for other in world.near[gene] if other != gene)
    if kind == "minscore":
        name, score = node[1], node[2]
        if name in own and own[name] >= score:
            return True
        if local:
            return False
        return any(world.hits.get(other, {}).get(name, -1) >= score
                   for other in world.near[gene] if name in world.hits.get(other, {}))
    if kind == "minimum":
        count, names = node[1], set(node[2])
        total = 0
        for other in world.near[gene]:
            total += len(names & set(world.hits.get(other, {})))
        return total >= count
    if kind == "cds":
        if local:
            return evaluate(node[1], gene, world, True)
        return any(evaluate(node[1], other, world, True) for other in world.near[gene])
    if kind == "not":
        return not evaluate(node[1], gene, world, local)
    if kind == "group":
        return evaluate(node[1], gene, world, local)
    if kind == "and":
        return all(evaluate(sub, gene, world, local) for sub in node[1])
    if kind == "or":
        return any(evaluate(sub, gene, world, local) for sub in node[1])
    raise ValueError(kind)


def reasons(node: list, gene: str, world: World) -> set:
    """ the rule's profiles that hit the gene itself, a cds(...) group counting only when the gene
        satisfies the group itself and a minscore only when the gene's own score suffices """
    kind = node[0]
    own = world.hits.get(gene, {})
    if kind == "id":
        return {node[1]} if node[1] in own else set()
    if kind == "minscore":
        return {node[1]} if node[1] in own and own[node[1]] >= node[2] else set()
    if kind == "minimum":
        return set(node[2]) & set(own)
    if kind == "cds":
        if evaluate(node[1], gene, world, True):
            return _local_reasons(node[1], gene, world)
        return set()
    if kind in ("not", "group"):
        return reasons(node[1], gene, world)
    if kind in ("and", "or"):
        out: set = set()
        for sub in node[1]:
            out |= reasons(sub, gene, world)
        return out
    raise ValueError(kind)


def _local_reasons(node: list, gene: str, world: World) -> set:
    kind = node[0]
    own = world.hits.get(gene, {})
    if kind == "id":
        return {node[1]} if node[1] in own else set()
    if kind == "minscore":
        return {node[1]} if node[1] in own and own[node[1]] >= node[2] else set()
    if kind in ("not", "group"):
        return _local_reasons(node[1], gene, world)
    out: set = set()
    for sub in node[1]:
        out |= _local_reasons(sub, gene, world)
    return out
