""" The set-of-bases model of locations on a line [0,L) or a ring Z_L.

    A location spec is {"parts": [[start, end], ...], "strand": 1 | -1 | 0 | None}
    with parts in Biopython order.  Nothing here calls antiSMASH.
"""

from __future__ import annotations

from typing import Iterable, Optional


def bases(loc: dict) -> frozenset:
    result = set()
    for start, end in loc["parts"]:
        result.update(range(start, end))
    return frozenset(result)


def part_sets(loc: dict) -> list[frozenset]:
    return [frozenset(range(s, e)) for s, e in loc["parts"]]


def overlap(a: dict, b: dict) -> bool:
    for s1, e1 in a["parts"]:
        for s2, e2 in b["parts"]:
            if max(s1, s2) < min(e1, e2):
                return True
    return False


def contains(outer: dict, inner: dict) -> bool:
    """ each part of the inner lies inside one part of the outer """
    for s2, e2 in inner["parts"]:
        if not any(s1 <= s2 and e2 <= e1 for s1, e1 in outer["parts"]):
            return False
    return True


def dist_sets(a: Iterable[int], b: Iterable[int], length: Optional[int]) -> int:
    """ 0 if the sets share a base, else the number of bases strictly between the
        closest pair, the shorter way round when length is given (ring) """
    a = set(a)
    b = set(b)
    if a & b:
        return 0
    best = None
    for x in a:
        for y in b:
            d = abs(x - y)
            if length is not None:
                d = min(d, length - d)
            if best is None or d < best:
                best = d
    assert best is not None and best >= 1
    return best - 1


def _boundary(loc: dict) -> set:
    points = set()
    for start, end in loc["parts"]:
        points.add(start)
        points.add(end - 1)
    return points


def dist(a: dict, b: dict, length: Optional[int] = None) -> int:
    """ distance between two locations from their boundary bases only """
    if overlap(a, b):
        return 0
    return dist_sets(_boundary(a), _boundary(b), length)


def hull_line(base_set: Iterable[int]) -> tuple[int, int]:
    base_set = list(base_set)
    return min(base_set), max(base_set) + 1


def min_arcs(base_set: Iterable[int], length: int) -> list[tuple[int, int]]:
    """ All minimal covering arcs (start, arc_length) of a non-empty set on a ring:
        complements of the largest cyclic gaps. """
    points = sorted(set(base_set))
    if len(points) == length:
        return [(0, length)]
    gaps = []  # (gap_size, start_of_arc_after_gap)
    for i, point in enumerate(points):
        nxt = points[(i + 1) % len(points)]
        gap = (nxt - point - 1) % length
        gaps.append((gap, nxt))
    biggest = max(g for g, _ in gaps)
    return [(start, length - biggest) for gap, start in gaps if gap == biggest]


def arc_bases(start: int, arc_length: int, length: int) -> frozenset:
    return frozenset((start + i) % length for i in range(arc_length))


def extend(base_set: Iterable[int], distance: int, length: int, circular: bool) -> frozenset:
    """ all bases within `distance` of the (contiguous) set """
    base_set = set(base_set)
    result = set(base_set)
    for base in base_set:
        for delta in range(-distance, distance + 1):
            pos = base + delta
            if circular:
                result.add(pos % length)
            elif 0 <= pos < length:
                result.add(pos)
    return frozenset(result)


def extend_arc(start: int, arc_length: int, distance: int, length: int, circular: bool) -> frozenset:
    """ as extend() for a contiguous arc, O(result) """
    if circular:
        if arc_length + 2 * distance >= length:
            return frozenset(range(length))
        return arc_bases((start - distance) % length, arc_length + 2 * distance, length)
    return frozenset(range(max(0, start - distance), min(length, start + arc_length + distance)))


def rotate(base_set: Iterable[int], offset: int, length: int) -> frozenset:
    return frozenset((b + offset) % length for b in base_set)


def is_arc(base_set: Iterable[int], length: int) -> bool:
    """ True if the set is contiguous on the ring """
    base_set = set(base_set)
    if not base_set:
        return False
    if len(base_set) == length:
        return True
    boundaries = sum(1 for b in base_set if (b + 1) % length not in base_set)
    return boundaries == 1


def wellformed(loc: dict, length: Optional[int], span: bool = False) -> Optional[str]:
    """ None if fine, else a description of what is wrong """
    seen: set = set()
    for start, end in loc["parts"]:
        if not start < end:
            return f"empty or inverted part [{start}:{end})"
        if start < 0 or (length is not None and end > length):
            return f"part [{start}:{end}) outside the record of length {length}"
        chunk = set(range(start, end))
        if seen & chunk:
            return f"part [{start}:{end}) overlaps another part"
        seen |= chunk
    if span:
        if len(loc["parts"]) > 2:
            return "span with more than two parts"
        if len(loc["parts"]) == 2:
            (s1, e1), (s2, e2) = loc["parts"]
            if length is None:
                return "two-part span without a wrap point"
            if e1 != length or s2 != 0:
                return "two-part span whose first part does not end at the record end / second does not start at 0"
    return None


# ---------------------------------------------------------------- conversions

def from_bio(location) -> dict:
    """ reads only .parts[i].start/.end/.strand of a Biopython-style location """
    return {"parts": [[int(p.start), int(p.end)] for p in location.parts],
            "strand": location.strand}


def arc_to_loc(start: int, arc_length: int, length: int, strand: Optional[int] = 1) -> dict:
    """ location spec for an arc, using the documented part order for origin-spanning
        locations (forward: [a:L),[0:b) ; reverse: [0:b),[a:L)) """
    end = start + arc_length
    if end <= length:
        return {"parts": [[start, end]], "strand": strand}
    parts = [[start, length], [0, end - length]]
    if strand == -1:
        parts.reverse()
    return {"parts": parts, "strand": strand}
