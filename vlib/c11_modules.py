""" C11, second part: result classes of further modules (helper module of checks/c11_results_reuse.py).

    Every subcheck here follows the same plan as the ones in the check module: the results object is produced by
    the module's own code from generated content (HMMER/BLAST/MEME front ends replaced by generated hits, never an
    external binary), saved through antismash.common.json, regenerated on a fresh copy of the record at
    Class.from_json / module.regenerate_previous_results + run_on_record / main.run_module, applied the way
    main.py applies it, and compared byte for byte (JSON) and on the record snapshot (effects).

    Shared helpers live in the check module and are fetched lazily (the check imports this module).
"""

from __future__ import annotations

import contextlib
import os
import shutil
import tempfile
import types
from unittest import mock

from hypothesis import strategies as st

from vlib import gen
from vlib.build import make_cds, make_record, to_loc
from vlib.runner import Violation

LEVELS = ("class", "module", "main")


def _b():
    import checks.c11_results_reuse as base
    return base


class Rerun(Exception):
    """ raised in place of an analysis that would be run again (= the saved results were not reused) """


def block(*targets):
    """ context manager: the given (object, attribute) analysis entry points raise Rerun """
    def rerun(*_args, **_kwargs):
        raise Rerun("the analysis would be run again")
    stack = contextlib.ExitStack()
    for owner, name in targets:
        stack.enter_context(mock.patch.object(owner, name, rerun))
    return stack


class Kit:
    """ what the driver needs to know about one module; subclasses override """
    name = ""
    schema_key = "schema_version"
    levels = LEVELS
    normalisers: tuple = ()     # ((name, JSON -> JSON), ...): each hides the differences of one listed root cause
    ignored = None              # JSON -> JSON applied to both sides before anything is compared (witness specs only)

    def configure(self, spec: dict) -> None:
        """ per-spec adjustments, called before anything else """

    def module(self):
        raise NotImplementedError

    def cls(self):
        raise NotImplementedError

    def record(self, spec: dict, rid: str, variant=None):
        raise NotImplementedError

    def options(self, spec: dict, env: dict):
        return _b()._options([])

    def original(self, spec: dict, record, options):
        """ the results of the first run (through run_on_record where the module can be driven that way) """
        raise NotImplementedError

    def rerun_blocked(self):
        """ context manager that makes a re-analysis raise Rerun """
        return contextlib.nullcontext()

    def load(self, data: dict, record):
        """ the 'class' entry point """
        return self.cls().from_json(data, record)

    def apply(self, results, record) -> None:
        results.add_to_record(record)

    def mutate(self, change: dict, data: dict, env: dict) -> str:
        """ module specific settings; returns 'strict' (must be refused) or 'lenient' (refused or unchanged) """
        raise AssertionError(change["kind"])

    def fresh_text(self, spec: dict, env: dict, options):
        """ optional: the JSON text of a from-scratch run under the settings of a step (None = not computable) """
        return None

    def describe(self, spec: dict, original) -> tuple:
        return True, []

    def cleanup(self) -> None:
        """ removes scratch data, if the kit made any """

    def same_content(self, original, again):
        """ optional: None, or a description of how the regenerated object differs from the original by the
            classes' own __eq__ (for results that leave nothing in the record, where lost fields would
            otherwise be invisible: both JSON texts lack them) """
        return None


def _regenerate(kit: Kit, level: str, data: dict, record, options) -> tuple:
    base = _b()
    from antismash import main

    def work():
        module = kit.module()
        if level == "class":
            return kit.load(data, record)
        with kit.rerun_blocked(), base._no_external_tools():
            if level == "module":       # the two calls main.run_module makes
                previous = module.regenerate_previous_results(data, record, options)
                return module.run_on_record(record, previous, options)
            options.all_enabled_modules = [module]
            module_results = {module.__name__: data}
            main.run_module(record, module, options, module_results, {})
            return module_results.get(module.__name__)
    return base._guard(work)


def _compare(kind: str, got: str, want: str, where: dict, deferred, kit: Kit) -> None:
    """ kind: 'json' or 'effects'. Differences that vanish under one of the kit's normalisers (applied one after
        the other) are kept back as '<kind>_<name>' until everything else was compared """
    base = _b()
    if got == want:
        return
    one, two = base._loads(got), base._loads(want)
    if kit.ignored is not None:
        one, two = kit.ignored(one), kit.ignored(two)
        if one == two:
            return
    for name, normalise in kit.normalisers:
        one, two = normalise(one), normalise(two)
        if one == two:
            deferred.note(f"{kind}_{name}", dict(where, difference=base._text_diff(got, want)))
            return
    label = "json_identity" if kind == "json" else "effects"
    raise Violation(label, dict(where, difference=base._first_diff(one, two) if kit.normalisers
                                else base._text_diff(got, want)))


def drive(spec: dict, kit: Kit) -> dict:
    base = _b()
    try:
        return _drive(spec, kit)
    finally:
        base._cleanup()
        kit.cleanup()


def _drive(spec: dict, kit: Kit) -> dict:
    base = _b()
    kit.configure(spec)
    env0 = {"rid": spec["rid"], "variant": None}
    options = kit.options(spec, env0)
    built = base._guard(lambda: kit.record(spec, spec["rid"]))
    if built[0] != "ok":
        return {"nontrivial": False, "classes": ["record_failed_" + built[1]]}
    record = built[1]
    made = base._guard(lambda: kit.original(spec, record, options))
    if made[0] != "ok":
        return {"nontrivial": False, "classes": ["original_failed_" + made[1]]}
    original = made[1]
    if not isinstance(original, kit.cls()):
        raise AssertionError(f"{kit.name}: original is {type(original).__name__}")
    texts = {"pre": base._dumps(original.to_json())}
    applied0 = base._guard(lambda: kit.apply(original, record))[:2]
    texts["post"] = base._dumps(original.to_json())
    snap0 = base._guard(lambda: base._snapshot(record))

    deferred = base._Deferred()
    classes: set = set()
    changed = False
    repeated = False
    current = dict(texts)
    for number, step in enumerate(spec["steps"]):
        level = step["level"]
        data = base._loads(current[step.get("src", "post")])
        change = step.get("change")
        env = dict(env0)
        mode = ""
        if change:
            changed = True
            classes.add(f"change_{change['kind']}")
            if change["kind"] == "schema":
                mode = "strict"
                if change["value"] == "missing":
                    data.pop(kit.schema_key)
                else:
                    data[kit.schema_key] = change["value"]
            elif change["kind"] == "record_id":
                mode = "record"
                env["rid"] = change["value"]
            elif change["kind"] == "other_record":
                mode = "record"
                env["rid"] = change["value"][0]
                env["variant"] = change["value"][1]
            elif change["kind"] == "other_content":
                mode = "other_content"
            else:
                mode = kit.mutate(change, data, env)
        options = kit.options(spec, env)
        if mode == "other_content":     # same id, but one gene carries another name
            fresh = kit.record(base._other_content(spec, change["value"]), env["rid"], env["variant"])
        else:
            fresh = kit.record(spec, env["rid"], env["variant"])
        where = {"step": number, "level": level, "from": step.get("src", "post"), "change": change}
        outcome = _regenerate(kit, level, data, fresh, options)
        classes.add(f"level_{level}")
        if change:
            if base._refused(outcome):
                classes.add("refused")
                continue
            again = outcome[1]
            text = base._dumps(again.to_json())
            if mode == "other_content":
                # refusal, or results that save exactly what was loaded - never a silent subset
                base._compare_text("other_record_partly_reused", text, texts["pre"], where)
                classes.add("other_content_not_consulted")
                continue
            if mode == "strict":
                raise Violation("changed_setting_reused", dict(where, returned=type(again).__name__))
            if mode == "record":
                # results that still belong to the other record are fine as long as they refuse this one;
                # results for this record are fine when they are what a run from scratch gives
                applied = base._guard(lambda: kit.apply(again, fresh))[:2]
                if applied[0] == "exc" and applied != applied0:
                    classes.add("refused_on_apply")
                    continue
                if level == "class":
                    # the guard may sit in run_on_record, the second call main.run_module makes ...
                    with kit.rerun_blocked(), base._no_external_tools():
                        second = base._guard(lambda: kit.module().run_on_record(fresh, again, options))
                    if second[0] == "exc" and second[1] == "Rerun":
                        classes.add("refused_by_run_on_record")
                        continue
                    # ... or in regenerate_previous_results, the first one (from_json alone is then not the
                    # module's answer)
                    other = kit.record(spec, env["rid"], env["variant"])
                    whole = _regenerate(kit, "module", base._loads(current[step.get("src", "post")]), other, options)
                    if base._refused(whole):
                        classes.add("refused_by_regenerate")
                        continue
                wanted = kit.fresh_text(spec, env, options)
                if wanted is not None and text == wanted:
                    classes.add("other_record_as_from_scratch")
                    continue
                # kept back like the other listed root causes, so that the rest of the history is still judged
                deferred.note("other_record_reused", dict(where, saved_for=getattr(again, "record_id", None),
                                                          applied_to=fresh.id,
                                                          from_scratch="differs" if wanted is not None else "n/a"))
                classes.add("other_record_reused")
                continue
            if mode == "fresh":
                # the module may adapt to the new setting, but then it must give what a run from scratch gives
                wanted = kit.fresh_text(spec, env, options)
                if wanted is None:
                    raise AssertionError("mode 'fresh' needs fresh_text")
                base._compare_text("changed_setting_reinterpreted", text, wanted, where)
                classes.add("adapted_as_from_scratch")
                continue
            classes.add("kept_saved_setting")       # lenient: identical to the saved results, checked below
        elif outcome[0] == "exc":
            raise Violation("regenerate_failed", dict(where, exception=outcome[1], message=outcome[2]))
        elif outcome[1] is None:
            raise Violation("regenerate_discarded", where)
        again = outcome[1]
        if not isinstance(again, kit.cls()):
            raise Violation("regenerate_type", dict(where, returned=type(again).__name__))
        pre_text = base._dumps(again.to_json())
        _compare("json", pre_text, texts["pre"], dict(where, stage="pre"), deferred, kit)
        unequal = kit.same_content(original, again)
        if unequal:
            raise Violation("content", dict(where, difference=unequal))
        if not change and not repeated:
            repeated = True
            base._regenerate_again(lambda used: _regenerate(kit, level, used, kit.record(spec, env["rid"]), options),
                                   data, pre_text, lambda results: base._dumps(results.to_json()), where, classes)
        applied = base._guard(lambda: kit.apply(again, fresh))[:2]
        if applied != applied0:
            raise Violation("apply_outcome", dict(where, original=applied0, regenerated=applied))
        post_text = base._dumps(again.to_json())
        _compare("json", post_text, texts["post"], dict(where, stage="post"), deferred, kit)
        snap = base._guard(lambda: base._snapshot(fresh))
        if snap[0] != snap0[0]:
            raise Violation("effects", dict(where, original=snap0[:2] if snap0[0] == "exc" else "ok",
                                            regenerated=snap[:2] if snap[0] == "exc" else "ok"))
        if snap[0] == "ok":
            _compare("effects", snap[1], snap0[1], where, deferred, kit)
        current = {"pre": pre_text, "post": post_text}
    nontrivial, labels = kit.describe(spec, original)
    classes.update(labels)
    classes.add(f"steps_{len(spec['steps'])}")
    if applied0[0] == "exc":
        classes.add("apply_raises_" + str(applied0[1]))
    deferred.raise_if_any()
    return {"nontrivial": bool(nontrivial) or changed, "classes": sorted(classes)}


def std_changes(schema_values: list, extra: list = ()) -> list:
    return [{"kind": "schema", "values": schema_values},
            {"kind": "record_id", "values": ["rec2", "rec1 ", "REC1"]}] + list(extra)


def other_content(genes: list) -> dict:
    """ the change 'same record id, but the gene with this index carries another name' """
    return {"kind": "other_content", "values": list(range(len(genes)))}


def history(levels: tuple, changes: list, change_odds: int = 2):
    return _b().simple_history(levels, changes, change_odds=change_odds)


# --------------------------------------------------------------------------- shared record building

def codon_genes(draw, length: int, max_genes: int = 5, min_size: int = 30, size_hint: int = 240) -> list:
    """ single-exon genes made of whole codons on a linear record (so that protein ranges map back) """
    genes = draw(gen.gene_layout(length, False, max_genes=max_genes, min_genes=2, size_hint=size_hint,
                                 allow_span=False, multi_exon=False))
    kept, seen = [], set()
    for gene in genes:
        part = gene["loc"]["parts"][0]
        part[1] -= (part[1] - part[0]) % 3
        key = (part[0], part[1], gene["loc"]["strand"])
        if part[1] - part[0] >= min_size and key not in seen:
            seen.add(key)
            kept.append(gene)
    if not kept:
        kept = [{"name": "g0", "loc": {"parts": [[3, 3 + 3 * (min_size // 3 + 10)]], "strand": 1, "kind": "simple"}}]
    for index, gene in enumerate(kept):
        gene["name"] = f"g{index}"
    return kept


def add_genes(record, genes: list, with_gene_features: bool = False) -> None:
    from antismash.common.secmet.features import Gene
    for gene in genes:
        record.add_cds_feature(make_cds(gene["loc"], gene["name"], translation=gene.get("translation")))
        if with_gene_features:
            record.add_gene(Gene(to_loc(gene["loc"]), locus_tag=gene["name"]))


def add_areas(record, protoclusters: list = (), subregions: list = (), regions: bool = True) -> None:
    """ protoclusters: [{"core": [s, e], "surround": [s, e], "product": .., "category": ..}] """
    from antismash.common.secmet.features import Protocluster, SubRegion
    from antismash.common.secmet.locations import FeatureLocation
    for area in protoclusters:
        record.add_protocluster(Protocluster(FeatureLocation(area["core"][0], area["core"][1], 1),
                                             FeatureLocation(area["surround"][0], area["surround"][1], 1),
                                             tool="rule-based-clusters", product=area["product"], cutoff=20,
                                             neighbourhood_range=area["core"][0] - area["surround"][0],
                                             detection_rule="generated",
                                             product_category=area.get("category", "other")))
    for start, end in subregions:
        record.add_subregion(SubRegion(FeatureLocation(start, end, 1), tool="verif"))
    if regions:
        record.create_candidate_clusters()
        record.create_regions()


# =========================================================================== pfam2go

PFAM2GO_NAMES = {"p450": "PF00067.25", "ABC_tran": "PF00005.30", "AAA": "PF00004.32", "ketoacyl-synt": "PF00109.29",
                 "PP-binding": "PF00550.28", "Alpha-2-MRAP_C": "PF15454.1"}
PFAM2GO_DATABASE = os.path.join(os.sep, "verif-no-such-dir", "pfam", "35.0", "Pfam-A.hmm")


class Pfam2GoKit(Kit):
    name = "pfam2go"

    def module(self):
        from antismash.modules import pfam2go
        return pfam2go

    def cls(self):
        from antismash.modules.pfam2go.pfam2go import Pfam2GoResults
        return Pfam2GoResults

    def options(self, spec, env):
        return _b()._options(["--pfam2go"])

    def record(self, spec, rid, variant=None):
        """ a record that already went through full_hmmer: PFAM domains from HmmerResults.add_to_record;
            variant 'extra' = the other record has one more domain """
        from antismash.common import hmmer, pfamdb
        record = make_record(spec["L"], False, record_id=rid)
        add_genes(record, spec["genes"])
        pfamdb.KNOWN_MAPPINGS[PFAM2GO_DATABASE] = dict(PFAM2GO_NAMES)
        hsps = list(spec["hsps"]) + (list(spec["extra_hsps"]) if variant == "extra" else [])
        by_profile: dict = {}
        for hsp in hsps:
            by_profile.setdefault(hsp["hit_id"], []).append(types.SimpleNamespace(
                query_id=hsp["gene"], hit_id=hsp["hit_id"], query_start=hsp["s"], query_end=hsp["e"],
                evalue=1e-20, bitscore=50.5, hit_description="generated"))
        fake = [types.SimpleNamespace(id=name, hsps=found) for name, found in by_profile.items()]
        hits = hmmer.build_hits(record, fake, 0., 0.01, PFAM2GO_DATABASE)
        hmmer.HmmerResults(record.id, 0.01, 0., PFAM2GO_DATABASE, "fullhmmer", hits).add_to_record(record)
        return record

    def original(self, spec, record, options):
        return self.module().run_on_record(record, None, options)

    def rerun_blocked(self):
        return block((self.module(), "get_gos_for_pfams"))

    def fresh_text(self, spec, env, options):
        twin = self.record(spec, env["rid"], env["variant"])
        return _b()._dumps(self.module().run_on_record(twin, None, options).to_json())

    def describe(self, spec, original):
        with_go = sum(1 for found in original.pfam_domains_with_gos.values() if found)
        labels = [f"domains_with_go_{min(with_go, 3)}"]
        if any(hsp["hit_id"] in ("ketoacyl-synt", "PP-binding") for hsp in spec["hsps"]):
            labels.append("domain_without_go")
        if len({hsp["hit_id"] for hsp in spec["hsps"]}) < len(spec["hsps"]):
            labels.append("same_pfam_twice")
        return with_go >= 1, labels


def check_pfam2go(spec: dict) -> dict:
    return drive(spec, Pfam2GoKit())


@st.composite
def _hsps_on(draw, genes: list, names: list, low: int, high: int) -> list:
    hsps = []
    for _ in range(draw(st.integers(low, high))):
        gene = draw(st.sampled_from(genes))
        amino = (gene["loc"]["parts"][0][1] - gene["loc"]["parts"][0][0]) // 3 - 1
        start = draw(st.integers(0, amino - 2))
        end = draw(st.integers(start + 1, amino))
        hsps.append({"gene": gene["name"], "hit_id": draw(st.sampled_from(names)), "s": start, "e": end})
    return hsps


@st.composite
def pfam2go_specs(draw) -> dict:
    length = draw(st.integers(400, 1500))
    genes = codon_genes(draw, length)
    names = sorted(PFAM2GO_NAMES)
    hsps = draw(_hsps_on(genes, names, 0, 6))
    used = {hsp["hit_id"] for hsp in hsps}
    unused = [name for name in names if name not in used and name not in ("ketoacyl-synt", "PP-binding")]
    extra = draw(_hsps_on(genes, unused, 1, 1)) if unused else []
    changes = std_changes([0, 2, "1", "missing", None])
    if extra:
        changes.append({"kind": "other_record", "values": [["rec2", "extra"]]})
    steps = draw(history(LEVELS, changes))
    return {"L": length, "genes": genes, "rid": "rec1", "hsps": hsps, "extra_hsps": extra, "steps": steps}


# =========================================================================== tfbs_finder (real MOODS run)

TFBS_BACKGROUND = ["GCCGGCGCGCCGGGCTGA", "ATGAAATTATTAAATTAA", "GGCTTAGGCTTAGGCTTC", "ACGTTGCAAGCTTCGAAC",
                   "CCGGAATTCCGGTTAACC", "GGGCCCGGGCCCAAAGGG"]
_IUPAC = {"N": "A", "S": "G", "R": "A", "Y": "C", "K": "G", "M": "A", "W": "T", "B": "C", "D": "G", "H": "T", "V": "G"}


def tfbs_consensus_sites() -> list:
    """ concrete sites for the shipped matrices (read once, when the strategies are built) """
    from antismash.modules.tfbs_finder import tfbs_finder
    sites = []
    for matrix in tfbs_finder.load_matrices(tfbs_finder.PWM_PATH):
        sites.append("".join(_IUPAC.get(char, char) for char in matrix.consensus.upper()))
    return sorted(set(sites))


def _tfbs_sequence(spec: dict) -> str:
    seq = "".join(TFBS_BACKGROUND[index] for index in spec["blocks"])
    for position, site in spec["sites"]:
        seq = seq[:position] + site + seq[position + len(site):]
    return seq[:18 * len(spec["blocks"])]


class TFBSKit(Kit):
    name = "tfbs"

    def module(self):
        from antismash.modules import tfbs_finder
        return tfbs_finder

    def cls(self):
        from antismash.modules.tfbs_finder.tfbs_finder import TFBSFinderResults
        return TFBSFinderResults

    def options(self, spec, env):
        pvalue = env.get("pvalue", spec["pvalue"])
        overlap = env.get("range", spec["range"])
        return _b()._options(["--tfbs", "--tfbs-pvalue", repr(float(pvalue)), "--tfbs-range", str(int(overlap))])

    def record(self, spec, rid, variant=None):
        from antismash.common.secmet.features import SubRegion
        seq = _tfbs_sequence(spec)
        record = make_record(len(seq), spec["circular"], seq=seq, record_id=rid)
        add_genes(record, spec["genes"])
        for area in spec["areas"]:
            record.add_subregion(SubRegion(to_loc({"parts": area, "strand": 1}), tool="verif"))
        record.create_candidate_clusters()
        record.create_regions()
        return record

    def original(self, spec, record, options):
        return self.module().run_on_record(record, None, options)

    def rerun_blocked(self):
        return block((self.module(), "run_tfbs_finder"))

    def mutate(self, change, data, env):
        if change["kind"] == "pvalue":
            env["pvalue"] = change["value"]
        elif change["kind"] == "range":
            env["range"] = change["value"]
        else:
            raise AssertionError(change["kind"])
        return "strict"

    def describe(self, spec, original):
        hits = [hit for found in original.hits_by_region.values() for hit in found]
        labels = [f"hits_{min(len(hits), 3)}", f"regions_{min(len(original.hits_by_region), 3)}",
                  "circular" if spec["circular"] else "linear"]
        if any(hit.strand == -1 for hit in hits):
            labels.append("reverse_strand_hit")
        labels.extend(sorted({f"confidence_{hit.confidence}" for hit in hits}))
        if any(len(area) > 1 for area in spec["areas"]):
            labels.append("region_over_origin")
        return len(hits) >= 1, labels


def check_tfbs(spec: dict) -> dict:
    return drive(spec, TFBSKit())


@st.composite
def tfbs_specs(draw) -> dict:
    consensus = tfbs_consensus_sites()
    blocks = draw(st.lists(st.integers(0, len(TFBS_BACKGROUND) - 1), min_size=20, max_size=60))
    length = 18 * len(blocks)
    circular = draw(st.integers(0, 3)) == 0
    genes = draw(gen.gene_layout(length, False, max_genes=5, min_genes=1, size_hint=90, allow_span=False,
                                 multi_exon=False))
    sites = []
    for _ in range(draw(st.integers(0, 5))):
        site = draw(st.sampled_from(consensus))
        if draw(st.integers(0, 3)) == 0:      # weaken it: one mismatch
            index = draw(st.integers(0, len(site) - 1))
            site = site[:index] + draw(st.sampled_from("ACGT")) + site[index + 1:]
        position = draw(gen.coord(0, length - len(site), anchors=tuple(p for g in genes for part in g["loc"]["parts"]
                                                                        for p in part)))
        sites.append([position, site])
    shape = draw(st.integers(0, 5))
    if circular and shape == 0:
        cut = draw(st.integers(length // 2 + 1, length - 10))
        areas = [[[cut, length], [0, draw(st.integers(10, length // 2 - 1))]]]
    elif shape == 1 and length >= 200:
        areas = [[[0, length // 2 - 20]], [[length // 2 + 20, length]]]
    else:
        areas = [[[0, length]]]
    pvalue = draw(st.sampled_from([1e-05, 1e-05, 0.0001, 1e-06]))
    overlap = draw(st.sampled_from([50, 50, 10, 200]))
    changes = std_changes([0, 2, "1", "missing", None], [
        {"kind": "pvalue", "values": [value for value in (1e-05, 0.0001, 1e-06, 0.001) if value != pvalue]},
        {"kind": "range", "values": [value for value in (50, 10, 200, 49) if value != overlap]}])
    steps = draw(history(LEVELS, changes))
    return {"blocks": blocks, "sites": sites, "circular": circular, "genes": genes, "areas": areas,
            "pvalue": pvalue, "range": overlap, "rid": "rec1", "steps": steps}


# =========================================================================== t2pks

T2PKS_HMM_IDS = ["KS", "CLF_7", "CLF_8|9", "CLF_11|12", "CYC_C7-C12", "CYC_C5-C14", "CYC_C5-C14/C3-C16",
                 "CYC_C4-C17/C2-C19", "CYC_C9-C14", "KR_C9", "KR_C15", "OXY_ring", "MET_C6", "GT_x", "HAL_cl", "ACP",
                 "KSIII", "AT", "AMID", "LIG", "DIMER"]
T2PKS_BLAST_IDS = {"KSIII": ["KSIII_ADG86328.1_A-74528_hexadienyl-CoA", "KSIII_AAF70109.1_Aclacinomycin_propionyl"],
                   "AT": ["AT_ADG86309.1_A-74528_hexadienyl-CoA", "AT_BAB72049.1_Aklavinone_propionyl"],
                   "AMID": ["AMID_AEI98663.1_Chlortetracycline_malonamyl-CoA"],
                   "LIG": ["LIG_CCA65703.1_Aurachin_anthraniloyl"]}


def _sorted_lists_at(keys: tuple):
    def normalise(data):
        if isinstance(data, dict):
            return {key: (sorted(value, key=repr) if key in keys and isinstance(value, list) else normalise(value))
                    for key, value in data.items()}
        if isinstance(data, list):
            return [normalise(item) for item in data]
        return data
    return normalise


class T2PKSKit(Kit):
    name = "t2pks"
    normalisers = (("set_order", _sorted_lists_at(("product_classes",))),)

    def module(self):
        from antismash.modules import t2pks
        return t2pks

    def cls(self):
        from antismash.modules.t2pks.results import T2PKSResults
        return T2PKSResults

    def options(self, spec, env):
        return _b()._options(["--enable-t2pks"])

    def record(self, spec, rid, variant=None):
        record = make_record(spec["L"], False, record_id=rid)
        add_genes(record, spec["genes"])
        add_areas(record, spec["protoclusters"])
        return record

    def original(self, spec, record, options):
        from antismash.common.hmmscan_refinement import HMMResult
        module = self.module()

        def hits_of(table):
            return {name: [HMMResult(hit[0], 0, 100, hit[2], hit[1]) for hit in found]
                    for name, found in table.items() if found}

        def fake_hmmscan(cds_features):
            wanted = {cds.get_name() for cds in cds_features}
            return {name: hits for name, hits in hits_of(spec["hmm_hits"]).items() if name in wanted}

        def fake_blastp(cds_hmm_hits):
            wanted = {cds.get_name() for cds in cds_hmm_hits}
            found = {name: hits for name, hits in hits_of(spec["blast_hits"]).items() if name in wanted}
            for hits in found.values():       # as run_starter_unit_blastp finishes
                for index, hit in enumerate(hits):
                    if not hit.hit_id.endswith("-CoA"):
                        hits[index] = HMMResult(hit.hit_id + "-CoA", hit.query_start, hit.query_end, hit.evalue,
                                                hit.bitscore)
            return found
        from antismash.modules.t2pks import t2pks_analysis
        with mock.patch.object(t2pks_analysis, "run_t2pks_hmmscan", fake_hmmscan), \
                mock.patch.object(t2pks_analysis, "run_starter_unit_blastp", fake_blastp):
            return module.run_on_record(record, None, options)

    def rerun_blocked(self):
        return block((self.module(), "analyse_cluster"))

    def describe(self, spec, original):
        preds = list(original.cluster_predictions.values())
        labels = [f"predictions_{min(len(preds), 3)}"]
        if any(len(pred.product_classes) >= 2 for pred in preds):
            labels.append("product_classes_multi")
        if any(pred.molecular_weights for pred in preds):
            labels.append("weights")
        if any(len(pred.starter_units) >= 2 for pred in preds):
            labels.append("starters_multi")
        if any(len(found) >= 2 for pred in preds for found in pred.cds_predictions.values()):
            labels.append("cds_with_two_predictions")
        return any(pred.cds_predictions for pred in preds), labels


def check_t2pks(spec: dict) -> dict:
    return drive(spec, T2PKSKit())


@st.composite
def _cluster_layout(draw, products: list, categories: dict = None, max_clusters: int = 2) -> tuple:
    """ a linear record with genes and 1-2 non-overlapping protoclusters of the given products """
    length = draw(st.integers(900, 2400))
    genes = codon_genes(draw, length, max_genes=8, min_size=30, size_hint=150)
    count = draw(st.integers(1, max_clusters))
    bounds = [0, length] if count == 1 else [0, length // 2 - 5, length // 2 + 5, length]
    clusters = []
    for index in range(count):
        low, high = bounds[2 * index], bounds[2 * index + 1]
        inner = draw(st.integers(0, min(60, (high - low) // 4)))
        product = draw(st.sampled_from(products))
        clusters.append({"core": [low + inner, high - inner], "surround": [low, high], "product": product,
                         "category": (categories or {}).get(product, "other")})
    return length, genes, clusters


@st.composite
def t2pks_specs(draw) -> dict:
    length, genes, clusters = draw(_cluster_layout(["T2PKS", "T2PKS", "T2PKS", "NRPS"]))
    clusters[0]["product"] = "T2PKS"
    clusters[0]["category"] = "PKS"
    scores = [35.5, 120.0, 401.25]
    evalues = [1e-40, 2.5e-12, 0.001]
    hmm_hits, blast_hits = {}, {}
    for gene in genes:
        found = []
        for hit_id in draw(st.lists(st.sampled_from(T2PKS_HMM_IDS), max_size=3, unique=True)):
            found.append([hit_id, draw(st.sampled_from(scores)), draw(st.sampled_from(evalues))])
        if found:
            hmm_hits[gene["name"]] = found
        blast = []
        for hit in found:
            if hit[0] in T2PKS_BLAST_IDS and draw(st.booleans()):
                blast.append([draw(st.sampled_from(T2PKS_BLAST_IDS[hit[0]])), draw(st.sampled_from(scores)),
                              draw(st.sampled_from(evalues))])
        if blast:
            blast_hits[gene["name"]] = blast
    steps = draw(history(LEVELS, std_changes([2, 4, 0, "3", "missing", None], [other_content(genes)])))
    return {"L": length, "genes": genes, "protoclusters": clusters, "hmm_hits": hmm_hits, "blast_hits": blast_hits,
            "rid": "rec1", "steps": steps}


# =========================================================================== terpene

def terpene_profiles() -> list:
    """ [name, length, cutoff] of the shipped terpene profiles (read once, when the strategies are built) """
    from antismash.modules.terpene.data_loader import load_hmm_properties
    return [[hmm.name, hmm.length, hmm.cutoff] for hmm in load_hmm_properties().values()]


class TerpeneKit(Kit):
    name = "terpene"

    def module(self):
        from antismash.modules import terpene
        return terpene

    def cls(self):
        from antismash.modules.terpene.results import TerpeneResults
        return TerpeneResults

    def options(self, spec, env):
        return _b()._options(["--enable-terpene"])

    def record(self, spec, rid, variant=None):
        record = make_record(spec["L"], False, record_id=rid)
        add_genes(record, spec["genes"])
        add_areas(record, spec["protoclusters"])
        return record

    def original(self, spec, record, options):
        from antismash.modules.terpene import terpene_analysis

        def fake_hmmscan(cds_features):
            wanted = {cds.get_name() for cds in cds_features}
            hsps = [types.SimpleNamespace(query_id=hsp["gene"], hit_id=hsp["hit_id"], query_start=hsp["s"],
                                          query_end=hsp["e"], evalue=hsp["ev"], bitscore=hsp["sc"])
                    for hsp in spec["hsps"] if hsp["gene"] in wanted]
            return [types.SimpleNamespace(hsps=hsps)]
        with mock.patch.object(terpene_analysis, "run_terpene_hmmscan", fake_hmmscan):
            return self.module().run_on_record(record, None, options)

    def rerun_blocked(self):
        return block((self.module(), "analyse_cluster"))

    def same_content(self, original, again):
        if list(original.cluster_predictions) != list(again.cluster_predictions):
            return "protocluster numbers"
        for number, prediction in original.cluster_predictions.items():
            if prediction != again.cluster_predictions[number]:      # ProtoclusterPrediction.__eq__
                return f"prediction of protocluster {number}"
        return None

    def describe(self, spec, original):
        preds = list(original.cluster_predictions.values())
        domains = [dom for pred in preds for found in pred.cds_predictions.values() for dom in found]
        labels = [f"clusters_{min(len(preds), 3)}", f"domains_{min(len(domains), 3)}"]
        for flag, label in ((any(dom.reactions for dom in domains), "reactions"),
                            (any(dom.subtypes for dom in domains), "subtypes"),
                            (any(len(dom.subtypes) > 1 for dom in domains), "subtypes_multi"),
                            (any(dom.domain_type == "ambiguous" for dom in domains), "ambiguous_domain"),
                            (any(pred.products for pred in preds), "products")):
            if flag:
                labels.append(label)
        return len(domains) >= 1, labels


def check_terpene(spec: dict) -> dict:
    return drive(spec, TerpeneKit())


@st.composite
def terpene_specs(draw) -> dict:
    profiles = terpene_profiles()
    genes = []
    pos = draw(st.integers(0, 60))
    for index in range(draw(st.integers(1, 4))):
        amino = draw(st.sampled_from([150, 320, 420, 700]))
        strand = draw(st.sampled_from([1, -1]))
        genes.append({"name": f"g{index}", "loc": {"parts": [[pos, pos + 3 * amino + 3]], "strand": strand,
                                                   "kind": "simple"}})
        pos += 3 * amino + 3 + draw(st.integers(0, 90))
    length = pos + draw(st.integers(1, 60))
    categories = {"terpene": "terpene", "terpene-precursor": "terpene", "NRPS": "NRPS"}
    count = draw(st.integers(1, 2))
    clusters = []
    for index in range(count):
        product = "terpene" if index == 0 else draw(st.sampled_from(sorted(categories)))
        inner = draw(st.integers(0, 20))
        clusters.append({"core": [inner + 2 * index, length - inner], "surround": [index, length],
                         "product": product, "category": categories[product]})
    hsps = []
    for gene in genes:
        amino = (gene["loc"]["parts"][0][1] - gene["loc"]["parts"][0][0]) // 3 - 1
        anchor = None
        for _ in range(draw(st.integers(0, 3))):
            name, size, cutoff = draw(st.sampled_from(profiles))
            span = max(1, min(amino, int(size * draw(st.sampled_from([0.3, 0.51, 0.9, 1.0])))))
            if anchor is not None and draw(st.booleans()):
                start = min(anchor, amino - span)        # overlapping a previous hit: one domain
            else:
                start = draw(st.integers(0, amino - span))
            anchor = start
            hsps.append({"gene": gene["name"], "hit_id": name, "s": start, "e": start + span,
                         "ev": draw(st.sampled_from([1e-80, 3.5e-20, 1e-05])),
                         "sc": float(cutoff) + draw(st.sampled_from([-5.0, 0.0, 0.5, 60.25]))})
    steps = draw(history(LEVELS, std_changes([0, 2, "1", "missing", None], [other_content(genes)])))
    return {"L": length, "genes": genes, "protoclusters": clusters, "hsps": hsps, "rid": "rec1", "steps": steps}


# =========================================================================== active site finder

ASF_ALPHABET = "ACDEFGHIKLMNPQRSTVWYSYNGSSSDHCHGT"


class AsfKit(Kit):
    name = "asf"
    schema_key = "schema version"

    def module(self):
        from antismash.modules import active_site_finder
        return active_site_finder

    def cls(self):
        return self.module().ASFResults

    def options(self, spec, env):
        return _b()._options(["--asf"])

    def record(self, spec, rid, variant=None):
        """ a record that already went through nrps_pks_domains (and full_hmmer for the p450 analysis) """
        from antismash.common.secmet.features import PFAMDomain
        from antismash.common.secmet.locations import FeatureLocation
        base = _b()
        record = base._nrps_record(spec, rid)
        base._nrps_generate(spec, record).add_to_record(record)
        for index, (gene_index, start, end) in enumerate(spec["p450"]):
            cds = record.get_cds_by_name(spec["genes"][gene_index]["name"])
            location = cds.get_sub_location_from_protein_coordinates(start, end)
            pfam = PFAMDomain(location, description="Cytochrome P450", protein_location=FeatureLocation(start, end),
                              identifier="PF00067.25", tool="fullhmmer", locus_tag=cds.get_name())
            pfam.domain = "p450"
            pfam.domain_id = f"fullhmmer_{cds.get_name()}_{index + 1:04d}"
            pfam.translation = cds.translation[start:end]
            record.add_pfam_domain(pfam)
        return record

    def original(self, spec, record, options):
        from antismash.modules.active_site_finder import common
        shift, skip = spec["asf"]

        def fake_alignments(analysis):
            found = []
            for index, domain in enumerate(analysis.domains_of_interest):
                if (index + skip) % 4 == 0:
                    continue          # no hit for this domain
                offset = (7 * index + shift + len(analysis.target_domain)) % len(ASF_ALPHABET)
                query = (ASF_ALPHABET[offset:] + ASF_ALPHABET[:offset]) * 14
                found.append(common.Alignment(domain, query, "x" * len(query), 0, len(query)))
            return found
        with mock.patch.object(common.ActiveSiteAnalysis, "get_alignments", fake_alignments):
            return self.module().run_on_record(record, None, options)

    def rerun_blocked(self):
        return block((self.module(), "run_all_analyses"))

    def describe(self, spec, original):
        labels = [f"pairings_{min(len(original.pairings), 3)}"]
        if any(len(found) >= 2 for _, found in original.pairings):
            labels.append("domain_with_two_labels")
        if any(type(domain).__name__ == "PFAMDomain" for domain, _ in original.pairings):
            labels.append("pfam_domain_pairing")
        return len(original.pairings) >= 1, labels


def check_asf(spec: dict) -> dict:
    return drive(spec, AsfKit())


@st.composite
def asf_specs(draw) -> dict:
    spec = draw(_b().nrps_specs())
    spec.pop("steps")
    p450 = []
    for _ in range(draw(st.sampled_from([0, 1, 1, 2]))):
        index = draw(st.integers(0, len(spec["genes"]) - 1))
        p450.append([index, 1, 9])
    spec["p450"] = p450
    spec["asf"] = [draw(st.integers(0, len(ASF_ALPHABET) - 1)), draw(st.integers(0, 3))]
    spec["steps"] = draw(history(LEVELS, std_changes([0, 2, "1", "missing", None], [other_content(spec["genes"])])))
    return spec


# =========================================================================== smcog trees

class SmcogKit(Kit):
    name = "smcog"

    def __init__(self) -> None:
        self.scratch = tempfile.mkdtemp(prefix="verif_c11_")

    def cleanup(self) -> None:
        shutil.rmtree(self.scratch, ignore_errors=True)

    def module(self):
        from antismash.modules import smcog_trees
        return smcog_trees

    def cls(self):
        return self.module().SMCOGTreeResults

    def options(self, spec, env):
        # the disk follows the step's settings: a hidden tree image is the changed setting of this module
        tree_dir = os.path.join(self.scratch, "smcogs")
        if os.path.isdir(tree_dir):
            for name in sorted(os.listdir(tree_dir)):
                if name.endswith(".hidden"):
                    os.rename(os.path.join(tree_dir, name), os.path.join(tree_dir, name[:-len(".hidden")]))
            hide = env.get("hide_tree")
            images = sorted(name for name in os.listdir(tree_dir) if name.endswith(".png"))
            if hide is not None and images:
                name = images[hide % len(images)]
                os.rename(os.path.join(tree_dir, name), os.path.join(tree_dir, name + ".hidden"))
                env["hidden"] = name
        return _b()._options(["--smcog-trees", "--output-dir", self.scratch])

    def record(self, spec, rid, variant=None):
        from antismash.common.secmet.qualifiers import GeneFunction
        record = make_record(spec["L"], False, record_id=rid)
        add_genes(record, spec["genes"])
        for name, smcog in spec["smcogs"].items():      # what the genefunctions module leaves behind
            record.get_cds_by_name(name).gene_functions.add(GeneFunction.ADDITIONAL, "smcogs", smcog)
        add_areas(record, subregions=spec["subregions"])
        return record

    def original(self, spec, record, options):
        from antismash.common import subprocessing
        from antismash.modules.smcog_trees import trees

        def fake_tree(cds, _number, _smcog, output_dir):
            with open(os.path.join(output_dir, cds.get_name() + ".png"), "w", encoding="utf-8") as handle:
                handle.write("png")
        with mock.patch.object(trees, "smcog_tree_analysis", fake_tree), \
                mock.patch.object(subprocessing, "parallel_function",
                                  lambda func, args, **_kwargs: [func(*arg) for arg in args]):
            return self.module().run_on_record(record, None, options)

    def rerun_blocked(self):
        return block((self.module(), "generate_trees"))

    def mutate(self, change, data, env):
        if change["kind"] != "tree_missing":
            raise AssertionError(change["kind"])
        env["hide_tree"] = change["value"]
        return "strict" if data["tree_paths"] else "lenient"

    def describe(self, spec, original):
        return len(original.tree_images) >= 1, [f"trees_{min(len(original.tree_images), 3)}"]


def check_smcog(spec: dict) -> dict:
    return drive(spec, SmcogKit())


@st.composite
def smcog_specs(draw) -> dict:
    length = draw(st.integers(600, 1500))
    genes = codon_genes(draw, length, max_genes=6)
    smcogs = {}
    for gene in genes:
        if draw(st.integers(0, 2)):
            smcogs[gene["name"]] = draw(st.sampled_from(["SMCOG1001: short-chain dehydrogenase/reductase SDR",
                                                         "SMCOG1048: sensor histidine kinase", "SMCOG1212: x"]))
    subregions = [[0, length]] if draw(st.integers(0, 2)) else [[0, length // 2]]
    changes = std_changes([1, 3, "2", "missing", None], [{"kind": "tree_missing", "values": [0, 1, 2]}])
    steps = draw(history(("module", "main", "class"), changes))
    for step in steps:
        if step["change"] and step["change"]["kind"] == "tree_missing" and step["level"] == "class":
            step["level"] = "module"      # only regenerate_previous_results looks at the files
    return {"L": length, "genes": genes, "smcogs": smcogs, "subregions": subregions, "rid": "rec1", "steps": steps}


# =========================================================================== RiPP precursor modules

RIPP_PEPTIDES = [
    "MSTKDFNLDLVSVSKKDSGASPRITSISLCTPGCKTGALMGCNMKTATCHCSIHVSK",
    "MIKHFHFNKLSSGKKNNVPSPAKGVIQIKKSASQLTKGGAGHVPEYFVGIGTPISFYGSCTTCVCTCSCSS",
    "MKKAVIVENKGCATCSIGAACLVDGPIPDFEIAGATGLFGLWGSCTTCVCTCSCSF",
    "MSEMELNLNDLPMDVFEMADSGMEVESLTAGHGMPEVGASCNCVCGFCCSCSPSA",
    "MKTSCCSTSCGTAACSTSLCAGSCT",
]
_CODONS = {"A": "GCC", "C": "TGC", "D": "GAC", "E": "GAG", "F": "TTC", "G": "GGC", "H": "CAC", "I": "ATC", "K": "AAG",
           "L": "CTG", "M": "ATG", "N": "AAC", "P": "CCG", "Q": "CAG", "R": "CGC", "S": "TCC", "T": "ACC", "V": "GTC",
           "W": "TGG", "Y": "TAC"}
# stop codons in all six frames, no start codon followed by 20 sense codons
RIPP_FILLER = "TAGCTAGTTAACTAGCTAATTAGTCA"
RIPP_FAMILIES = {
    "lanthi": {"package": "lanthipeptides", "products": ["lanthipeptide-class-i", "lanthipeptide-class-ii",
                                                        "lanthipeptide-class-iii"],
               "cores": {"lanthipeptide-class-i": ["Lant_dehydr_N", "LANC_like"], "lanthipeptide-class-ii": ["DUF4135"],
                         "lanthipeptide-class-iii": ["Pkinase"]},
               "entry": "run_specific_analysis", "cls": "LanthiResults", "flag": "--enable-lanthipeptides"},
    "lasso": {"package": "lassopeptides", "products": ["lassopeptide"], "cores": {"lassopeptide": ["PF13471"]},
              "entry": "run_analysis", "cls": "LassoResults", "flag": "--enable-lassopeptides"},
    "sacti": {"package": "sactipeptides", "products": ["sactipeptide"], "cores": {"sactipeptide": ["PF04055"]},
              "entry": "specific_analysis", "cls": "SactiResults", "flag": "--enable-sactipeptides"},
    "thio": {"package": "thiopeptides", "products": ["azole-containing-RiPP"],
             "cores": {"azole-containing-RiPP": ["YcaO", "Lant_dehydr_C"]},
             "entry": "specific_analysis", "cls": "ThioResults", "flag": "--enable-thiopeptides"},
}


def _revcomp(seq: str) -> str:
    return seq[::-1].translate(str.maketrans("ACGT", "TGCA"))


def _ripp_layout(spec: dict) -> tuple:
    """ -> (sequence, [(start, end, element)]) """
    pieces, placed = [], []
    pos = 0
    for element in spec["layout"]:
        if element["kind"] == "filler":
            dna = (RIPP_FILLER * (element["n"] // len(RIPP_FILLER) + 1))[:element["n"]]
        elif element["kind"] == "orf":
            dna = "".join(_CODONS[amino] for amino in RIPP_PEPTIDES[element["pep"]]) + "TAA"
            if element["strand"] == -1:
                dna = _revcomp(dna)
        else:   # an ordinary gene: the builder's translation, the sequence below is never translated
            dna = ("GCCGGCACC" * (element["size"] // 9 + 1))[:element["size"]]
        placed.append((pos, pos + len(dna), element))
        pieces.append(dna)
        pos += len(dna)
    return "".join(pieces), placed


class _Described(list):
    """ a list with a description, what the HMMER2 parser gives per hit """
    description = ""


def _without_precursor_function(data):
    """ normaliser: the 'predicted <family>peptide' gene function written while the analysis runs """
    if isinstance(data, dict):
        if isinstance(data.get("qualifiers"), dict) and data.get("type") == "CDS":
            qualifiers = dict(data["qualifiers"])
            functions = [text for text in qualifiers.get("gene_functions", [])
                         if "peptides) predicted " not in text]
            qualifiers.pop("gene_functions", None)
            qualifiers.pop("gene_kind", None)
            if functions:
                qualifiers["gene_functions"] = functions
            return dict(data, qualifiers=qualifiers)
        return {key: _without_precursor_function(value) for key, value in data.items()}
    if isinstance(data, list):
        return [_without_precursor_function(item) for item in data]
    return data


class RippKit(Kit):
    def __init__(self, family: str) -> None:
        self.family = family
        self.info = RIPP_FAMILIES[family]
        self.name = family
        sort_lists = _sorted_lists_at(("new_cds_features", "protoclusters with motifs"))

        def set_order(data):
            data = sort_lists(data)
            if isinstance(data, dict) and isinstance(data.get("protoclusters"), dict):
                data = dict(data, protoclusters={key: sorted(value) for key, value in data["protoclusters"].items()})
            return data
        self.normalisers = (("set_order", set_order), ("precursor_function", _without_precursor_function))

    def configure(self, spec):
        if spec.get("order_witness"):
            # the committed witness of the set-order finding: every RiPP result with a motif also shows the lost
            # precursor gene function, which has its own entry and witness; it is left out of this one so that
            # the witness stops failing when the order alone is repaired
            self.ignored = _without_precursor_function

    def module(self):
        import importlib
        return importlib.import_module(f"antismash.modules.{self.info['package']}")

    def analysis(self):
        import importlib
        return importlib.import_module(f"antismash.modules.{self.info['package']}.specific_analysis")

    def cls(self):
        return getattr(self.analysis(), self.info["cls"])

    def options(self, spec, env):
        return _b()._options([self.info["flag"]])

    def record(self, spec, rid, variant=None):
        from antismash.common.secmet.qualifiers import GeneFunction, SecMetQualifier
        seq, placed = _ripp_layout(spec)
        record = make_record(len(seq), False, seq=seq, record_id=rid)
        number = 0
        for start, end, element in placed:
            if element["kind"] == "filler" or (element["kind"] == "orf" and not element["annotated"]):
                continue
            name = f"g{number}"
            number += 1
            if element["kind"] == "orf":
                cds = make_cds({"parts": [[start, end]], "strand": element["strand"]}, name,
                               translation=RIPP_PEPTIDES[element["pep"]])
            else:
                cds = make_cds({"parts": [[start, end]], "strand": element["strand"]}, name)
                if element.get("domains"):      # what hmm_detection leaves behind
                    cds.sec_met = SecMetQualifier([SecMetQualifier.Domain(dom, 1e-20, 100.5, 10, "rule-based-clusters")
                                                   for dom in element["domains"]])
                    cds.gene_functions.add(GeneFunction.CORE, "rule-based-clusters", element["domains"][0],
                                           spec["protoclusters"][0]["product"])
            record.add_cds_feature(cds)
        add_areas(record, spec["protoclusters"])
        return record

    # ---- replacements of the HMMER / BLAST / SVM front ends, decisions read from spec["rule"]
    def _accepts(self, sequence: str) -> bool:
        rule = self._rule
        return len(sequence) > rule["cut"] + 9 and (rule["parity"] == 2 or len(sequence) % 2 == rule["parity"])

    def _fake_hmmpfam2(self, profile: str, fasta: str, *_args, **_kwargs) -> list:
        rule = self._rule
        sequence = fasta.split("\n", 1)[1].strip() if "\n" in fasta else fasta
        name = os.path.basename(profile)
        hits = _Described()
        if name in ("class1.hmm", "class2.hmm", "class3.hmm"):
            hits.description = {"class1.hmm": "Class-I", "class2.hmm": "Class-II", "class3.hmm": "Class-III"}[name]
            if self._accepts(sequence):
                hits.append(types.SimpleNamespace(bitscore=rule["score"], query_end=rule["cut"], query_start=1))
        elif name in ("precursor_2637.hmm", "thio_cleave.hmm"):
            if self._accepts(sequence):
                extra = 14 if name == "thio_cleave.hmm" else 1
                hits.append(types.SimpleNamespace(bitscore=rule["score"], query_end=rule["cut"] + extra, query_start=1))
        elif name == "tail_cut.hmm":
            if rule["tail"] and len(sequence) > rule["tail"] + 2:
                hits.append(types.SimpleNamespace(bitscore=5.5, query_start=len(sequence) - rule["tail"] - 1,
                                                  query_end=len(sequence)))
        elif name == "thio_tail.hmm":
            if rule["tail"] and len(sequence) > rule["tail"]:
                hits.append(types.SimpleNamespace(bitscore=1.5, query_start=1,
                                                  query_end=len(sequence) - rule["tail"] + 1))
        elif name == "thiopep2.hmm":
            hits.append(types.SimpleNamespace(bitscore=3.5, query_start=1, query_end=len(sequence)))
        else:
            raise AssertionError(f"unexpected HMMER2 profile {name}")
        return [[hits]] if hits else []

    def _fake_hmmscan(self, _profile: str, fasta: str, *_args, **_kwargs) -> list:
        found = []
        for chunk in fasta.split(">")[1:]:
            name, sequence = chunk.split("\n", 1)
            hsps = []
            if self._accepts(sequence.replace("\n", "")):
                hsps.append(types.SimpleNamespace(bitscore=20.5, query_start=2))
            found.append(types.SimpleNamespace(id=name.strip(), hsps=hsps))
        return found

    def _fake_blast(self, database, query_sequences: dict, _threshold, _options) -> dict:
        from antismash.common.comparippson.data_structures import Hit, Segment
        hits = {}
        for index, (name, core) in enumerate(query_sequences.items()):
            if index >= self._rule["blast_hits"]:
                break
            size = max(1, len(core) - 2)
            hits[name] = [Hit(name, {"accession": f"BGC000{count}", "compounds": "nisin A", "type": "lanthipeptide"},
                              size - count, Segment(core[:size], 1, size, len(core)),
                              Segment(core[:size], 3, size + 2, size + 4)) for count in range(self._rule["blast_hits"])]
        return hits

    def original(self, spec, record, options):
        from antismash.common import subprocessing
        from antismash.common.comparippson import analysis as comp_analysis
        from antismash.common.comparippson.databases import ComparippsonDatabase
        self._rule = spec["rule"]
        analysis = self.analysis()
        database = ComparippsonDatabase("MIBiG", "3.1", "https://mibig.secondarymetabolites.org/go/@accession@",
                                        "@accession@", "@compounds@ (@type@)", ["accession", "compounds", "type"],
                                        "mibig")
        rodeo = spec["rule"]["rodeo"]
        domains = list(spec["rule"]["domains"])
        with contextlib.ExitStack() as stack:
            stack.enter_context(mock.patch.object(subprocessing, "run_hmmpfam2", self._fake_hmmpfam2))
            stack.enter_context(mock.patch.object(subprocessing, "run_hmmscan", self._fake_hmmscan))
            stack.enter_context(mock.patch.object(comp_analysis, "run_simple_blastp", self._fake_blast))
            stack.enter_context(mock.patch.object(comp_analysis, "get_databases", lambda _options: [database]))
            if self.family == "lanthi":
                stack.enter_context(mock.patch.object(analysis, "run_rodeo", lambda *args: rodeo))
                stack.enter_context(mock.patch.object(analysis, "get_detected_domains", lambda genes: domains))
            elif self.family == "lasso":
                stack.enter_context(mock.patch.object(analysis, "run_rodeo", lambda *args: (rodeo >= 15, rodeo)))
            elif self.family == "sacti":
                stack.enter_context(mock.patch.object(analysis, "run_rodeo", lambda *args: (rodeo >= 15, rodeo)))
                stack.enter_context(mock.patch.object(analysis, "run_non_biosynthetic_phmms", lambda fasta: {}))
                stack.enter_context(mock.patch.object(analysis, "get_detected_domains",
                                                      lambda cluster: {name: 1 for name in domains}))
            else:
                stack.enter_context(mock.patch.object(analysis, "run_rodeo", lambda *args: (rodeo >= 15, rodeo)))
                stack.enter_context(mock.patch.object(analysis, "get_detected_domains", lambda cluster: set(domains)))
            return self.module().run_on_record(record, None, options)

    def rerun_blocked(self):
        return block((self.module(), self.info["entry"]))

    def describe(self, spec, original):
        if self.family == "thio":
            motifs = list(original.motifs)
            new_cds = [cds for found in original._cds_features.values() for cds in found]
            clusters = len(original.clusters_with_motifs)
        else:
            motifs = [motif for found in original.motifs_by_locus.values() for motif in found]
            new_cds = list(original._new_cds_features)
            clusters = len(original.clusters)
        labels = [f"motifs_{min(len(motifs), 3)}", f"new_cds_{min(len(new_cds), 3)}", f"clusters_{min(clusters, 3)}"]
        if any(motif.tail for motif in motifs):
            labels.append("motif_with_tail")
        if any(motif.location.strand == -1 for motif in motifs):
            labels.append("reverse_strand_motif")
        results = original.comparippson_results
        if results and any(db.hits for db in results.db_results):
            labels.append("comparippson_hits")
        if results and results.aliases:
            labels.append("comparippson_aliases")
        if self.family == "lanthi":
            labels.extend(sorted({f"class_{motif.peptide_subclass}" for motif in motifs}))
        return len(motifs) >= 1, labels


def check_lanthi(spec: dict) -> dict:
    return drive(spec, RippKit("lanthi"))


def check_lasso(spec: dict) -> dict:
    return drive(spec, RippKit("lasso"))


def check_sacti(spec: dict) -> dict:
    return drive(spec, RippKit("sacti"))


def check_thio(spec: dict) -> dict:
    return drive(spec, RippKit("thio"))


def ripp_specs(family: str):
    info = RIPP_FAMILIES[family]

    @st.composite
    def build(draw) -> dict:
        product = draw(st.sampled_from(info["products"]))
        layout = [{"kind": "filler", "n": draw(st.integers(30, 90))}]
        core_placed = False
        for index in range(draw(st.integers(2, 7))):
            choice = draw(st.integers(0, 5))
            if choice <= 2 or (index >= 1 and not core_placed and choice == 3):
                layout.append({"kind": "orf", "pep": draw(st.integers(0, len(RIPP_PEPTIDES) - 1)),
                               "strand": draw(st.sampled_from([1, -1])), "annotated": draw(st.booleans())})
            else:
                domains = []
                if not core_placed or draw(st.integers(0, 2)) == 0:
                    domains = list(info["cores"][product])
                    core_placed = True
                elif draw(st.booleans()):
                    domains = [draw(st.sampled_from(["Flavoprotein", "Trp_halogenase", "p450", "adh_short", "PCMT"]))]
                layout.append({"kind": "gene", "size": 3 * draw(st.integers(30, 110)),
                               "strand": draw(st.sampled_from([1, -1])), "domains": domains})
            layout.append({"kind": "filler", "n": draw(st.integers(6, 120))})
        if not core_placed:
            layout.append({"kind": "gene", "size": 300, "strand": 1, "domains": list(info["cores"][product])})
            layout.append({"kind": "filler", "n": 40})
        length = len(_ripp_layout({"layout": layout})[0])
        clusters = [{"core": [5, length - 5], "surround": [0, length], "product": product, "category": "RiPP"}]
        if draw(st.integers(0, 3)) == 0:      # a second protocluster of the family over the same genes
            clusters.append({"core": [8, length - 2], "surround": [1, length], "category": "RiPP",
                             "product": draw(st.sampled_from(info["products"]))})
        rule = {"cut": draw(st.sampled_from([8, 15, 22, 30])), "score": draw(st.sampled_from([5.5, 12.25, 40.0])),
                "parity": draw(st.sampled_from([2, 2, 2, 0, 1])), "rodeo": draw(st.sampled_from([10, 22, 22, 30])),
                "tail": draw(st.sampled_from([0, 0, 2, 4])), "blast_hits": draw(st.sampled_from([0, 1, 2])),
                "domains": draw(st.lists(st.sampled_from(["Lant_dehydr_N", "YcaO", "PF00733", "thio_amide",
                                                          "Radical_SAM", "TIGR03604", "PF00881"]), max_size=3,
                                         unique=True))}
        schema = {"lanthi": [4, 6], "lasso": [2, 4], "sacti": [2, 4], "thio": [2, 4]}[family]
        steps = draw(history(LEVELS, std_changes(schema + [0, "3", "missing", None])))
        return {"layout": layout, "protoclusters": clusters, "rule": rule, "rid": "rec1", "steps": steps}
    return build()


def lanthi_specs():
    return ripp_specs("lanthi")


def lasso_specs():
    return ripp_specs("lasso")


def sacti_specs():
    return ripp_specs("sacti")


def thio_specs():
    return ripp_specs("thio")


# =========================================================================== cassis

def _promoters_once(data):
    """ normaliser: promoter features that are exact copies of one another count once; the features are then put
        in a canonical order, because the record's ordering of features that start together (promoter, gene,
        subregion, CDS) depends on how many of them there are (C10's subject), so the copies also move others """
    if isinstance(data, dict) and isinstance(data.get("features"), list):
        seen, kept = set(), []
        for feature in data["features"]:
            key = repr(sorted(feature.items(), key=repr))
            if feature.get("type") == "promoter":
                if key in seen:
                    continue
                seen.add(key)
            kept.append((key, feature))
        return dict(data, features=[feature for _, feature in sorted(kept, key=lambda pair: pair[0])])
    return data


class CassisKit(Kit):
    name = "cassis"
    normalisers = (("promoters_twice", _promoters_once),)
    schema_key = "max_percentage"       # the module's stand-in for a schema version: its two constants

    def module(self):
        from antismash.detection import cassis
        return cassis

    def cls(self):
        return self.module().CassisResults

    def options(self, spec, env):
        return _b()._options(["--cassis", "--taxon", "fungi"])

    def record(self, spec, rid, variant=None):
        from antismash.common.secmet.qualifiers import GeneFunction
        record = make_record(spec["L"], False, record_id=rid)
        add_genes(record, spec["genes"], with_gene_features=True)
        for name in spec["anchors"]:       # what hmm_detection leaves behind
            record.get_cds_by_name(name).gene_functions.add(GeneFunction.CORE, "rule-based-clusters", "PKS_KS", "T1PKS")
        return record

    def original(self, spec, record, options):
        from antismash.detection.cassis.cluster_prediction import ClusterMarker, ClusterPrediction
        from antismash.detection.cassis.motifs import Motif
        module = self.module()

        def marker(data: dict):
            made = ClusterMarker(data["gene"], Motif(data["plus"], data["minus"], score=data["score"]))
            made.abundance = data["abundance"]
            made.promoter = data["promoter"]
            return made

        def predictions_for(anchor, promoters, _record, _ignored, _options):
            found = []
            for data in spec["predictions"].get(anchor, []):
                prediction = ClusterPrediction(marker(data["start"]), marker(data["end"]))
                prediction.genes = data["genes"]
                prediction.promoters = data["promoters"]
                found.append(prediction)
            return found
        with mock.patch.object(module, "get_predictions_for_anchor", predictions_for), \
                mock.patch.object(module, "write_promoters_to_file", lambda *args: None), \
                mock.patch.object(module, "cleanup_outdir", lambda *args: None):
            return module.run_on_record(record, None, options)     # stores the promoters in the record itself

    def rerun_blocked(self):
        return block((self.module(), "detect"))

    def load(self, data, record):
        # from_json alone is never what the pipeline runs: the promoters of reused results are stored as well
        results = self.cls().from_json(data, record)
        if results is not None:
            results.add_to_record(record)
        return results

    def apply(self, results, record) -> None:
        # AREA_REFINEMENT stage of main.run_detection
        for protocluster in results.get_predicted_protoclusters():
            record.add_protocluster(protocluster)
        for subregion in results.get_predicted_subregions():
            record.add_subregion(subregion)

    def mutate(self, change, data, env):
        if change["kind"] != "gap_length":
            raise AssertionError(change["kind"])
        data["max_gap_length"] = change["value"]
        return "strict"

    def describe(self, spec, original):
        labels = [f"subregions_{min(len(original.subregions), 3)}", f"promoters_{min(len(original.promoters), 3)}"]
        if any(type(promoter).__name__ == "CombinedPromoter" for promoter in original.promoters):
            labels.append("combined_promoter")
        if len(original.get_predicted_subregions()) < len(original.subregions):
            labels.append("contained_subregion_filtered")
        return len(original.promoters) >= 1, labels


def check_cassis(spec: dict) -> dict:
    return drive(spec, CassisKit())


@st.composite
def cassis_specs(draw) -> dict:
    genes = []
    pos = draw(st.integers(0, 1500))
    for index in range(draw(st.integers(3, 8))):
        size = 3 * draw(st.integers(20, 200))
        genes.append({"name": f"g{index}", "loc": {"parts": [[pos, pos + size]], "strand": draw(st.sampled_from([1, -1])),
                                                   "kind": "simple"}})
        pos += size + draw(st.sampled_from([0, 5, 60, 400, 1200, 2500]))
    length = pos + draw(st.integers(1, 1200))
    names = [gene["name"] for gene in genes]
    anchors = draw(st.lists(st.sampled_from(names), min_size=1, max_size=2, unique=True))
    predictions = {}
    for anchor in anchors:
        found = []
        for _ in range(draw(st.integers(0, 3))):
            first = draw(st.integers(0, len(genes) - 1))
            last = draw(st.integers(first, len(genes) - 1))

            def marker(gene: str) -> dict:
                return {"gene": gene, "plus": draw(st.integers(0, 15)), "minus": draw(st.integers(0, 15)),
                        "score": draw(st.sampled_from([1.2e-10, 3.5e-05, 0.042, 1e-300])),
                        "abundance": draw(st.integers(1, 9)), "promoter": draw(st.sampled_from([gene, gene + "+x"]))}
            found.append({"start": marker(names[first]), "end": marker(names[last]), "genes": last - first + 1,
                          "promoters": draw(st.integers(1, last - first + 1))})
        if found:
            predictions[anchor] = found
    changes = [{"kind": "schema", "values": [13.0, 15, "14", "missing", None]},
               {"kind": "gap_length", "values": [1, 3, "2", None]},
               {"kind": "record_id", "values": ["rec2", "rec1 ", "REC1"]}]
    steps = draw(history(LEVELS, changes))
    return {"L": length, "genes": genes, "anchors": sorted(anchors), "predictions": predictions, "rid": "rec1",
            "steps": steps}


# =========================================================================== nrps_pks (substrate specificities)

NP_SUBSTRATES = ["Gly", "Ala", "Ser", "Val", "Orn", "Phe"]
NP_MINOWA_AT = ["Malonyl-CoA", "Methylmalonyl-CoA", "Ethylmalonyl-CoA", "Methoxymalonyl-CoA", "inactive"]
NP_MINOWA_CAL = ["Acetyl-CoA", "AHBA", "fatty_acid", "NH2", "shikimic_acid"]
NP_AT_SHORT = ["mal", "mmal", "emal", "mxmal"]


class NrpsPksKit(Kit):
    name = "nrps_pks"
    normalisers = (("empty_predictions", lambda data: _without_empty_predictions(data)),
                   ("aa_signatures_swapped", lambda data: _swap_back(data)))

    def module(self):
        from antismash.modules import nrps_pks
        return nrps_pks

    def cls(self):
        from antismash.modules.nrps_pks.results import NRPS_PKS_Results
        return NRPS_PKS_Results

    def options(self, spec, env):
        return _b()._options(["--enable-nrps-pks"])

    def record(self, spec, rid, variant=None):
        """ a record that already went through hmm_detection (protoclusters) and nrps_pks_domains """
        base = _b()
        layout, length = base._nrps_layout(spec["genes"])
        record = make_record(length, False, record_id=rid)
        for gene, (start, end, protein) in zip(spec["genes"], layout):
            record.add_cds_feature(make_cds({"parts": [[start, end]], "strand": gene["strand"]}, gene["name"],
                                            translation=("M" + "ACDEFGHIKLMNPQRSTVWY" * (protein // 20 + 1))[:protein]))
        cut = spec.get("region_cut")
        bounds = [(0, length)]
        if cut:
            middle = layout[cut - 1][1] + 10
            bounds = [(0, middle), (middle + 10, length)]
        clusters = []
        for index, (start, end) in enumerate(bounds):
            product, category = spec["products"][index % len(spec["products"])]
            clusters.append({"core": [start + 2, end - 2], "surround": [start, end], "product": product,
                             "category": category})
        add_areas(record, clusters)
        base._nrps_generate(spec, record).add_to_record(record)
        return record

    def original(self, spec, record, options):
        import importlib
        specific_analysis = importlib.import_module("antismash.modules.nrps_pks.specific_analysis")
        orderfinder = importlib.import_module("antismash.modules.nrps_pks.orderfinder")
        substrates_pks = importlib.import_module("antismash.modules.nrps_pks.substrates_pks")
        from antismash.modules.nrps_pks.at_analysis.at_analysis import ATPrediction, ATResult
        from antismash.modules.nrps_pks.c_analysis import c_analysis
        from antismash.modules.nrps_pks.data_structures import SimplePrediction
        from antismash.modules.nrps_pks.minowa.base import MinowaPrediction
        from antismash.modules.nrps_pks.name_mappings import get_substrate_by_name
        from antismash.modules.nrps_pks.nrpys import PredictorSVMResult, StachelhausMatch, SvmPrediction
        seed = spec["np"]["seed"]

        def pick(options_list, index, shift=0):
            return options_list[(seed + 3 * index + shift) % len(options_list)]

        def fake_nrpys(a_domains, _options):
            found = {}
            for index, domain in enumerate(a_domains):
                if (index + seed) % 5 == 0:
                    continue            # no signature could be extracted
                first = get_substrate_by_name(pick(NP_SUBSTRATES, index))
                second = get_substrate_by_name(pick(NP_SUBSTRATES, index, 1))
                aa10 = ("DAWTIAAVCK" if index % 2 else "DILQLGLIWK")
                aa34 = ("L" + "-" * (11 if (index + seed) % 4 == 0 else 2) + "SFDASLFEMYLLTGGDRNMYGPTEATMCATW")[:34]
                quality = [1.0, 0.9, 0.7, 0.5][(seed + index) % 4]
                matches = [StachelhausMatch([first], aa10, quality, 0.88)]
                if (seed + index) % 3 == 0:
                    matches.append(StachelhausMatch([first, second], aa10[::-1], quality, 0.5))
                svm = [SvmPrediction(name, 0.5 + 0.1 * level, [first] if level else [first, second])
                       for level, name in enumerate(["hydrophobic-aliphatic", "Gly,Ala", "Gly", first.short])]
                if (seed + index) % 6 == 1:
                    svm[3] = SvmPrediction("N/A", 0.0, [])
                found[domain.get_name()] = PredictorSVMResult(aa34, aa10, matches, *svm)
            return found

        def fake_c(c_domains):
            activities, sites = {}, {}
            for index, (name, c_type, _seq) in enumerate(c_domains):
                if (index + seed) % 4 == 0:
                    activities[name] = SimplePrediction("c_activity", "unknown")
                    continue
                signature = pick(["SHAQYDG", "MHHILFD", "DHAIVDG"], index)
                sites[name] = SimplePrediction("c_activesite", signature)
                activities[name] = SimplePrediction("c_activity", c_analysis.is_active(signature, c_type))
            return {"c_activity": activities, "c_activesite": sites}

        def fake_signature(at_domains):
            found = {}
            for index, name in enumerate(at_domains):
                results = {}
                for rank in range((seed + index) % 3):
                    monomer = pick(NP_AT_SHORT, index, rank)
                    results[monomer] = ATResult(monomer, "QQGHSQGRSHT", 95.5 - 10 * rank * ((seed + index) % 2))
                found[name] = ATPrediction(results)
            return found

        def fake_minowa(names):
            def run(sequence_info):
                return {name: MinowaPrediction([(pick(names, index, rank), 120.5 - 30 * rank) for rank in range(3)])
                        for index, name in enumerate(sequence_info)}
            return run

        def fake_terminus(count):
            def run(_data_dir, cds_features, skipped):
                return {cds.get_name(): pick(["AB", "KE", "RD", "EK"], index)[:count]
                        for index, cds in enumerate(cds_features) if cds is not skipped}
            return run
        with contextlib.ExitStack() as stack:
            stack.enter_context(mock.patch.object(specific_analysis, "run_nrpys", fake_nrpys))
            stack.enter_context(mock.patch.object(c_analysis, "run_c_analysis", fake_c))
            stack.enter_context(mock.patch.object(substrates_pks.at_analysis, "run_at_domain_analysis", fake_signature))
            stack.enter_context(mock.patch.object(substrates_pks.minowa_at, "run_minowa_at", fake_minowa(NP_MINOWA_AT)))
            stack.enter_context(mock.patch.object(substrates_pks.minowa_cal, "run_minowa_cal",
                                                  fake_minowa(NP_MINOWA_CAL)))
            stack.enter_context(mock.patch.object(orderfinder, "extract_nterminus", fake_terminus(2)))
            stack.enter_context(mock.patch.object(orderfinder, "extract_cterminus", fake_terminus(2)))
            return self.module().run_on_record(record, None, options)

    def rerun_blocked(self):
        return block((self.module(), "specific_analysis"))

    def describe(self, spec, original):
        methods = {method for found in original.domain_predictions.values() for method in found}
        labels = sorted(f"method_{method}" for method in methods)
        regions = [pred for found in original.region_predictions.values() for pred in found]
        labels.append(f"candidate_predictions_{min(len(regions), 3)}")
        if any(pred.domain_docking_used for pred in regions):
            labels.append("docking_order")
        if any(pred.smiles for pred in regions):
            labels.append("smiles")
        if original.consensus:
            labels.append("consensus")
        return bool(original.domain_predictions), labels


def _without_empty_predictions(data):
    """ normaliser: domains without any prediction, listed only because they were looked up in a defaultdict """
    if isinstance(data, dict) and isinstance(data.get("domain_predictions"), dict):
        return dict(data, domain_predictions={name: found for name, found in data["domain_predictions"].items()
                                              if found})
    return data


def _swap_back(data):
    """ normaliser: aa10 and aa34 of an nrpys prediction exchanged """
    if isinstance(data, dict):
        if "aa10" in data and "aa34" in data and len(str(data["aa10"])) > len(str(data["aa34"])):
            data = dict(data, aa10=data["aa34"], aa34=data["aa10"])
        return {key: _swap_back(value) for key, value in data.items()}
    if isinstance(data, list):
        return [_swap_back(item) for item in data]
    return data


def check_nrps_pks(spec: dict) -> dict:
    return drive(spec, NrpsPksKit())


@st.composite
def nrps_pks_specs(draw) -> dict:
    spec = draw(_b().nrps_specs())
    spec.pop("steps")
    spec["products"] = draw(st.lists(st.sampled_from([["NRPS", "NRPS"], ["T1PKS", "PKS"], ["transAT-PKS", "PKS"],
                                                      ["NRPS-like", "NRPS"]]), min_size=1, max_size=2))
    spec["np"] = {"seed": draw(st.integers(0, 59))}
    spec["steps"] = draw(history(LEVELS, std_changes([2, 4, 0, "3", "missing", None], [other_content(spec["genes"])])))
    return spec


# =========================================================================== genefunctions

GF_RESFAM = ["RF0007", "RF0053", "RF0168"]


def genefunction_ids() -> dict:
    """ identifiers of the shipped smCOG profiles and 'extras' entries (read once, for the strategies) """
    from antismash.detection.genefunctions.tools import extras, smcogs
    return {"smcogs": sorted(smcogs._load_profiles())[:40], "extras": sorted(extras._load_metadata())[:40]}


class GeneFunctionsKit(Kit):
    name = "genefunctions"

    def module(self):
        from antismash.detection import genefunctions
        return genefunctions

    def cls(self):
        return self.module().AllFunctionResults

    def options(self, spec, env):
        return _b()._options(["--enable-genefunctions"])

    def record(self, spec, rid, variant=None):
        record = make_record(spec["L"], False, record_id=rid)
        add_genes(record, spec["genes"])
        add_areas(record, subregions=spec["subregions"])
        return record

    def original(self, spec, record, options):
        from antismash.common.secmet.qualifiers.gene_functions import ECGroup, GeneFunction
        from antismash.detection.genefunctions.tools import core, extras, halogenases, mite, resistance, smcogs

        def scan_for(tool: str):
            def scan(cds_features, _database, hmmscan_opts=None):
                wanted = {cds.get_name() for cds in cds_features}
                found = {}
                for name, hit in spec["hits"].get(tool, {}).items():
                    if name in wanted:
                        reference = hit["ref"] + (": generated description" if tool == "smcogs" else "")
                        found[name] = core.HMMHit(query_id=name, reference_id=reference, bitscore=hit["sc"],
                                                  evalue=hit["ev"], query_start=hit["s"], query_end=hit["e"])
                return found
            return scan
        entries = {accession: types.SimpleNamespace(subfunctions=["Methylation", "Oxidation"][:1 + index % 2],
                                                    function=[GeneFunction.ADDITIONAL, GeneFunction.TRANSPORT][index % 2],
                                                    groups=[ECGroup.TRANSFERASES] if index % 2 else [])
                   for index, accession in enumerate(["MITE0000001", "MITE0000022", "MITE0000333"])}
        dataset = types.SimpleNamespace(entries=entries, version="1.3", url="https://mite.example/@accession@")

        def blast(cds_features, _dataset):
            wanted = {cds.get_name() for cds in cds_features}
            return [types.SimpleNamespace(query_id=name, reference_id=hit["ref"], identity=hit["id"],
                                          bitscore=hit["sc"], evalue=hit["ev"])
                    for name, found in spec["hits"].get("mite", {}).items() if name in wanted for hit in found]
        with contextlib.ExitStack() as stack:
            for tool, owner in (("smcogs", smcogs), ("extras", extras), ("resist", resistance)):
                stack.enter_context(mock.patch.object(owner, "scan_profiles_for_functions", scan_for(tool)))
            stack.enter_context(mock.patch.object(mite, "get_dataset", lambda version="latest": dataset))
            stack.enter_context(mock.patch.object(mite, "_get_blast_hits", blast))
            stack.enter_context(mock.patch.object(halogenases.TOOL, "classify",
                                                  lambda features, options: halogenases.HalogenaseResults()))
            return self.module().run_on_record(record, None, options)

    def rerun_blocked(self):
        from antismash.detection.genefunctions.tools import extras
        return block((extras.TOOL, "classify"))

    def describe(self, spec, original):
        tools = {result.tool: len(result.best_hits) for result in original.tool_results}
        labels = [f"{tool}_hits_{min(count, 2)}" for tool, count in sorted(tools.items())]
        total = sum(tools.values())
        if any(result.group_mapping and any(result.group_mapping.values()) for result in original.tool_results):
            labels.append("ec_groups")
        if any(result.subfunction_mapping for result in original.tool_results):
            labels.append("subfunctions")
        return total >= 1, labels


def check_genefunctions(spec: dict) -> dict:
    return drive(spec, GeneFunctionsKit())


@st.composite
def genefunctions_specs(draw) -> dict:
    ids = genefunction_ids()
    length = draw(st.integers(600, 1800))
    genes = codon_genes(draw, length, max_genes=6)
    names = [gene["name"] for gene in genes]
    hits: dict = {}
    for tool, pool in (("smcogs", ids["smcogs"]), ("extras", ids["extras"]), ("resist", GF_RESFAM)):
        found = {}
        for name in draw(st.lists(st.sampled_from(names), max_size=3, unique=True)):
            found[name] = {"ref": draw(st.sampled_from(pool)), "sc": draw(st.sampled_from([12.5, 150.0, 801.25])),
                           "ev": draw(st.sampled_from([1e-80, 3.3e-17, 0.0])), "s": draw(st.integers(0, 5)),
                           "e": draw(st.integers(6, 9))}
        hits[tool] = found
    found = {}
    for name in draw(st.lists(st.sampled_from(names), max_size=2, unique=True)):
        found[name] = [{"ref": draw(st.sampled_from(["MITE0000001", "MITE0000022", "MITE0000333"])),
                        "id": draw(st.sampled_from([35.5, 71.25, 100.0])), "sc": draw(st.sampled_from([55.5, 410.0])),
                        "ev": draw(st.sampled_from([1e-50, 2e-09]))} for _ in range(draw(st.integers(1, 2)))]
    hits["mite"] = found
    subregions = [[0, length]] if draw(st.integers(0, 2)) else [[0, length // 2]]
    steps = draw(history(LEVELS, std_changes([1, 3, 0, "2", "missing", None], [other_content(genes)])))
    return {"L": length, "genes": genes, "hits": hits, "subregions": subregions, "rid": "rec1", "steps": steps}



# =========================================================================== whole results file (main.read_data)

REUSE_MODULES = ("sideloader", "full_hmmer", "pfam2go", "tta")


def _reuse_record(entry: dict, index: int):
    unit = "GCTTAGGCATTACCGG"       # TTA in two frames, GC content 0.625
    record = make_record(entry["L"], False, seq=(unit * (entry["L"] // len(unit) + 1))[:entry["L"]],
                         record_id=f"rec{index}")
    record.description = f"generated record {index}"
    add_genes(record, entry["genes"])
    return record


def _reuse_modules() -> list:
    from antismash.detection import full_hmmer, sideloader
    from antismash.modules import pfam2go, tta
    return [sideloader, full_hmmer, pfam2go, tta]


def _reuse_options(spec: dict, path: str = ""):
    args = ["--fullhmmer", "--fullhmmer-pfamdb-version", "35.0", "--pfam2go", "--enable-tta", "--tta-threshold",
            repr(float(spec["tta_threshold"])), "--sideload-size-by-cds", str(int(spec["padding"]))]
    if spec["markers"]:
        args += ["--sideload-by-cds", ",".join(spec["markers"])]
    if path:
        args += ["--reuse-results", path]
    options = _b()._options(args)
    options.all_enabled_modules = _reuse_modules()
    return options


def _reuse_pipeline(results, options, path: str) -> None:
    """ the record loop of main._run_antismash: detection, analysis of the records with regions, the results file,
        and only then the annotations of the analysis modules """
    from antismash import main
    for record, module_results in zip(results.records, results.results):
        if record.skip:
            continue
        main.run_detection(record, options, module_results)
        if not record.get_regions():
            continue
        main.analyse_record(record, options, main.get_analysis_modules(), module_results)
    results.write_to_file(path)
    main.annotate_records(results)


def check_reuse_file(spec: dict) -> dict:
    base = _b()
    scratch = tempfile.mkdtemp(prefix="verif_c11_")
    try:
        return _check_reuse_file(spec, scratch)
    finally:
        base._cleanup()
        shutil.rmtree(scratch, ignore_errors=True)


def _check_reuse_file(spec: dict, scratch: str) -> dict:
    from antismash import main
    from antismash.common import hmmer, pfamdb, serialiser
    from antismash.detection import sideloader
    from antismash.modules import pfam2go, tta
    base = _b()

    # ---- first generation: a run from scratch, the HMMER run of full_hmmer replaced by the generated hits
    options = _reuse_options(spec)
    records = [_reuse_record(entry, index) for index, entry in enumerate(spec["records"])]
    hsps_of = {f"rec{index}": entry["hsps"] for index, entry in enumerate(spec["records"])}

    def fake_run_hmmer(record, _features, max_evalue, min_score, database, tool, **_kwargs):
        pfamdb.KNOWN_MAPPINGS[database] = dict(PFAM2GO_NAMES)
        by_profile: dict = {}
        for hsp in hsps_of[record.id]:
            by_profile.setdefault(hsp["hit_id"], []).append(types.SimpleNamespace(
                query_id=hsp["gene"], hit_id=hsp["hit_id"], query_start=hsp["s"], query_end=hsp["e"],
                evalue=1e-20, bitscore=50.5, hit_description="generated"))
        fake = [types.SimpleNamespace(id=name, hsps=found) for name, found in by_profile.items()]
        hits = hmmer.build_hits(record, fake, min_score, max_evalue, database)
        return hmmer.HmmerResults(record.id, max_evalue, min_score, database, tool, hits)

    first = serialiser.AntismashResults("generated.gbk", records, [{} for _ in records], "verif", taxon="bacteria")
    paths = [os.path.join(scratch, "generation0.json")]
    with mock.patch.object(hmmer, "run_hmmer", fake_run_hmmer), base._no_external_tools():
        made = base._guard(lambda: _reuse_pipeline(first, options, paths[0]))
    if made[0] != "ok":
        return {"nontrivial": False, "classes": ["first_run_failed_" + made[1]]}
    with open(paths[0], encoding="utf-8") as handle:
        text0 = handle.read()
    file0 = base._loads(text0)
    modules0 = [base._dumps(entry["modules"]) for entry in file0["records"]]
    snaps0 = [base._guard(lambda record=record: base._snapshot(record)) for record in first.records]
    regions = [bool(record.get_regions()) for record in first.records]
    pfams = [len(record.get_pfam_domains()) for record in first.records]

    # ---- reusing generations: the file is read back by main.read_data, nothing may be analysed again
    for cycle in range(1, spec["cycles"] + 1):
        where = {"cycle": cycle}
        options = _reuse_options(spec, paths[-1])
        path = os.path.join(scratch, f"generation{cycle}.json")
        state: dict = {}

        def work():
            state["results"] = main.read_data(None, options)
            _reuse_pipeline(state["results"], options, path)
        with block((hmmer, "run_hmmer"), (pfam2go, "get_gos_for_pfams"), (tta, "detect"),
                   (sideloader, "load_single_record_annotations")), base._no_external_tools():
            outcome = base._guard(work)
        if outcome[0] == "exc":
            raise Violation("reuse_failed", dict(where, exception=outcome[1], message=outcome[2],
                                                 records_with_region=regions, pfam_domains=pfams))
        reused = state["results"]
        if [record.id for record in reused.records] != [record.id for record in first.records]:
            raise Violation("reuse_records", dict(where, got=[record.id for record in reused.records]))
        with open(path, encoding="utf-8") as handle:
            text = handle.read()
        again = base._loads(text)
        for index, entry in enumerate(again["records"]):
            base._compare_text("module_results_identity", base._dumps(entry["modules"]), modules0[index],
                               dict(where, record=entry["id"], has_region=regions[index]))
        for index, record in enumerate(reused.records):
            snap = base._guard(lambda record=record: base._snapshot(record))
            if snap[0] != snaps0[index][0]:
                raise Violation("effects", dict(where, record=record.id, original=snaps0[index][:2]
                                                if snaps0[index][0] == "exc" else "ok",
                                                regenerated=snap[:2] if snap[0] == "exc" else "ok"))
            if snap[0] == "ok":
                base._compare_text("effects", snap[1], snaps0[index][1],
                                   dict(where, record=record.id, has_region=regions[index]))
        base._compare_text("results_file_identity", text, text0, where)
        paths.append(path)
    classes = [f"records_{len(records)}", f"cycles_{spec['cycles']}",
               f"records_with_region_{min(sum(regions), 2)}", f"records_without_region_{min(len(regions) - sum(regions), 2)}"]
    if any(count and not region for count, region in zip(pfams, regions)):
        classes.append("pfam_domains_in_record_without_region")
    if any(count and region for count, region in zip(pfams, regions)):
        classes.append("pfam_domains_in_record_with_region")
    tta_codons = sum(len((entry["modules"].get(tta.__name__) or {}).get("TTA codons", [])) for entry in file0["records"])
    if tta_codons:
        classes.append("tta_codons")
    if any((entry["modules"].get(pfam2go.__name__) or {}).get("pfams") for entry in file0["records"]):
        classes.append("gene_ontologies")
    return {"nontrivial": any(pfams) or any(regions), "classes": classes}


@st.composite
def reuse_file_specs(draw) -> dict:
    names = sorted(PFAM2GO_NAMES)
    records, markers = [], []
    for index in range(draw(st.integers(1, 3))):
        length = draw(st.integers(400, 1200))
        genes, seen = [], set()
        for gene in codon_genes(draw, length, max_genes=4):
            # two genes on the same coordinates (opposite strands) swap places when a record is read back from its
            # JSON form - the record's own round trip is C10's subject, so they are not generated here
            key = tuple(gene["loc"]["parts"][0])
            if key not in seen:
                seen.add(key)
                genes.append(gene)
        for number, gene in enumerate(genes):
            gene["name"] = f"r{index}g{number}"
        hsps = draw(_hsps_on(genes, names, 0, 4))
        if draw(st.integers(0, 2)):      # this record gets a region, from a sideloaded subregion around one gene
            markers.append(draw(st.sampled_from(genes))["name"])
        records.append({"L": length, "genes": genes, "hsps": hsps})
    return {"records": records, "markers": markers, "padding": draw(st.sampled_from([0, 30, 200, 20000])),
            "tta_threshold": draw(st.sampled_from([0.0, 0.3, 0.65])), "cycles": draw(st.integers(1, 2))}


# =========================================================================== registration

SUBCHECKS = {
    "pfam2go": check_pfam2go,
    "tfbs": check_tfbs,
    "t2pks": check_t2pks,
    "terpene": check_terpene,
    "asf": check_asf,
    "smcog": check_smcog,
    "lanthi": check_lanthi,
    "lasso": check_lasso,
    "sacti": check_sacti,
    "thio": check_thio,
    "cassis": check_cassis,
    "nrps_pks": check_nrps_pks,
    "genefunctions": check_genefunctions,
    "reuse_file": check_reuse_file,
}
RIPP_SUBS = ("lanthi", "lasso", "sacti", "thio")


def _path_of(detail) -> str:
    difference = (detail or {}).get("difference") or [""]
    return str(difference[0])


def _sig_pfam2go_other_record(sub, spec, clause, detail) -> bool:
    """ pfam2go results of one record regenerated for a record with another id and another set of PFAM domains """
    change = (detail or {}).get("change") or {}
    return (sub == "pfam2go" and clause == "other_record_reused" and change.get("kind") == "other_record"
            and (detail or {}).get("from_scratch") == "differs")


def _sig_record_id_unchecked(sub, spec, clause, detail) -> bool:
    """ results of a module that never compares the saved record_id, regenerated for a record with another id """
    change = (detail or {}).get("change") or {}
    return (sub in ("t2pks", "lasso", "sacti", "thio", "nrps_pks") and clause == "other_record_reused"
            and change.get("kind") == "record_id" and (detail or {}).get("saved_for") == spec["rid"])


def _sig_t2pks_set_order(sub, spec, clause, detail) -> bool:
    return sub == "t2pks" and clause == "json_set_order" and "product_classes" in _path_of(detail)


def _sig_ripp_set_order(sub, spec, clause, detail) -> bool:
    path = _path_of(detail)
    return (sub in RIPP_SUBS and clause == "json_set_order"
            and any(key in path for key in ("new_cds_features", "/protoclusters", "protoclusters with motifs")))


def _sig_ripp_precursor_function(sub, spec, clause, detail) -> bool:
    return sub in RIPP_SUBS and clause == "effects_precursor_function" and "/features" in _path_of(detail)


def _sig_cassis_promoters_twice(sub, spec, clause, detail) -> bool:
    return (sub == "cassis" and clause == "effects_promoters_twice"
            and (detail or {}).get("level") in ("module", "main"))


def _sig_nrps_pks_aa_swapped(sub, spec, clause, detail) -> bool:
    return sub == "nrps_pks" and clause == "json_aa_signatures_swapped"


def _sig_nrps_pks_empty_predictions(sub, spec, clause, detail) -> bool:
    return sub == "nrps_pks" and clause == "json_empty_predictions" and "domain_predictions" in _path_of(detail)


SIGNATURES = {
    "nrps_pks_aa_swapped": _sig_nrps_pks_aa_swapped,
    "nrps_pks_empty_predictions": _sig_nrps_pks_empty_predictions,
    "pfam2go_other_record": _sig_pfam2go_other_record,
    "record_id_unchecked": _sig_record_id_unchecked,
    "t2pks_product_classes_order": _sig_t2pks_set_order,
    "ripp_set_order": _sig_ripp_set_order,
    "ripp_precursor_function": _sig_ripp_precursor_function,
    "cassis_promoters_twice": _sig_cassis_promoters_twice,
}


def run(ctx, shards: int) -> None:
    ctx.hyp("pfam2go", pfam2go_specs(), max_examples=ctx.pick(240, 6000), shards=shards)
    ctx.hyp("tfbs", tfbs_specs(), max_examples=ctx.pick(160, 4000), shards=shards)
    ctx.hyp("t2pks", t2pks_specs(), max_examples=ctx.pick(400, 10000), shards=shards)
    ctx.hyp("terpene", terpene_specs(), max_examples=ctx.pick(400, 10000), shards=shards)
    ctx.hyp("asf", asf_specs(), max_examples=ctx.pick(300, 8000), shards=shards)
    ctx.hyp("smcog", smcog_specs(), max_examples=ctx.pick(300, 8000), shards=shards)
    for family in RIPP_SUBS:
        ctx.hyp(family, ripp_specs(family), max_examples=ctx.pick(300, 8000), shards=shards)
    ctx.hyp("cassis", cassis_specs(), max_examples=ctx.pick(400, 10000), shards=shards)
    ctx.hyp("nrps_pks", nrps_pks_specs(), max_examples=ctx.pick(300, 6000), shards=shards)
    ctx.hyp("genefunctions", genefunctions_specs(), max_examples=ctx.pick(400, 10000), shards=shards)
    ctx.hyp("reuse_file", reuse_file_specs(), max_examples=ctx.pick(160, 3000), shards=shards)
