#!/venv/bin/python
""" usage: keep_seed.py <seed-id> <property> <worktree-seed-dir> <A|B> <caught_by comma list or 'none'> <needs text> [note]
    Copies patch/demo into /verif/seeded/<seed-id>/ and writes meta.json """
import json, os, shutil, sys
seed_id, prop, src, letter, caught, needs = sys.argv[1:7]
note = sys.argv[7] if len(sys.argv) > 7 else ""
dest = f"/verif/seeded/{seed_id}"
os.makedirs(dest, exist_ok=True)
shutil.copy(os.path.join(src, f"patch_{letter}.diff"), os.path.join(dest, "patch.diff"))
shutil.copy(os.path.join(src, f"demo_{letter}.py"), os.path.join(dest, "demo.py"))
readme = os.path.join(src, "README.md")
if os.path.exists(readme):
    shutil.copy(readme, os.path.join(dest, "AUTHOR_README.md"))
meta = {
    "seed_id": seed_id,
    "property": prop,
    "origin": "written by a fresh sub-agent given only the property text and its own scratch worktree of /repo (nothing from /verif)",
    "needs_to_manifest": needs,
    "confirmed_by_lead": {
        "how": "tools/seed_eval.sh: rsync copy of /repo's HEAD outside /repo and /verif, demo run on the unchanged copy (PASS, exit 0), "
               "patch applied with patch -p1, demo run again (FAIL, exit 1), tools/baseline.py on the changed copy (all 1463 stable_pass "
               "tests still pass), then the quick tier of the listed checks with VERIF_REPO pointing at the changed copy; copy removed afterwards",
        "demo_unchanged": "PASS", "demo_changed": "FAIL", "pinned_tests_with_change": "1463/1463 stable_pass still passing",
    },
    "caught_by": [] if caught == "none" else caught.split(","),
    "note": note,
    "confirmed_on_repo_commit": os.popen("git -C /repo log -1 --format=%h").read().strip(),
}
json.dump(meta, open(os.path.join(dest, "meta.json"), "w"), indent=1)
print("kept", dest)
