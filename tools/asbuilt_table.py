#!/venv/bin/python
""" Rewrites the block between <!-- ASBUILT-BEGIN --> and <!-- ASBUILT-END --> in DESIGN.md from evidence/*.json and MANIFEST.json """
import glob, json, re
manifest = {c["property_id"]: c for c in json.load(open("/verif/MANIFEST.json"))["checks"]}
rows = []
for path in sorted(glob.glob("/verif/evidence/C*.json")):
    ev = json.load(open(path))
    cov = ev["coverage"]
    subs = ", ".join(f"{name} ({info['evaluations']}{'*' if info.get('exhaustive') else ''})" for name, info in cov.get("subchecks", {}).items())
    pid = ev["property_id"]
    rows.append(f"| {pid} | {ev['level']} | {ev['tier']} | {cov['evaluations']} | {cov['distinct_nontrivial']} | {subs} | {ev['wall_s']} |")
table = ("| prop | level | tier of the committed evidence | evaluations | distinct non-trivial | subchecks (evaluations; * = finite space enumerated completely) | wall s |\n"
         "|---|---|---|---|---|---|---|\n" + "\n".join(rows))
block = f"<!-- ASBUILT-BEGIN -->\n{table}\n<!-- ASBUILT-END -->"
text = open("/verif/DESIGN.md").read()
if "<!-- ASBUILT-BEGIN -->" in text:
    text = re.sub(r"<!-- ASBUILT-BEGIN -->.*?<!-- ASBUILT-END -->", lambda m: block, text, flags=re.S)
else:
    text += ("\n### 8.5 What each check ran (from the committed evidence files)\n\n"
             "Per-subcheck class counters, samples and exclusions are in evidence/<ID>.json; what each subcheck asserts is in the check "
             "module's docstrings and in notes/<ID>.md.\n\n" + block + "\n")
open("/verif/DESIGN.md", "w").write(text)
print(len(rows), "rows")
