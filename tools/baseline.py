#!/venv/bin/python
""" Runs the repository's pinned test-suite and compares with /root/.vp/BASELINE.json stable_pass.
    usage: baseline.py [repo_dir]     exit 0 iff every stable_pass test passed """
import json, os, subprocess, sys, tempfile
import xml.etree.ElementTree as ET

repo = sys.argv[1] if len(sys.argv) > 1 else "/repo"
base = json.load(open("/root/.vp/BASELINE.json"))
with tempfile.TemporaryDirectory() as tmp:
    xml = os.path.join(tmp, "junit.xml")
    env = dict(os.environ)
    env.pop("ANTISMASH_VERIF", None)
    proc = subprocess.run(["/venv/bin/python", "-m", "pytest", "-q", "-p", "no:cacheprovider", "--timeout=900",
                           "--continue-on-collection-errors", "-n", "8" , f"--junitxml={xml}"] if False else
                          ["/venv/bin/python", "-m", "pytest", "-q", "-p", "no:cacheprovider", "--timeout=900",
                           "--continue-on-collection-errors", f"--junitxml={xml}"],
                          cwd=repo, env=env, stdout=subprocess.PIPE, stderr=subprocess.STDOUT, text=True)
    passed = set()
    for case in ET.parse(xml).getroot().iter("testcase"):
        bad = any(child.tag in ("failure", "error", "skipped") for child in case)
        if not bad:
            passed.add(f"{case.get('classname')}::{case.get('name')}")
missing = sorted(set(base["stable_pass"]) - passed)
print(f"stable_pass={len(base['stable_pass'])} passed_now={len(passed)} missing={len(missing)}")
for name in missing[:40]:
    print("  NOT PASSING:", name)
sys.exit(1 if missing else 0)
