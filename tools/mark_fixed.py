#!/venv/bin/python
""" usage: mark_fixed.py <ID> <finding-id>=<commit> ...   moves open entries of known/<ID>.json into known_findings.json as fixed """
import json, os, sys
prop = sys.argv[1]
commits = dict(arg.split("=") for arg in sys.argv[2:])
path = f"/verif/known/{prop}.json"
known = json.load(open(path))
main = json.load(open("/verif/known_findings.json"))
os.makedirs(f"/verif/replays/{prop}", exist_ok=True)
rest = []
for entry in known["findings"]:
    if entry["id"] not in commits:
        rest.append(entry)
        continue
    name = f"fixed-{entry['id']}.json"
    json.dump({"property": prop, "sub": entry["witness"]["sub"], "spec": entry["witness"]["spec"]},
              open(f"/verif/replays/{prop}/{name}", "w"), indent=1, sort_keys=True)
    main["findings"].append({"property": prop, "id": entry["id"], "status": "fixed", "commit": commits[entry["id"]],
                             "what": entry["what"], "witness": f"replays/{prop}/{name}", "signature": entry.get("signature")})
    main["fixed_log"].append(f"fixed: property={prop} {commits[entry['id']]} {entry['what']}")
json.dump(main, open("/verif/known_findings.json", "w"), indent=1)
if rest:
    json.dump({"findings": rest}, open(path, "w"), indent=1)
else:
    os.unlink(path)
print("done; remaining open in", path, ":", [e["id"] for e in rest])
