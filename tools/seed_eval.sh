#!/bin/sh
# usage: seed_eval.sh <patch.diff> <demo.py> <ID> [<ID> ...]
# Confirms a seeded change in a scratch copy of /repo: demo passes without / fails with the change, the pinned
# test-suite still passes with it, then runs the given checks (quick tier) against the changed copy. Removes the copy.
PATCH=$1; DEMO=$2; shift 2
D=$(mktemp -d /tmp/seedeval_XXXXXX)
rsync -a --exclude .git --exclude seed /repo/ $D/
mkdir -p $D/seed; cp $DEMO $D/seed/demo.py
ORIGWT=$(grep -o '/tmp/seed[234567]\?_C[0-9]*' $DEMO | head -1)
[ -n "$ORIGWT" ] && sed -i "s#$ORIGWT#$D#g" $D/seed/demo.py
echo "== demo on unchanged copy"; (cd $D && PYTHONPATH=$D /venv/bin/python seed/demo.py 2>&1 | tail -2; echo "exit=$?")
(cd $D && patch -p1 -s < $PATCH) || { echo "PATCH DID NOT APPLY"; rm -rf $D; exit 3; }
echo "== demo with change"; (cd $D && PYTHONPATH=$D /venv/bin/python seed/demo.py 2>&1 | tail -2)
echo "== pinned test-suite with change"; /venv/bin/python /verif/tools/baseline.py $D | head -5
for ID in "$@"; do
  echo "== check $ID"
  VERIF_REPO=$D /venv/bin/python /verif/run_check.py $ID --tier quick --no-evidence 2>&1 | grep -E "^(OK|VIOLATION|HARNESS|  clause)" | cut -c1-260 | head -12
done
rm -rf $D
