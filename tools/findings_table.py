#!/venv/bin/python
""" Rewrites the block between <!-- FINDINGS-BEGIN --> and <!-- FINDINGS-END --> in DESIGN.md from known_findings.json + known/*.json """
import glob, json, re
entries = json.load(open("/verif/known_findings.json"))["findings"]
for path in sorted(glob.glob("/verif/known/*.json")):
    entries += json.load(open(path))["findings"]
fixed = [e for e in entries if e["status"] == "fixed"]
opened = [e for e in entries if e["status"] == "open"]
def clean(text): return text.replace("|", "/").replace("\n", " ")
lines = [f"Repaired in /repo ({len(fixed)} entries; one `fix:` commit per root cause, several entries may share a commit; the unedited pinned "
         "test-suite passes after every commit; each witness is a committed replay under replays/<ID>/):", "",
         "| prop | finding | commit | what failed |", "|---|---|---|---|"]
for e in sorted(fixed, key=lambda e: (e["property"], e["id"])):
    lines.append(f"| {e['property']} | {e['id']} | {e.get('commit','')} | {clean(e['what'])} |")
lines += ["", f"Open known findings ({len(opened)}; printed as `KNOWN-FINDING`, matched by a narrow signature in the check module, excluded and counted):", "",
          "| prop | finding | what fails / why it is not repaired |", "|---|---|---|"]
for e in sorted(opened, key=lambda e: (e["property"], e["id"])):
    lines.append(f"| {e['property']} | {e['id']} | {clean(e['what'])} |")
block = "<!-- FINDINGS-BEGIN -->\n" + "\n".join(lines) + "\n<!-- FINDINGS-END -->"
text = open("/verif/DESIGN.md").read()
assert "<!-- FINDINGS-BEGIN -->" in text
text = re.sub(r"<!-- FINDINGS-BEGIN -->.*?<!-- FINDINGS-END -->", lambda m: block, text, flags=re.S)
open("/verif/DESIGN.md", "w").write(text)
print(len(fixed), "fixed,", len(opened), "open")
