#!/bin/sh
# usage: seed_eval_many.sh <parallel jobs> <log dir> <round dir prefix, e.g. /tmp/seed6_> <ID[:extra checks,comma separated]> ...
# runs tools/seed_eval.sh for patch_A/patch_B of each ID, <jobs> at a time, one log per seed in <log dir>
J=$1; LOG=$2; PRE=$3; shift 3
mkdir -p $LOG
LIST=$(mktemp)
for SPEC in "$@"; do
  P=${SPEC%%:*}; EXTRA=""
  case "$SPEC" in *:*) EXTRA=$(echo ${SPEC#*:} | tr ',' ' ');; esac
  for X in A B; do
    [ -f $PRE$P/seed/patch_$X.diff ] && echo "timeout 2400 /verif/tools/seed_eval.sh $PRE$P/seed/patch_$X.diff $PRE$P/seed/demo_$X.py $P $EXTRA > $LOG/${P}_$X.log 2>&1" >> $LIST
  done
done
xargs -P $J -I{} sh -c "{}" < $LIST
rm -f $LIST
for F in $LOG/*.log; do echo "######## $(basename $F .log)"; grep "^OK\|^VIOL\|FAIL\|^PASS\|^== check\|HARNESS\|PATCH DID NOT" $F | cut -c1-150; done
