#!/venv/bin/python
""" Rewrites the block between <!-- SEEDED-BEGIN --> and <!-- SEEDED-END --> in DESIGN.md from seeded/*/meta.json """
import glob, json, os, re
rows = []
for path in sorted(glob.glob("/verif/seeded/*/meta.json")):
    meta = json.load(open(path))
    caught = ", ".join(meta["caught_by"]) if meta["caught_by"] else "**missed**"
    note = meta.get("note", "")
    rows.append(f"| {meta['seed_id']} | {meta['property']} | {meta['needs_to_manifest']} | {caught} | {note} |")
table = ("| seed | breaks | needs, in order to manifest | caught by (quick tier) | note |\n|---|---|---|---|---|\n" + "\n".join(rows))
text = open("/verif/DESIGN.md").read()
block = f"<!-- SEEDED-BEGIN -->\n{table}\n<!-- SEEDED-END -->"
if "<!-- SEEDED-BEGIN -->" in text:
    text = re.sub(r"<!-- SEEDED-BEGIN -->.*?<!-- SEEDED-END -->", lambda m: block, text, flags=re.S)
else:
    text += ("\n### 8.4 Seeded changes (written by fresh sub-agents from the property text only) and which checks catch them\n\n"
             "Each change compiles, passes the pinned test-suite (1463/1463 stable tests) and comes with a demonstration that fails with it "
             "and passes without; all of that was re-confirmed by the lead in a scratch copy (tools/seed_eval.sh) before the change was kept "
             "under seeded/<id>/ (patch.diff, demo.py, meta.json). 'caught by' = the quick tier of that check exits 1 with a VIOLATION line "
             "against the changed copy.\n\n" + block + "\n")
open("/verif/DESIGN.md", "w").write(text)
print(len(rows), "seeds")
