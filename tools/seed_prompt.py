""" usage: seed_prompt.py <ID>  - prints the brief given to a fresh sub-agent that writes property-breaking changes
    (worktree /tmp/seed_<ID>); seed_prompt_round.py adds the list of sites already used by kept seeds """
import sys
pid=sys.argv[1]; wt=f"/tmp/seed_{pid}"
import json, os
prop=[json.loads(l) for l in open(os.path.join(os.path.dirname(os.path.dirname(os.path.abspath(__file__))),"properties.jsonl")) if l.strip()]
prop=[p for p in prop if p["id"]==pid][0]
# the sub-agent gets the property text only: title, statement, quantifier and anchoring files
text=(f"Property {pid}: {prop['title']}\n\nStatement: {prop['statement']}\n\nQuantified over: {prop['quantifier']['text']}\n\n"
      f"Code the property is anchored in: {', '.join(prop['anchors']['files'])}\n")
print(f"""You are helping to evaluate the blind spots of a test-suite. Work ONLY inside the git worktree {wt} (a checkout of the antiSMASH repository; /venv/bin/python has all its dependencies installed). Do not read or write anything under /verif or /repo, do not look for other checkers on this machine, do not run git commit and never use git stash (the stash is shared between worktrees; use `git diff > file`, `git checkout -- antismash`, `git apply file` instead).

Below is a semantic property that antiSMASH is supposed to satisfy.

{text}
TASK: produce TWO independent, realistic changes (A and B: different sites / root causes) to the antismash source code, each of which BREAKS this property while (1) the code still imports and runs and (2) the existing test-suite still passes exactly as it does on the unchanged tree. "Realistic" means the kind of bug a maintainer could introduce during a refactoring, an optimisation or by an off-by-one - NOT something ordinary use would expose at once. Each change should need something specific to manifest: an unusual input, a particular coincidence of coordinates or values, a multi-step sequence of operations, a fault at a particular point, a particular ordering/interleaving, or two cooperating sites that each look fine alone. Prefer subtle semantic changes in the code the property is anchored in (or in helpers it relies on) over crude ones.

For each change X in (A, B) deliver, under {wt}/seed/ :
  * patch_X.diff  - `git diff` output relative to the worktree root; must apply to the unchanged worktree with `git apply seed/patch_X.diff`;
  * demo_X.py     - a small standalone program that prints PASS and exits 0 on the unchanged tree, and prints FAIL and exits 1 with the change applied. It must exercise antismash's real code through its public functions (no mocking of the changed function) and must import antismash from the worktree: run it as `cd {wt} && PYTHONPATH={wt} /venv/bin/python seed/demo_X.py`, and let it assert that antismash.__file__ starts with "{wt}";
  * a section in seed/README.md: what was changed, which clause of the property it breaks and why, what exactly is needed for it to manifest, and the exact commands you ran with their results (test-suite before/after, demo before/after).

PROCEDURE: first run the full test-suite on the unchanged worktree and record the result as the baseline:
   cd {wt} && /venv/bin/python -m pytest -q -p no:cacheprovider --timeout=900 --continue-on-collection-errors 2>&1 | tail -15
(it takes well under two minutes; a few tests fail in this sandbox because external binaries are missing - your change must not add ANY failure or error to that baseline; the machine is busy, be patient). Then make change A in the working tree, run the full suite again, run the demo, save `git diff -- antismash > seed/patch_A.diff`, restore with `git checkout -- antismash`, confirm the demo passes again. Same for B. At the end the worktree must have NO modified tracked files (`git status --short` shows only seed/). Never edit, delete or weaken tests. If a candidate change is caught by the existing tests, pick another one - report honestly which candidates were discarded for that reason.

Your final message: a short summary of A and B (site, effect, what is needed to manifest) and the paths of the files.""")
