#!/bin/sh
# usage: mutant.sh <ID> <file relative to repo> <python-regex-or-literal old> <new> [tier]
# Copies /repo to a scratch dir, applies ONE literal replacement, runs the check against it, removes the copy.
ID=$1; FILE=$2; OLD=$3; NEW=$4; TIER=${5:-quick}
D=$(mktemp -d /tmp/mut_XXXXXX)
rsync -a --exclude .git /repo/ $D/
/venv/bin/python - "$D/$FILE" "$OLD" "$NEW" <<'PY'
import sys
p, old, new = sys.argv[1:4]
s = open(p).read()
if s.count(old) < 1:
    print("MUTANT-NOT-APPLIED: pattern not found"); sys.exit(3)
open(p, "w").write(s.replace(old, new, 1))
PY
RC=$?
if [ $RC -eq 0 ]; then
  VERIF_REPO=$D /venv/bin/python /verif/run_check.py $ID --tier $TIER --no-evidence 2>&1 | grep -E "^(OK|VIOLATION|HARNESS|  clause)" | cut -c1-300 | head -6
fi
rm -rf $D
