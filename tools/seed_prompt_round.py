import sys, json, glob
pid=sys.argv[1]
base=open(f"/tmp/seedbriefs/prompt_{pid}.txt").read() if False else None
import subprocess
text=subprocess.check_output(["/venv/bin/python","/verif/tools/seed_prompt.py",pid]).decode()
text=text.replace(f"/tmp/seed_{pid}", f"/tmp/seedR_{pid}")
avoid=[]
for p in sorted(glob.glob(f"/verif/seeded/S*-{pid}-*/patch.diff")):
    files=[l[6:].strip() for l in open(p) if l.startswith("+++ b/")]
    funcs=sorted({l.split("@@")[-1].strip() for l in open(p) if l.startswith("@@") and l.count("@@")>=2 and l.split("@@")[-1].strip()})
    avoid.append(f"  - {', '.join(files)} ({'; '.join(funcs)[:160]})")
extra=("\nOTHER PEOPLE HAVE ALREADY PRODUCED CHANGES AT THESE SITES - choose different functions / different root causes, and prefer ones that need an even more specific situation to manifest (e.g. only on circular records with a feature crossing the origin, only for a particular ordering of equal values, only after a particular sequence of calls, only for one operator combination; changes made of TWO cooperating edits that each look harmless alone, or that only show after a multi-step sequence of calls, are especially welcome):\n"+"\n".join(avoid)+"\n")
text=text.replace("PROCEDURE:", extra+"\nPROCEDURE:")
print(text)
