#!/venv/bin/python
""" Regenerates MANIFEST.json from the table below (keeps it valid at all times). """
import json, os, sys
HERE = os.path.dirname(os.path.dirname(os.path.abspath(__file__)))

CHECKS = {
 "C04": dict(category="exploration",
      technique="bounded-exhaustive enumeration + Hypothesis random locations against a set-of-bases reference model",
      text="Every arc/pair/triple/offset/extension on rings up to length 7-12 is enumerated completely and compared with an "
           "independent set-of-bases model; larger records (to 3000 bases) with multi-exon and origin-spanning locations are "
           "sampled with boundary-biased Hypothesis generators. Exhaustive within the stated small bounds, sampled beyond.",
      note="Trusted: Biopython location attribute access and the 100-line ring model (vlib/ring.py). connect on a ring is "
           "judged by the contract in the statement (covers, single arc, <= hull, minimal when < L/2).",
      design="3/C04"),
}
CHECKS["C08"] = dict(category="exploration",
      technique="Hypothesis gene layouts x exhaustive query enumeration against a brute-force set-of-bases filter; generated build-order interleavings",
      text="For generated gene layouts (nested, same start, overlapping, multi-exon, origin-spanning) every query location of a small "
           "record is asked and compared with a brute-force filter; larger records are sampled; areas are built under generated "
           "interleavings of add_cds/add_protocluster/add_subregion/create_* and membership, gene->region links, definition genes and "
           "origin sections are compared with model containment; areas are also read in the middle of a build and must then list exactly "
           "the genes added so far. Sampled layouts, exhaustive queries per small layout.",
      note="Trusted: C04 containment/overlap model. Candidate/region creation failures are C05/C06's business and are excluded (counted) here.",
      design="3/C08")
CHECKS["C01"] = dict(category="exploration",
      technique="Hypothesis grammar-based rule generator + bounded enumeration of condition shapes x hit assignments x cutoff-boundary gaps, differential against an independent reference evaluator",
      text="Condition trees generated from the documented grammar are parsed by the real parser and evaluated on generated gene/hit "
           "arrangements (gaps at cutoff-1/cutoff/cutoff+1, across the origin, origin-spanning genes, bitscores around thresholds); met, "
           "reason profiles and anchoring are compared per gene with an independent evaluator of the statement's formula semantics, and "
           "apply_cluster_rules' reported genes/domains are checked in both directions. ~100 condition shapes x all 64 hit assignments "
           "x 9 gap pairs x topologies are enumerated completely; deeper trees are sampled.",
      note="Trusted: the reference evaluator (vlib/rules.py, ~80 lines) and the C04 distance model. minimum() counts per-gene distinct "
           "profiles summed over genes in range (module docstring reading).",
      design="3/C01")
CHECKS["C02"] = dict(category="exploration",
      technique="Hypothesis grammar-based rule-file generator (aliases as arbitrary token slices, comments, whitespace, multi-file) differential against an independent reference parser by exhaustive truth tables; per-class ill-formed files; shipped rule files on sampled worlds",
      text="Generated rule files are parsed by the real parser and by an independent tokenizer/recursive-descent parser; fields must be "
           "equal and condition/extender meaning is compared by complete truth tables over the rule's profiles on two in-range genes "
           "(sampled above 4 profiles); regenerate->reparse, Ruleset.from_files scaling, 43 ill-formed classes (must raise), and the "
           "shipped strict/relaxed/loose files (all rules, sampled worlds). Sampled search; truth tables exhaustive per rule.",
      note="Trusted: reference parser/evaluator in vlib/rules.py. Rejection accepts any exception. One open known finding "
           "(unknown profile in EXTENDERS accepted; pinned by the repository's test_extenders).",
      design="3/C02")
CHECKS["C16"] = dict(category="exploration",
      technique="bounded enumeration of colliding id lists + Hypothesis id/name/gene-name generators with direct predicates on pre_process_sequences output",
      text="All ordered lists of 1-3 (thorough 4) ids from a pool of mutually colliding forms and all contig-number widths are enumerated; "
           "random lists of up to 12 ids (duplicates, illegal-character variants, shortened/deduplicated forms of other ids, versioned "
           "accessions, long contig numbers) are sampled; ids must be pairwise distinct, free of the documented illegal characters, "
           "<=16 characters unless long headers are allowed, with original_id remembered; gene names unique or the record rejected.",
      note="Trusted: the illegal character set is the one documented in fix_record_name_id. The id clauses are also judged with 2-4 CPUs through the real pre_process_sequences (parallel subchecks).",
      design="3/C16")
CHECKS["C20"] = dict(category="fault_enumeration",
      technique="exhaustive fault enumeration (records x modules x fault position x 16 fault kinds x target) and exhaustive directory-content subsets, plus Hypothesis multi-fault/random-tree cases, oracle = bytes/listing unchanged and error raised",
      text="Every position of the R x M per-record per-module JSON conversions (quick R<=2,M<=3; thorough R<=4,M<=5) is failed with each of "
           "16 fault kinds (to_json raising, values that only fail inside json.dumps, bad record annotations...) for write_to_file and "
           "dump_records over a pre-existing file: the bytes must be unchanged and an exception must reach the caller. Every subset of 16 "
           "directory entry classes x run mode x output-dir given/derived x cwd is enumerated for prepare_output_directory; a stubbed "
           "run_antismash pipeline keeps the real control flow. Exhaustive within those bounds.",
      note="Fault model: exceptions during conversion (statement's model); no process kill between open() and write(). Any exception counts as 'reported'/'refused'.",
      design="3/C20")
CHECKS["C09"] = dict(category="exploration",
      technique="exhaustive protein sub-range enumeration per generated gene (exons x strand x introns x codon_start x origin rotation) with Biopython extract+translate as the independent oracle",
      text="For generated genes (1-4 exons, either strand, introns, codon_start 1-3 through CDSFeature.from_biopython, overlapping exons, every "
           "rotation across the origin of a tight ring) every protein range [s,e) up to 40 residues (sampled above) is mapped to DNA and the "
           "extracted, translated bases are compared with the slice of the gene's own Biopython translation; the same for prepeptide "
           "leader/core/tail, domain/motif/PFAM features generated by hmmer helpers, and TTA codon markers.",
      note="Trusted: Biopython extraction/translation. Three open known findings pinned by repository tests or Feature() validation "
           "(prepeptide last section includes the stop codon; overlapping-exon sub-location with equal part ends refused; touching "
           "reverse-strand sections of a whole-ring prepeptide fused on re-read).",
      design="3/C09")
CHECKS["C14"] = dict(category="exploration",
      technique="bounded-exhaustive enumeration of domain strings over class representatives (length<=3/4) + Hypothesis template-mixed generators, validity predicates and a reference layout state machine",
      text="All domain strings up to length 3 (thorough 4) over 20 class representatives, head/tail pair strings and every cut of every module "
           "template are enumerated; random strings over the full 60-name alphabet with KS subtypes and mutated templates are sampled. "
           "Partition/order/no-loss, per-module layout rules, completeness definition, JSON reload identity, merge preconditions/effects and "
           "the real generate_domains pipeline on 2-4 genes are asserted.",
      note="Trusted: classification table CLASSIFICATIONS as the alphabet; trans-AT taken as the code's definition (subtype or docking domain).",
      design="3/C14")
CHECKS["C03"] = dict(category="exploration",
      technique="Hypothesis records/rulesets through the real detection pipeline (dynamic profiles only) against a set-of-bases component/hull/extension model; exhaustive 3-gene placements on small rings",
      text="detect_protoclusters_and_signatures is run on generated records (linear/circular, 30..6000 bases, touching/nested/origin-spanning "
           "genes) with 1-4 generated rules (mixed cutoffs/neighbourhoods in bases, SUPERIORS chains, EXTENDERS); the anchors captured from "
           "apply_cluster_rules are grouped into connected components of 'distance < cutoff' on the ring model and compared with the reported "
           "cores (partition, hull / minimal arc, extender edges), neighbourhood extension (clipped/wrapped) and two-sided superior removal. "
           "All placements of three genes on rings of length 9..11 (thorough 14) x cutoffs {1,2,3,7} are enumerated. Focused families: "
           "superior/inferior hits on shared genes, layered rule hierarchies (transitive superiors), extender chains of disjoint genes, and "
           "extenders among nested / overlapping / multi-exon / origin-crossing genes rotated to any offset.",
      note="Anchors are taken as the code reports them (C01 decides their correctness). Groups and extended cores whose smallest covering "
           "arc is >= L/2 and partial superior overlap are counted but not asserted; extender must-admit holds on every layout by exon "
           "distance, distance == cutoff either way (see DESIGN.md sections 7 and 8.3).",
      design="3/C03")
CHECKS["C15"] = dict(category="exploration",
      technique="exhaustive enumeration of short codon strings x strand x offset x record length x minimum length and of gene layouts on ORF-dense rings, plus Hypothesis DNA/layout generators, against an independent ORF scanner and Biopython extraction",
      text="scan_orfs is compared (set equality both ways, coordinates, strand, origin wrapping, exact extraction) with an independent scanner "
           "over all codon strings up to 5 (thorough 6) codons from a start/stop-rich alphabet and random IUPAC strings; find_all_orfs is "
           "checked on gene-free rings/lines (equality) and on enumerated/random gene layouts (every returned ORF is an ORF, >= min length, "
           "inside the area, within the allowed overlap of each gene, translation matches).",
      note="Three open known findings: exact-minimum-length ORF dropped (pinned by TestOrfCounts.test_no_hits), and two origin-crossing-area "
           "gap defects that need min_length < 2*max_overlap (no small repair). Completeness with genes present is not asserted.",
      design="3/C15")
CHECKS["C18"] = dict(category="exploration",
      technique="harness-owned schedules (generated per-call delays) over a grid of worker counts x batch sizes x delay patterns, Hypothesis-drawn payloads, oracle = sequential result; injected call faults and timeouts",
      text="parallel_function / parallel_execute / pre_process_sequences(cpus=k) are run for k=1..16 and batch sizes around k with "
           "generated delay vectors that force out-of-order completion (observed in ~75% of cases), payloads from ints to annotated "
           "Records with origin-spanning areas (canonical dump incl. cds_children sections), and compared with the sequential result; "
           "a raising call (every exception class of antismash.common.errors), an unpicklable result, a timeout or a killed worker must "
           "surface as an exception within a deadline. The real genefinding module and prodigal wrapper are driven with a stand-in "
           "executable whose output shows its command line: each record alone vs batches in both orders at 1..k workers. Each case runs "
           "in its own process group so that a hang cannot outlive the case.",
      note="OS-level interleavings are not enumerated; a worker death without a timeout (multiprocessing blocks forever) is outside the technique.",
      design="3/C18")
CHECKS["C07"] = dict(category="exploration",
      technique="metamorphic testing: all origin rotations of generated circular records and all superior-respecting rule permutations / sub-selections, equality of coordinate-free summaries",
      text="Generated circular records/rulesets are rotated on the spec level by every offset (L<=60) or by every gene boundary +-1, gene "
           "middles and spaced offsets (larger L); detection, candidate cluster and region creation are re-run and protoclusters (core and "
           "member genes per rule), candidates (kind + members), regions (member genes) and definition domains must be identical whenever "
           "all regions are shorter than half the record. All rule orders keeping superiors first (<=24) and all superior-closed "
           "sub-selections must give identical protoclusters per rule.",
      note="Gene membership is read through Record.get_cds_features_within_location (C08). Records on which area creation raises are excluded and counted.",
      design="3/C07")
CHECKS["C12"] = dict(category="exploration",
      technique="Hypothesis annotated-record generator + deterministic family of area placements; round trip of every region file against an independent coordinate model of a region extract",
      text="For generated records (linear/circular, several regions, regions touching the record ends, origin-spanning regions and genes, "
           "several candidates/subregions, prepeptides, domains) every region is written with the real writer, the text is parsed with "
           "Biopython and compared with an independently computed extract (sequence, multiset of shifted features in both directions, area "
           "numbers 1..n in positional order, all cross references), reloaded with Record.from_genbank (exactly one region with the expected "
           "content) and the parent record is compared before/after; multi-part features carry join or order operators (before, after and "
           "across the origin) and the operator is compared too. 1078 deterministic placement cases plus sampled records.",
      note="Trusted: Biopython GenBank I/O. Equal-coordinate areas are not judged for numbering (C10's tie question).",
      design="3/C12")
CHECKS["C05"] = dict(category="exploration",
      technique="bounded-exhaustive enumeration of protocluster multisets on small records + Hypothesis layouts, statement predicates P1-P13 and an exact differential against a union-find reference model, all input permutations",
      text="Protocluster multisets (shared defining genes, nesting, identical coordinates, chains, groups meeting only across the origin) are "
           "enumerated exhaustively for up to 3-4 protoclusters on a coordinate grid and sampled beyond; create_candidates_from_protoclusters "
           "is run for every permutation (<=5 protoclusters) and through Record.create_candidate_clusters; coverage, span, uniqueness, "
           "transitive hybrid/interleaved/neighbouring grouping, singles and permutation invariance are asserted, plus equality with an "
           "independent reference grouping model.",
      note="Whether a promoted member of an interleaved group keeps a single is left open (statement, docstring and test_overlap_interleave "
           "disagree). Span of >= L/2 groups follows the C04 connect contract.",
      design="3/C05")
CHECKS["C11"] = dict(category="exploration",
      technique="Hypothesis results objects built by each module's own code from generated content, with generated save/regenerate/change-setting step lists inside the spec; oracle = byte-identical JSON and identical record side effects, refusal on changed settings",
      text="RuleDetectionResults/HMMDetectionResults (real detection with dynamic profiles), SideloadedResults, NRPSPKSDomains/Module/Component, "
           "HmmerResults/TIGRFam (incl. refilter), HMMResult trees, TTAResults, RREFinder (threshold histories) and 13 further modules (pfam2go, tfbs_finder, t2pks, terpene, active_site_finder, smcog_trees, the four RiPP modules, cassis, nrps_pks specificities, genefunctions; built by run_on_record with only the external front ends replaced) are saved through antismash.common.json and regenerated via "
           "Class.from_json, module.regenerate_previous_results or main.run_module over 1-4 cycles; unchanged settings must give byte-identical "
           "JSON and identical record snapshots, changed schema/record/strictness/rules/multipliers/thresholds must give None or an exception. A results file written the way main does is read back with the real main.read_data and reused over 1-2 cycles (records with and without regions).",
      note="No external binaries are run; HMMER/BLAST/MEME/SVM front ends are replaced by generated hits. clusterblast-family and cluster_compare results are not covered (they cannot be built without their databases). Area formation after reuse is left to C05/C10/C17.",
      design="3/C11")
CHECKS["C19"] = dict(category="exploration",
      technique="Hypothesis region layouts (windows rotated onto the ring so that each origin branch is reached, with branch counters) and direct predicates on build_area_rows / js.convert_regions output",
      text="Real records (40-3000 bases, 0-8 protoclusters incl. sideloaded with unequal neighbourhoods, subregions, origin-spanning and multi-exon "
           "genes, whole-record regions) get regions from the real creation code; build_area_rows and js.convert_regions output is checked for: every "
           "protocluster/displayed candidate/subregion drawn exactly once or as two linked halves, no shared base on a row, core inside extent, "
           "everything inside the announced range, exact shifted positions and genome order for origin-crossing regions, genes once/in range/linked.",
      note="Layouts on which region creation raises (C06's subject) are counted and skipped. Row minimality and non-coordinate attributes are not judged.",
      design="3/C19")
CHECKS["C13"] = dict(category="exploration",
      technique="exhaustive enumeration of hit sets over a coordinate grid (<=3 hits, both modes) x all input orders, Hypothesis tie-heavy hit multisets, validity predicates per statement clause and permutation invariance",
      text="refine_hmmscan_results (both modes), hmmer.remove_overlapping, filter_results/filter_result_multiple and "
           "filter_nonterminal_docking_domains are run over every set of <=3 hits on a grid and random multisets of up to 7 hits (equal "
           "starts, equal scores, nesting, chains, fragments) under all input orders (<=4 hits: all n!, more: a fixed family plus every order "
           "the internal set can give equal-start hits): sorted, no overlap beyond the margin, every output an input or a legal merge, every "
           "drop explained by a kept better hit or a more complete alternative, and identical results for every order.",
      note="Two open known findings, both stage order and a maintainer decision (a complete hit displaced by a short fragment that is then "
           "removed as incomplete; a hit displaced by an equivalent profile's hit that the one-per-profile stage then removes). The composition "
           "of the two per-gene filters is judged through the real find_hmmer_hits with a replaced hmmsearch output. Cross-process hash-seed "
           "invariance is C17's.",
      design="3/C13")
CHECKS["C06"] = dict(category="exploration",
      technique="exhaustive enumeration of area multisets on small lines/rings + Hypothesis layouts against union-find components on the set-of-bases model; Hypothesis rule-based state machine over add/clear/create histories with invariants after every step",
      text="Every multiset of up to 3 arcs (4 on the smallest records) on lines and rings up to length 6 (thorough 9), and random layouts of up to 11 "
           "subregions / candidate clusters / protoclusters on records up to 3000 bases, go through Record.create_regions: creation must succeed, "
           "regions are disjoint, in bijection with the connected components of 'areas overlap', span exactly the union of their members, and "
           "are numbered in location order. A RuleBasedStateMachine (10 rules, 50 steps) and a weighted plain-data history generator check "
           "numbering, lookup identity, parent links, cds.region and re-creation equality after every step.",
      note="Location order is asserted among features that do not cross the origin. Exceptions from candidate cluster creation end a case without verdict (C05).",
      design="3/C06")
CHECKS["C17"] = dict(category="exploration",
      technique="differential execution of tie-heavy Hypothesis cases in a pool of long-lived child processes with different PYTHONHASHSEED values and perturbed memory layouts; equality of per-stage sha256 digests of canonical dumps",
      text="Each generated case (equal starts/scores/coordinates/products) is executed twice in each of 10 (thorough 16) child processes started "
           "with hash seeds {0..6, 4294967295} plus seeds drawn from VERIF_SEED, each allocating a child-specific amount of ballast first; stages "
           "compared: refine_hmmscan_results (both modes), hmmer.remove_overlapping, filter_results/_multiple, full rule detection "
           "(hmm_detection.run_on_record with dynamic profiles) -> protoclusters and CDS annotations, candidate/region formation and numbering, "
           "GenBank text, per-region GenBank, results JSON. Any digest disagreement is a violation with the differing path reported.",
      note="A sample of hash seeds and allocation patterns, not all 2^32; only agreement between runs is asserted, never which order is right.",
      design="3/C17")
CHECKS["C10"] = dict(category="exploration",
      technique="Hypothesis annotated-record generator (every feature class, linear/circular, origin-spanning features) with GenBank and JSON round trips, second-write fixed point and accessor-level structural comparison against the original and against the input spec",
      text="Generated records carrying genes (gene functions, sec_met, NRPS_PKS, codon_start, partial ends), PFAM/aS domains, motifs, prepeptides, "
           "modules, (sideloaded) protoclusters and subregions, candidates of every kind and regions are written to GenBank text and to the "
           "results JSON (record_to_json, AntismashResults.write_to_file/from_file incl. bz2 and schema refusal) and read back; sequence, topology, "
           "multiset of emitted features, area numbering and cross references, gene functions, domain attributes and secmet locations must be "
           "equal, the second write must be identical to the first, and the first write is judged against the input spec.",
      note="Four open known findings: equal-coordinate areas/genes swap numbers on reload (pinned by TestRegionManipulation.test_creation_overlapping), "
           "ambiguous gene-function text, prepeptide location rebuilt from its sections, a long locus tag inside the free-text smCOG tree note "
           "gains a blank. Module results in the JSON are C11's.",
      design="3/C10")
NOT_YET = {}

def main():
    props = [json.loads(l) for l in open(os.path.join(HERE, "properties.jsonl"))]
    checks = []
    not_applicable = []
    for prop in props:
        pid = prop["id"]
        if pid in CHECKS:
            c = CHECKS[pid]
            checks.append({
                "property_id": pid,
                "quick_cmd": f"/venv/bin/python run_check.py {pid} --tier quick",
                "thorough_cmd": f"/venv/bin/python run_check.py {pid} --tier thorough",
                "evidence_file": f"/verif/evidence/{pid}.json",
                "replay_cmd_template": f"/venv/bin/python run_check.py {pid} --replay {{path}}",
                "engine": "run_check",
                "level_claimed": {"category": c["category"], "text": c["text"], "design_ref": c["design"]},
                "level_note": c["note"],
                "technique": c["technique"],
            })
        else:
            not_applicable.append({"property_id": pid, "reason": NOT_YET.get(
                pid, "check not built yet in this revision (planned: property-based testing, see DESIGN.md section 3); not claimed")})
    manifest = {
        "version": 1,
        "setup_cmd": "sh setup.sh",
        "hooks": {
            "guard": "ANTISMASH_VERIF",
            "enable": "no source hooks are needed; checks import /repo's working tree directly (run_check.py puts /repo first on sys.path)",
            "baseline_off_cmd": "cd /repo && /venv/bin/python -m pytest -ra -q -p no:cacheprovider --timeout=900 --continue-on-collection-errors",
            "source_commits": [],
            "add_only": True,
        },
        "engines": [{"name": "run_check", "path": "/verif/run_check.py",
                     "serves_properties": sorted(CHECKS),
                     "kind_free_text": "Hypothesis 6.168 property-based tests, rule-based state machines, bounded-exhaustive "
                                       "enumeration and fault enumeration against independent reference models"}],
        "checks": checks,
        "notes": "All checks run /repo's current working tree in-process (no build step). Exit 0 held / 1 violation / 2 harness "
                 "error. Known findings: known_findings.json. Seeds: VERIF_SEED. Genuine defects repaired in /repo are 'fix:' commits.",
        "not_applicable": not_applicable,
    }
    with open(os.path.join(HERE, "MANIFEST.json"), "w") as handle:
        json.dump(manifest, handle, indent=1)
        handle.write("\n")
    print(f"claimed={len(checks)} not_claimed={len(not_applicable)}")

if __name__ == "__main__":
    main()
