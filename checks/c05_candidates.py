""" C05 - candidate clusters group protoclusters by the documented kinds """

from __future__ import annotations

import itertools

from hypothesis import strategies as st

from vlib import gen, ring
from vlib.build import make_cds, make_protocluster, make_record, to_loc
from vlib.runner import Violation, code_under_test

PROPERTY_ID = "C05"
LEVEL = "exploration"
RULE = ("Random: records of 60..3000 bases, linear or circular, with 2-9 genes built by construction (touching, "
        "overlapping, nested, origin-spanning; CORE gene functions drawn with a bias to the products of the "
        "protoclusters whose core holds the gene); 1-8 protoclusters (one in ten sideloaded), each made as: core = span "
        "of 1-3 consecutive genes / copy of an earlier protocluster (identical coordinates, or same core with another "
        "neighbourhood) / twin (same core, other product, a gene of the core made a core gene of both) / "
        "core inside an earlier core / whole protocluster inside an earlier extent / extent starting -1, 0, +1 bases "
        "from the end of an earlier extent / free arc anchored on earlier edges; neighbourhoods from {0,1,2,5,20,50,"
        "L/10,L/4, sometimes L} per side, clipped on a line, wrapped on a ring (whole-record extents included). "
        "Every case is formed for all permutations of the input (<= 3 protoclusters) or 5 orders, plus the order "
        "Record.create_candidate_clusters() uses, plus through the record itself. Enumeration: one gene per three-base "
        "cell (even cells carry core genes of every product), every multiset of k protocluster shapes (core of 1-2 "
        "cells at every position x neighbourhood of 0-2 cells) on the line and on the ring, and every multiset of three "
        "shapes used twice each with different products (three hybrid pairs); two hybrid pairs x one protocluster of 1-3 "
        "cells without defining genes (form_bridge_enum); on the ring every extent across the origin x core position x "
        "every set of 2-4 one-cell protoclusters (form_spanning_enum); bounds in coverage.enumeration_plan / "
        "*_enumeration_cells. One random case in five comes from the forced family 'hybrid pairs in a row + bridging "
        "protoclusters (+ a hybrid pair covering two of them)', one in five from 'origin-spanning protocluster + small "
        "disjoint protoclusters before/after the origin + some elsewhere', one in six from 'chain of 4-7 protoclusters "
        "linked by shared genes / core overlap / extent overlap with the extent starts in any order relative to the "
        "cores'; one case in three of all of these is built with a history (part of the protoclusters and genes added "
        "after candidates were created once, candidates then cleared; form_history_enum: all pairs of shapes x which "
        "protocluster is late x all genes late) (form_chain_enum: every order of the extent starts for chains of 4-6, thorough 7). One random case in seven comes from the forced "
        "family 'short record, 2-5 protoclusters of one product whose extents are all the whole record, different "
        "cores' (form_ties_enum: every set of 2-3 such cores of 1-2 cells), and form_specs has a mode 'extent and "
        "product of an earlier protocluster, another core'; every case is formed again from freshly created objects "
        "(other creation order, other addresses; six times when such a tie exists) and the order in which each "
        "candidate lists its members must not change. Genes next to a "
        "core (inside the neighbourhood only) are given the protocluster's own product one time in six. Non-trivial: >= 3 protoclusters with at least two different relations among "
        "share-a-defining-gene / cores overlap / extents overlap, or a relation through an origin-spanning core or "
        "extent, or two related protoclusters with identical coordinates, or a same-coordinates promotion; distinct = "
        "sha1 of the spec (enumerated cases are distinct by construction).")
ASSUMPTIONS = [
    "overlap/containment of locations are the set-of-bases definitions of vlib/ring.py (C04 judges the location code)",
    "'the span covering' a group is the hull on a line; on a ring it is what connect_locations returns (judged by "
    "C04), re-checked here for every candidate: covers its members, one arc, the minimal arc when shorter than L/2",
    "definition genes are the genes contained in the core (C04 containment) with a CORE function for the product; "
    "Protocluster.definition_cdses is compared with that for every protocluster (clause P0_definition_genes, the "
    "same assertion C08 makes) because 'sharing a defining gene' rests on it",
    "same-coordinates promotion (a weaker group with the coordinates of an existing candidate is folded into it and "
    "its extra members get singles) is documented in build_candidates and pinned by test_protocluster_promotion / "
    "test_overlap_interleave; it is part of the reference. Whether a promoted member that belongs to an interleaved "
    "group keeps a single is left open; two groups of one pass with the same coordinates are judged by the "
    "predicates only",
]

HYBRID, INTERLEAVED, NEIGHBOURING, SINGLE = "chemical_hybrid", "interleaved", "neighbouring", "single"



# --------------------------------------------------------------------------- helpers on specs

def _coords(loc: dict) -> tuple:
    """ (start, end) of a forward-strand area: start of the first part, end of the last """
    return (loc["parts"][0][0], loc["parts"][-1][1])


def _parts(loc: dict) -> tuple:
    return tuple(tuple(p) for p in loc["parts"])


def _definition_genes(spec: dict) -> list:
    """ per protocluster: names of genes inside its core carrying a CORE function for its product """
    result = []
    for proto in spec["protos"]:
        names = set()
        for gene in spec["genes"]:
            if proto.get("sideloaded"):
                break       # documented: a sideloaded protocluster has no definition genes
            if proto["product"] in gene.get("core_for", []) and ring.contains(proto["core"], gene["loc"]):
                names.add(gene["name"])
        result.append(names)
    return result


def _components(nodes: list, related) -> list:
    """ connected components (lists of nodes, in node order) of the symmetric relation """
    parent = {node: node for node in nodes}

    def find(node):
        while parent[node] != node:
            parent[node] = parent[parent[node]]
            node = parent[node]
        return node

    for one, two in itertools.combinations(nodes, 2):
        if related(one, two):
            root_one, root_two = find(one), find(two)
            if root_one != root_two:
                parent[root_two] = root_one
    groups: dict = {}
    for node in nodes:
        groups.setdefault(find(node), []).append(node)
    return list(groups.values())


def _make_span(spec: dict):
    """ the span covering a list of locations: the hull on a line; on a ring connect_locations (judged by
        C04; its contract is re-checked here for every candidate location) """
    if not spec["circular"]:
        def hull(locs: list) -> dict:
            return {"parts": [[min(p[0] for loc in locs for p in loc["parts"]),
                               max(p[1] for loc in locs for p in loc["parts"])]], "strand": 1}
        return hull
    from antismash.common.secmet.locations import connect_locations
    length = spec["L"]
    cache: dict = {}

    def connect(locs: list) -> dict:
        key = tuple(sorted(_parts(loc) for loc in locs))
        if key not in cache:
            cache[key] = ring.from_bio(connect_locations([to_loc({"parts": [list(p) for p in parts], "strand": 1})
                                                          for parts in key], length))
        return cache[key]
    return connect


# --------------------------------------------------------------------------- the reference model

class Reference:
    """ The grouping the statement describes, plus the same-coordinates promotion that build_candidates documents
        and the repository's tests pin (test_protocluster_promotion, test_overlap_interleave). Nothing in here
        calls the formation code. """

    def __init__(self, spec: dict, span) -> None:
        self.protos = spec["protos"]
        self.count = len(self.protos)
        self.span = span
        self.defs = _definition_genes(spec)
        self.existing: dict = {}      # coords -> [kind, set(members), pass of the last change]
        self.extras: set = set()
        self.ambiguous: list = []     # reasons why no exact comparison is made
        self.collisions: list = []    # (members so far, members of the colliding group) per same-pass collision
        self.absorbed: set = set()    # members of hybrid / interleaved groups
        self.result: set = set()
        self.optional: set = set()    # singles the statement neither demands nor forbids
        self.big_span = False
        self.labels: set = set()      # structural classes of the input, for the coverage counters
        self._run()

    def extent_of(self, members) -> dict:
        return self._checked([self.protos[i]["loc"] for i in sorted(members)])

    def core_of(self, members) -> dict:
        return self._checked([self.protos[i]["core"] for i in sorted(members)])

    def _checked(self, locs: list) -> dict:
        result = self.span(locs)
        if len(locs) > 1:
            union = set()
            for loc in locs:
                union |= ring.bases(loc)
            if ring.bases(result) != union:
                self.big_span = True
        return result

    def _build(self, groups: list, kind: str, number: int) -> None:
        for group in groups:
            key = _coords(self.extent_of(group))
            current = self.existing.get(key)
            if current is None:
                self.existing[key] = [kind, set(group), number]
                continue
            extras = set(group) - current[1]
            if not extras:
                continue
            if current[2] == number:
                # two groups of one pass with the same coordinates: which one keeps its singles depends on
                # the order the code happens to visit them in; nothing documents that
                self.ambiguous.append("same_pass_collision")
                self.collisions.append((set(current[1]), set(group)))
            current[1] |= extras
            current[2] = number
            self.extras |= extras

    def _units(self) -> list:
        return [("cand", key) for key in sorted(self.existing)]

    def _members(self, unit) -> set:
        return set(self.existing[unit[1]][1]) if unit[0] == "cand" else {unit[1]}

    def _grouping_pass(self, units: list, related, name: str) -> list:
        groups = []
        for comp in _components(units, related):
            if len(comp) > 1:
                groups.append(set().union(*(self._members(unit) for unit in comp)))
            if len(comp) >= 4:
                self.labels.add(f"{name}_component_of_4_or_more_units")
            plain = [unit[1] for unit in comp if unit[0] == "proto"]
            if len(plain) >= 5:
                self.labels.add(f"{name}_chain_of_5_or_more_protoclusters")
        candidates = [unit for unit in units if unit[0] == "cand"]
        for unit in candidates:
            linked = [other for other in candidates if other != unit and related(unit, other)]
            if any(not related(one, two) for one, two in itertools.combinations(linked, 2)):
                self.labels.add(f"{name}_candidate_bridges_unrelated_candidates")
        for unit in units:
            if unit[0] != "proto":
                continue
            linked = [other for other in candidates if related(unit, other)]
            if linked and len(candidates) > 1:
                self.labels.add(f"{name}_protocluster_joins_one_of_several_candidates")
            if any(not related(one, two) for one, two in itertools.combinations(linked, 2)):
                # the protocluster is the only thing that connects two candidates
                self.labels.add(f"{name}_protocluster_bridges_unrelated_candidates")
            if name == "neighbouring" and linked and any(
                    other[0] == "proto" and other != unit and related(unit, other) for other in units):
                self.labels.add("neighbouring_chain_candidate_single_single")
            if name == "neighbouring" and len(self.protos[unit[1]]["loc"]["parts"]) > 1:
                peers = [other for other in units if other[0] == "proto" and other != unit and related(unit, other)]
                if any(not related(one, two) for one, two in itertools.combinations(peers, 2)):
                    self.labels.add("neighbouring_spanning_single_with_unrelated_neighbours")
        return groups

    def _run(self) -> None:
        protos = self.protos
        everything = list(range(self.count))
        # 1. chemical hybrids
        comps = [comp for comp in _components(everything, lambda a, b: bool(self.defs[a] & self.defs[b]))
                 if len(comp) > 1]
        paired = {i for comp in comps for i in comp}
        groups = []
        for comp in comps:
            if len(comp) >= 4:
                self.labels.add("hybrid_component_of_4_or_more_units")
            if len(comp) >= 5:
                self.labels.add("hybrid_component_of_5_or_more_units")
            core = self.core_of(comp)
            members = set(comp)
            for other in everything:
                if other not in paired and ring.contains(core, protos[other]["core"]):
                    members.add(other)
            groups.append(members)
        absorbed = {i for g in groups for i in g}
        self._build(groups, HYBRID, 1)

        # 2. interleaved: units are the hybrid candidates and the protoclusters not in one
        units = self._units() + [("proto", i) for i in everything if i not in absorbed]
        cores = {unit: self.core_of(self._members(unit)) for unit in units}
        if len(absorbed) < self.count:
            for unit in units:
                if unit[0] == "cand" and len(cores[unit]["parts"]) > 1 and any(
                        len(protos[i]["core"]["parts"]) == 1 for i in self._members(unit)):
                    self.labels.add("hybrid_core_spans_origin_with_plain_member")
        groups = self._grouping_pass(units, lambda a, b: ring.overlap(cores[a], cores[b]), "interleaved")
        absorbed |= {i for g in groups for i in g}
        self._build(groups, INTERLEAVED, 2)
        self.absorbed = set(absorbed)

        # 3. neighbouring: units are all candidates so far and the protoclusters in none of them
        units = self._units() + [("proto", i) for i in everything if i not in absorbed]
        extents = {unit: self.extent_of(self._members(unit)) for unit in units}

        def neighbours(one, two) -> bool:
            return ring.overlap(extents[one], extents[two])

        groups = self._grouping_pass(units, neighbours, "neighbouring")
        self._build(groups, NEIGHBOURING, 3)

        # 4. singles for everything not absorbed and for the promoted extras
        result = set()
        for kind, members, _ in self.existing.values():
            result.add((kind, tuple(sorted(members)), _parts(self.extent_of(members))))
        for index in sorted((set(everything) - absorbed) | self.extras):
            loc = protos[index]["loc"]
            parent = self.existing.get(_coords(loc))
            entry = (SINGLE, (index,), _parts(loc))
            if index in absorbed:
                # a promoted extra that sits in an interleaved group: the statement does not say whether it
                # keeps a single (the documentation says no, test_overlap_interleave says yes)
                self.optional.add(entry)
            if parent is not None and index in parent[1]:
                continue
            result.add(entry)
        self.result = result


# --------------------------------------------------------------------------- building and observing

def _build_record(spec: dict, creation: list = None, padding: int = 0, keep: list = None):
    """ creation: the order in which the protocluster objects are created (they are still added to the record in
        spec order); padding / keep: throw-away objects allocated between them and a list that keeps them alive, so
        that a re-creation puts the same protoclusters at other memory addresses in another relative order.
        Plain build: genes, then protoclusters. With spec["late_protos"] / spec["late_genes"] the record has a
        history: the early genes and protoclusters are added, candidates are created, then the late protoclusters
        and after them the late genes are added, and the candidates are cleared again. The content is the same,
        so the outcome has to be the same as for the plain build (the statement speaks of the set of protoclusters
        in a record, not of how the record got there). """
    from antismash.common.secmet.features.protocluster import SideloadedProtocluster
    from antismash.common.secmet.qualifiers.gene_functions import GeneFunction
    record = make_record(spec["L"], spec["circular"])
    late_protos = set(spec.get("late_protos") or [])
    late_genes = set(spec.get("late_genes") or [])
    genes = []
    for gene in spec["genes"]:
        cds = make_cds(gene["loc"], gene["name"])
        for product in gene.get("core_for", []):
            cds.gene_functions.add(GeneFunction.CORE, "verif", "desc", product)
        genes.append((gene["name"], cds))
    protos = [None] * len(spec["protos"])
    for position, index in enumerate(creation if creation is not None else range(len(protos))):
        proto = spec["protos"][index]
        if keep is not None and padding:
            keep.append([bytearray(16 * ((position + padding) % 7 + 1)) for _ in range(padding)])
        if proto.get("sideloaded"):
            feature = SideloadedProtocluster(to_loc(proto["core"]), to_loc(proto["loc"]), "verif", proto["product"])
        else:
            feature = make_protocluster(proto["core"], proto["loc"], product=proto["product"])
        protos[index] = feature
    for name, cds in genes:
        if name not in late_genes:
            record.add_cds_feature(cds)
    for index, feature in enumerate(protos):
        if index not in late_protos:
            record.add_protocluster(feature)
    if late_protos or late_genes:
        with code_under_test("formation_total"):
            record.create_candidate_clusters()
        with code_under_test("history_total"):
            for index, feature in enumerate(protos):
                if index in late_protos:
                    record.add_protocluster(feature)
            for name, cds in genes:
                if name in late_genes:
                    record.add_cds_feature(cds)
            record.clear_candidate_clusters()
    return record, protos


def _observe(candidates, index_of: dict) -> tuple:
    """ -> (list of (kind, sorted member indices, location parts), some member listed twice) """
    seen = []
    repeated = False
    for cand in candidates:
        members = [index_of[id(proto)] for proto in cand.protoclusters]
        repeated = repeated or len(members) != len(set(members))
        seen.append((str(cand.kind), tuple(sorted(set(members))), _parts(ring.from_bio(cand.location))))
    return seen, repeated


def _proto_key(proto: dict) -> tuple:
    """ what identifies a protocluster for the order of the members of a candidate: core, product and extent
        (not the class: a sideloaded protocluster and a detected one may agree in all of these and in the tool) """
    return (_parts(proto["core"]), proto["product"], _parts(proto["loc"]))


def _member_orders(spec: dict, candidates, index_of: dict) -> list:
    """ per candidate, in the order returned: (kind, location, the members in the order the candidate lists them,
        each identified by core + product + extent) """
    return [(str(cand.kind), _parts(ring.from_bio(cand.location)),
             tuple(_proto_key(spec["protos"][index_of[id(proto)]]) for proto in cand.protoclusters))
            for cand in candidates]


def _tie_groups(spec: dict) -> list:
    """ groups of protoclusters with the same extent and product but different cores: nothing but the core tells
        them apart (the tool is the same for all protoclusters built here) """
    groups: dict = {}
    for index, proto in enumerate(spec["protos"]):
        groups.setdefault((_parts(proto["loc"]), proto["product"]), set()).add(_parts(proto["core"]))
    return [cores for cores in groups.values() if len(cores) > 1]


def _fmt(entries) -> list:
    return [[kind, list(members), [list(p) for p in parts]] for kind, members, parts in sorted(entries)]


# --------------------------------------------------------------------------- judging one outcome

def _predicates(spec: dict, got: list, model: Reference) -> list:
    """ the clauses read directly from the statement; -> [(clause, detail)] """
    failures = []
    length, circular = spec["L"], spec["circular"]
    locs = [p["loc"] for p in spec["protos"]]
    cores = [p["core"] for p in spec["protos"]]
    defs = model.defs
    everything = list(range(len(locs)))

    if len(got) != len(set(got)):
        failures.append(("P3_duplicate", {"repeated": _fmt(e for e in set(got) if got.count(e) > 1)}))
    covered = {i for _, members, _ in got for i in members}
    if covered != set(everything):
        failures.append(("P1_every_protocluster", {"missing": sorted(set(everything) - covered)}))

    for kind, members, parts in got:
        loc = {"parts": [list(p) for p in parts], "strand": 1}
        union = set()
        for i in members:
            union |= ring.bases(locs[i])
        problem = ring.wellformed(loc, length, span=True)
        if problem is None:
            bases = ring.bases(loc)
            if not union <= bases:
                problem = "does not cover its members"
            elif not circular:
                if parts != (ring.hull_line(union),):
                    problem = "not the hull of its members"
            elif not ring.is_arc(bases, length):
                problem = "not a single arc"
            elif len(members) == 1 and parts != _parts(locs[members[0]]):
                problem = "a single that differs from its protocluster"
            else:
                arcs = ring.min_arcs(union, length)
                if 2 * arcs[0][1] < length and bases != ring.arc_bases(arcs[0][0], arcs[0][1], length):
                    problem = "not the minimal arc"
        if problem:
            failures.append(("P2_location", {"candidate": _fmt([(kind, members, parts)])[0], "problem": problem}))

    keyed: dict = {}
    for kind, members, parts in set(got):
        keyed.setdefault((members, (parts[0][0], parts[-1][1])), []).append(kind)
    for key, kinds in sorted(keyed.items()):
        if len(kinds) > 1:
            failures.append(("P3_duplicate", {"members": list(key[0]), "coords": list(key[1]), "kinds": sorted(kinds)}))

    relations = [
        (HYBRID, "P5_hybrid_group_split", "P11_hybrid_not_closed",
         lambda a, b: bool(defs[a] & defs[b]), (HYBRID,)),
        (INTERLEAVED, "P6_interleaved_group_split", "P12_interleaved_not_closed",
         lambda a, b: ring.overlap(cores[a], cores[b]), (HYBRID, INTERLEAVED)),
        (NEIGHBOURING, "P7_neighbouring_group_split", "P13_neighbouring_not_closed",
         lambda a, b: ring.overlap(locs[a], locs[b]), (HYBRID, INTERLEAVED, NEIGHBOURING)),
    ]
    for own_kind, split_clause, closed_clause, related, kinds in relations:
        # nothing missing: a transitive group sits, whole, in one candidate of that kind (or a stronger one)
        for comp in _components(everything, related):
            wanted = set(comp)
            if len(comp) > 1 and not any(kind in kinds and wanted <= set(members) for kind, members, _ in got):
                failures.append((split_clause, {"group": comp}))
                break
        # nothing cut off: a candidate of the kind never stops in the middle of a transitive group
        for kind, members, parts in got:
            if kind != own_kind:
                continue
            outside = [i for i in everything if i not in members and any(related(i, m) for m in members)]
            if outside:
                failures.append((closed_clause, {"candidate": _fmt([(kind, members, parts)])[0], "related_outside": outside}))
                break

    # nothing invented: the members of every candidate are one connected piece of the extent-overlap graph
    if not model.big_span:
        component_of = {}
        for number, comp in enumerate(_components(everything, lambda a, b: ring.overlap(locs[a], locs[b]))):
            for i in comp:
                component_of[i] = number
        for kind, members, parts in got:
            if len({component_of[i] for i in members}) > 1:
                failures.append(("P10_unrelated_members", {"candidate": _fmt([(kind, members, parts)])[0]}))
                break

    in_strong = {i for kind, members, _ in got if kind in (HYBRID, INTERLEAVED) for i in members}
    singles = set()
    for kind, members, _ in got:
        if kind == SINGLE:
            if len(members) != 1:
                failures.append(("P9_single_size", {"members": list(members)}))
            singles.update(members)
    for i in everything:
        parent = any(kind != SINGLE and i in members and (parts[0][0], parts[-1][1]) == _coords(locs[i])
                     for kind, members, parts in got)
        # "absorbed" is the statement's notion (shares a defining gene / core inside the group's core span /
        # cores overlap), not mere membership of a hybrid reached through the same-coordinates promotion
        unabsorbed = i not in model.absorbed and (not model.ambiguous or i not in in_strong)
        if unabsorbed and i not in singles and not parent:
            failures.append(("P8_single_missing", {"protocluster": i}))
        if i in singles and parent:
            failures.append(("P8_single_duplicates_parent", {"protocluster": i}))
        if i in singles and i in in_strong and not model.ambiguous and i not in model.extras:
            failures.append(("P9_single_of_absorbed", {"protocluster": i}))
    return failures


def _judge(spec: dict, got: list, model: Reference) -> list:
    failures = _predicates(spec, got, model)
    if not model.ambiguous and set(got) - model.optional != model.result - model.optional:
        only_code = set(got) - model.result - model.optional
        only_model = model.result - set(got) - model.optional
        strip = lambda entries: {(m, p) for _, m, p in entries}  # noqa: E731
        clause = "model_kind_label" if strip(only_code) == strip(only_model) else "model_grouping"
        failures.append((clause, {"only_code": _fmt(only_code), "only_model": _fmt(only_model)}))
    return failures


def _check_core_location(spec: dict, cand, index_of: dict) -> None:
    """ CandidateCluster.core_location is the span of the member cores """
    core = ring.from_bio(cand.core_location)
    union = set()
    for proto in cand.protoclusters:
        union |= ring.bases(spec["protos"][index_of[id(proto)]]["core"])
    problem = ring.wellformed(core, spec["L"], span=True)
    if problem is None and not union <= ring.bases(core):
        problem = "does not cover the member cores"
    if problem is None and not spec["circular"] and _parts(core) != (ring.hull_line(union),):
        problem = "not the hull of the member cores"
    if problem is None and spec["circular"] and not ring.is_arc(ring.bases(core), spec["L"]):
        problem = "not a single arc"
    if problem:
        raise Violation("P2_core_location", {"core_location": core, "problem": problem,
                                             "members": sorted(index_of[id(p)] for p in cand.protoclusters)})


def check_form(spec: dict) -> dict:
    from antismash.common.secmet.features.candidate_cluster import formation
    length, circular = spec["L"], spec["circular"]
    record, protos = _build_record(spec)
    index_of = {id(proto): index for index, proto in enumerate(protos)}
    defs = _definition_genes(spec)
    for index, (proto, want) in enumerate(zip(protos, defs)):
        # "sharing a defining gene": the defining genes are the genes inside the core (the documented meaning of
        # the core location) that carry a core function for the product; also asserted by C08
        got_names = {cds.get_name() for cds in proto.definition_cdses}
        if got_names != want:
            raise Violation("P0_definition_genes", {"protocluster": index, "core": spec["protos"][index]["core"],
                                                    "got": sorted(got_names), "want": sorted(want)})
    wrap = length if circular else None
    orders = [list(perm) for perm in spec["perms"]]
    orders.append([index_of[id(proto)] for proto in record.get_protoclusters()])   # what the record passes on
    repeated_member = False
    member_orders: list = []      # (what was run, per candidate the members in listed order)

    def run_all() -> list:
        nonlocal repeated_member
        outcomes = []
        for order in orders:
            with code_under_test("formation_total"):
                created = formation.create_candidates_from_protoclusters([protos[i] for i in order], wrap)
            member_orders.append(({"order": order, "creation": "spec order"},
                                  _member_orders(spec, created, index_of)))
            seen, repeated = _observe(created, index_of)
            repeated_member = repeated_member or repeated
            outcomes.append(seen)
            for cand in created:
                _check_core_location(spec, cand, index_of)
        return outcomes

    outcomes = run_all()
    with code_under_test("formation_total"):
        returned = record.create_candidate_clusters()
    seen, _ = _observe(record.get_candidate_clusters(), index_of)
    if returned != len(seen) or sorted(seen) != sorted(outcomes[-1]):
        raise Violation("record_differs_from_function", {"returned": returned, "stored": _fmt(seen),
                                                         "function": _fmt(outcomes[-1])})

    span = _make_span(spec)
    model = Reference(spec, span)

    def judge_all(results: list) -> list:
        failures = []
        distinct: list = []
        for order, got in zip(orders, results):
            if not any(sorted(got) == sorted(other) for _, other in distinct):
                distinct.append((order, got))
        if len(distinct) > 1:
            (order_a, got_a), (order_b, got_b) = distinct[0], distinct[1]
            failures.append(("P4_order", {"order_a": order_a, "order_b": order_b,
                                          "only_a": _fmt(set(got_a) - set(got_b)),
                                          "only_b": _fmt(set(got_b) - set(got_a))}))
        for order, got in distinct:
            failures.extend((clause, dict(detail, order=order)) for clause, detail in _judge(spec, got, model))
        return failures

    failures = judge_all(outcomes)
    if failures:
        detail = dict(failures[0][1])
        detail["all_failed"] = sorted({clause for clause, _ in failures})
        raise Violation(failures[0][0], detail)

    # "the outcome does not depend on the order in which protoclusters were supplied": the outcome includes the
    # order in which every candidate lists its members (products, detection rules and the protocluster numbers
    # written out follow it). The same protoclusters are formed again from freshly created objects, made in another
    # order with throw-away allocations in between, so that anything ordered by object identity (set iteration)
    # shows; all objects of earlier rounds stay alive, so the new ones cannot reuse their addresses.
    ties = _tie_groups(spec)
    count = len(protos)
    if count > 1:
        keep: list = [protos, record]
        creations = [list(range(count))[::-1]]
        if ties:
            creations += [list(range(count)), list(range(1, count)) + [0], list(range(count))[::-1],
                          list(range(count))[::2] + list(range(count))[1::2], list(range(count))[::-1]]
        for number, creation in enumerate(creations):
            again_record, again = _build_record(spec, creation, padding=number + 1, keep=keep)
            keep.extend([again_record, again])
            again_index = {id(proto): index for index, proto in enumerate(again)}
            for order in (orders if ties else orders[:2]):
                with code_under_test("formation_total"):
                    created = formation.create_candidates_from_protoclusters([again[i] for i in order], wrap)
                member_orders.append(({"order": order, "creation": creation, "padding": number + 1},
                                      _member_orders(spec, created, again_index)))
    first_run, first = member_orders[0]
    for run, listed in member_orders[1:]:
        if sorted(listed) != sorted(first):
            only_a = sorted(set(first) - set(listed))
            only_b = sorted(set(listed) - set(first))
            raise Violation("P4_member_order", {"run_a": first_run, "run_b": run,
                                                "only_a": [list(map(list, e[2])) for e in only_a][:3],
                                                "only_b": [list(map(list, e[2])) for e in only_b][:3],
                                                "candidates_a": [[e[0], list(e[1])] for e in only_a][:3]})

    return _describe(spec, outcomes[0], model, repeated_member)


def _describe(spec: dict, got: list, model: Reference, repeated_member: bool) -> dict:
    """ class labels and the non-trivial rule """
    protos = spec["protos"]
    count = len(protos)
    classes = ["circular" if spec["circular"] else "linear", f"protos_{min(count, 8)}"]
    kinds_present = {kind for kind, _, _ in got}
    classes.extend(f"has_{kind}" for kind in sorted(kinds_present))
    relations = set()
    across_origin = False
    identical = False
    for a, b in itertools.combinations(range(count), 2):
        one, two = protos[a], protos[b]
        if model.defs[a] & model.defs[b]:
            relation = "share_gene"
        elif ring.overlap(one["core"], two["core"]):
            relation = "core_overlap"
        elif ring.overlap(one["loc"], two["loc"]):
            relation = "extent_overlap"
        else:
            continue
        relations.add(relation)
        if _coords(one["loc"]) == _coords(two["loc"]):
            identical = True
        # a relation that exists through an area lying across the origin
        key = "loc" if relation == "extent_overlap" else "core"
        if len(one[key]["parts"]) > 1 or len(two[key]["parts"]) > 1:
            across_origin = True
    classes.extend(f"relation_{name}" for name in sorted(relations))
    if across_origin:
        classes.append("relation_through_origin_spanning_area")
    if identical:
        classes.append("identical_coordinates_pair")
    if _tie_groups(spec):
        classes.append("same_extent_same_product_different_cores")
    hybrids = sum(1 for kind, _, _ in got if kind == HYBRID)
    if hybrids > 1:
        classes.append("hybrids_3_or_more" if hybrids > 2 else "hybrids_2")
    if model.extras:
        classes.append("promotion")
    if model.ambiguous:
        classes.append("no_exact_" + model.ambiguous[0])
    if model.big_span:
        classes.append("span_larger_than_union")
    if repeated_member:
        classes.append("observed_member_listed_twice")
    if any(len(p["loc"]["parts"]) > 1 for p in protos):
        classes.append("origin_spanning_protocluster")
    # groups are merged in the order of their extents while the links come from the cores: count how far the two
    # orders disagree among related protoclusters
    inversions = 0
    for a, b in itertools.combinations(range(count), 2):
        one, two = protos[a], protos[b]
        if len(one["loc"]["parts"]) == 1 == len(two["loc"]["parts"]) and len(one["core"]["parts"]) == 1 \
                and len(two["core"]["parts"]) == 1 and ring.overlap(one["loc"], two["loc"]):
            by_core = one["core"]["parts"][0][0] - two["core"]["parts"][0][0]
            by_extent = one["loc"]["parts"][0][0] - two["loc"]["parts"][0][0]
            if by_core * by_extent < 0:
                inversions += 1
    if inversions >= 3:
        classes.append("extent_order_against_core_order_3_or_more_pairs")
    for index, proto in enumerate(protos):
        if len(proto["core"]["parts"]) > 1 and not proto.get("sideloaded") and any(
                proto["product"] in gene.get("core_for", []) and ring.contains(proto["loc"], gene["loc"])
                and not ring.contains(proto["core"], gene["loc"]) for gene in spec["genes"]):
            classes.append("spanning_core_with_own_core_gene_only_in_neighbourhood")
            break
    if any(p.get("sideloaded") for p in protos):
        classes.append("sideloaded_protocluster")
    late_protos = set(spec.get("late_protos") or [])
    late_genes = set(spec.get("late_genes") or [])
    if late_protos or late_genes:
        classes.append("history")
        if len(late_protos) < count and any(model.defs[i] & late_genes for i in late_protos):
            classes.append("history_late_protocluster_gets_late_defining_gene")
            if any(model.defs[i] & model.defs[j] & late_genes for i in late_protos for j in range(count) if j != i):
                classes.append("history_late_shared_defining_gene")
    classes.extend(sorted(model.labels))
    if spec.get("family"):
        classes.append("family_" + spec["family"])
    nontrivial = (count >= 3 and len(relations) >= 2) or across_origin or identical or bool(model.extras)
    return {"nontrivial": nontrivial, "classes": classes}


SUBCHECKS = {"form": check_form, "form_enum": check_form, "form_twins_enum": check_form,
             "form_bridge_enum": check_form, "form_spanning_enum": check_form, "form_chain_enum": check_form,
             "form_history_enum": check_form, "form_ties_enum": check_form}


def _sig_same_pass_tie(sub: str, spec: dict, clause: str, detail: dict) -> bool:
    """ C05-same-pass-collision-order. Failure mode: order dependence and nothing else, and the outcomes differ only
        in singles. Input class: two groups of one pass with the same coordinates (Reference.collisions) that hold
        a pair of protoclusters, one in each, with the same core and extent (so that no sort by location can tell
        the groups apart and the input order decides which is visited second); every differing single belongs to a
        member of such a pair of groups. """
    if clause != "P4_order" or not isinstance(detail, dict) or detail.get("all_failed") != ["P4_order"]:
        return False
    differing = (detail.get("only_a") or []) + (detail.get("only_b") or [])
    if not differing or any(kind != SINGLE or len(members) != 1 for kind, members, _ in differing):
        return False
    protos = spec["protos"]
    involved: set = set()
    for before, group in Reference(spec, _make_span(spec)).collisions:
        if any(protos[a]["core"]["parts"] == protos[b]["core"]["parts"]
               and protos[a]["loc"]["parts"] == protos[b]["loc"]["parts"] for a in before for b in group - before):
            involved |= before | group
    return all(members[0] in involved for _, members, _ in differing)


# The five findings of the first round are repaired in /repo (known_findings.json, status fixed; witnesses in
# replays/C05/); their names stay so that the fixed entries keep referring to something, they never match.
SIGNATURES: dict = {name: (lambda sub, spec, clause, detail: False)
                    for name in ("attached_single", "merge_single_pass", "candidate_scan_start",
                                 "cross_origin_partial_group")}
SIGNATURES["same_pass_collision_order"] = _sig_same_pass_tie


# --------------------------------------------------------------------------- generator

PRODUCTS = ["pa", "pb", "pc", "pd"]


def _arc_of(loc: dict, length: int) -> tuple:
    """ (start, size) of a contiguous forward location spec """
    if len(loc["parts"]) > 1:
        return loc["parts"][0][0], length - loc["parts"][0][0] + loc["parts"][1][1]
    return loc["parts"][0][0], loc["parts"][0][1] - loc["parts"][0][0]


def _gene_arc(loc: dict, length: int) -> tuple:
    """ (start, size) of the shortest arc holding the whole gene """
    if gen.is_span(loc):
        start = min(p[0] for p in loc["parts"] if p[1] == length)
        post = max(p[1] for p in loc["parts"] if p[0] < start)
        return start, length - start + post
    start = min(p[0] for p in loc["parts"])
    return start, max(p[1] for p in loc["parts"]) - start


def _extent(core_start: int, core_size: int, left: int, right: int, length: int, circular: bool) -> dict:
    if not circular:
        return {"parts": [[max(0, core_start - left), min(length, core_start + core_size + right)]], "strand": 1}
    spanning_core = core_start + core_size > length
    total = core_size + left + right
    if total >= length:
        if not spanning_core:
            return {"parts": [[0, length]], "strand": 1}
        spare = length - 1 - core_size
        left = min(left, spare // 2)
        right = min(right, spare - left)
        total = core_size + left + right
    return ring.arc_to_loc((core_start - left) % length, total, length, 1)


def _rotated(start: int, size: int, offset: int, length: int, circular: bool) -> dict:
    return ring.arc_to_loc((start + offset) % length if circular else start, size, length, 1)


@st.composite
def bridge_specs(draw):
    """ forced family: 2-3 chemical-hybrid pairs in a row whose cores do not overlap each other, and between
        neighbouring pairs a protocluster without defining genes reaching -1/0/1/2/5 bases into either side
        (core, or only the neighbourhood); one time in three a further hybrid pair whose core starts at or before
        one pair and reaches into the next (a candidate related to two candidates that are unrelated to each other);
        on a ring the whole layout is rotated so that it may lie across the origin """
    circular = draw(st.booleans())
    hybrids = draw(st.sampled_from([2, 2, 3, 3]))
    cover = draw(st.integers(0, 2)) == 0
    items: list = []     # (core start, core size, left, right, product, gene index or None)
    genes_at: list = []
    cursor = draw(st.integers(0, 40))
    ends: list = []
    starts: list = []
    hood = st.sampled_from([0, 0, 1, 5, 20])
    for number in range(hybrids):
        width = draw(st.integers(6, 40))
        shift = draw(st.integers(1, width - 3))
        second = draw(st.integers(3, 40))
        genes_at.append((cursor + shift, (f"h{number}a", f"h{number}b")))
        items.append((cursor, width, draw(hood), draw(hood), f"h{number}a"))
        items.append((cursor + shift, second, draw(hood), draw(hood), f"h{number}b"))
        starts.append(cursor)
        ends.append(max(cursor + width, cursor + shift + second))
        cursor = ends[-1] + draw(st.sampled_from([3, 5, 10, 30, 60] if cover else [1, 2, 3, 10, 30, 60]))
    reach = st.sampled_from([-1, 0, 1, 1, 2, 5])
    if cover:
        first = draw(st.integers(0, hybrids - 2))
        lo = max(0, starts[first] - draw(st.sampled_from([0, 1, 5])))
        hi = starts[first + 1] + draw(st.sampled_from([1, 2, 5]))
        genes_at.append((ends[first], ("cova", "covb")))      # the gap after the pair is at least 3 bases wide
        wide = draw(st.sampled_from([0, 0, 5, 20]))
        items.append((lo, hi - lo, wide, draw(hood), "cova"))
        items.append((ends[first], 3, draw(hood), draw(hood), "covb"))
    for number in range(hybrids - 1):
        for _ in range(draw(st.sampled_from([1, 1, 2]))):
            lo = ends[number] - draw(reach)
            hi = starts[number + 1] + draw(reach)
            if hi - lo < 1:
                lo, hi = ends[number] - 1, starts[number + 1] + 1
            items.append((lo, hi - lo, draw(hood), draw(hood), "bridge"))
    if draw(st.booleans()):
        items.append((cursor + 5, draw(st.integers(1, 20)), draw(hood), draw(hood), "far"))
        cursor += 30
    length = max(60, cursor + draw(st.integers(1, 80)))
    offset = draw(st.integers(0, length - 1)) if circular else 0
    genes = []
    for index, (at, products) in enumerate(genes_at):
        loc = _rotated(at, 3, offset, length, circular)
        loc["kind"] = "span" if len(loc["parts"]) > 1 else "simple"
        genes.append({"name": f"g{index}", "loc": loc, "core_for": list(products)})
    protos = []
    for start, size, left, right, product in draw(st.permutations(items)):
        begin = (start + offset) % length if circular else start
        protos.append({"core": ring.arc_to_loc(begin, size, length, 1),
                       "loc": _extent(begin, size, left, right, length, circular), "product": product})
    indices = list(range(len(protos)))
    perms = [indices, indices[::-1]] + [list(draw(st.permutations(indices))) for _ in range(3)]
    return {"L": length, "circular": circular, "genes": genes, "protos": protos, "perms": perms,
            "family": "hybrids_and_bridges"}


@st.composite
def spanning_specs(draw):
    """ forced family: a ring with one protocluster whose neighbourhood lies across the origin, 2-4 small mutually
        disjoint protoclusters inside the part before the origin, 0-2 inside the part after it, and 1-2 elsewhere;
        nothing shares a gene, gaps of -1/0/1 bases at the edges of the big one """
    pre = draw(st.integers(12, 200))
    post = draw(st.integers(3, 200))
    middle = draw(st.integers(10, 300))
    length = pre + post + middle
    core_size = draw(st.integers(1, min(pre, post, 30)))
    core_start = draw(st.sampled_from([length - pre, length - core_size // 2 - 1, length - 1, 0,
                                       max(0, post - core_size)]))
    core_start = min(core_start, length - pre + pre + post - core_size) % length
    big_core = ring.arc_to_loc(core_start, core_size, length, 1)
    big = {"core": big_core, "loc": ring.arc_to_loc(length - pre, pre + post, length, 1), "product": "big"}
    if not ring.contains(big["loc"], big_core):
        big["core"] = ring.arc_to_loc(length - 1, min(2, post + 1), length, 1)
    protos = [big]

    def smalls(lo: int, hi: int, count: int, label: str) -> None:
        """ disjoint small protoclusters inside [lo, hi), by construction """
        room = hi - lo
        count = min(count, room // 2)
        cursor = lo + draw(st.sampled_from([-1, 0, 0, 1, 2])) if label != "mid" else lo + draw(st.integers(1, 5))
        for number in range(count):
            left_room = (hi - cursor) - 2 * (count - number - 1)
            if left_room < 1:
                break
            size = draw(st.integers(1, max(1, min(left_room, room // count))))
            start = max(0, cursor) % length
            protos.append({"core": ring.arc_to_loc(start, size, length, 1),
                           "loc": ring.arc_to_loc(start, size, length, 1), "product": f"{label}{number}"})
            cursor = cursor + size + draw(st.sampled_from([1, 1, 2, 5]))

    smalls(length - pre, length, draw(st.integers(2, 4)), "pre")
    smalls(0, post, draw(st.integers(0, 2)), "post")
    smalls(post, length - pre, draw(st.integers(1, 2)), "mid")
    protos = [proto for proto in protos if proto["loc"]["parts"][-1][1] <= length]
    protos = list(draw(st.permutations(protos)))
    indices = list(range(len(protos)))
    perms = [indices, indices[::-1]] + [list(draw(st.permutations(indices))) for _ in range(3)]
    return {"L": length, "circular": True, "genes": [], "protos": protos, "perms": perms,
            "family": "spanning_single_and_singles"}


def _chain_case(links: list, widths: list, starts: list, length: int, circular: bool, offset: int) -> tuple:
    """ a chain of protoclusters whose cores follow each other left to right; link i says how core i and core
        i+1 are related: "gene" (cores overlap by 3-5 bases holding a gene that is a core gene of both products),
        "core" (cores overlap by one base, no gene in common), "extent" (cores one base apart, extents overlap);
        starts[i] = how far the extent of protocluster i reaches to the left of the first core (so the order of the
        extent starts is free while the cores stay in chain order).  -> (genes, protoclusters) """
    first = max(starts) + 1
    cores = []
    genes = []
    cursor = first
    for index, width in enumerate(widths):
        cores.append((cursor, width))
        if index == len(links):
            break
        link = links[index]
        if link == "gene":
            at = cursor + width - 3
            loc = _rotated(at, 3, offset, length, circular)
            loc["kind"] = "span" if len(loc["parts"]) > 1 else "simple"
            genes.append({"name": f"g{index}", "loc": loc, "core_for": [f"c{index}", f"c{index + 1}"]})
            cursor = at
        elif link == "core":
            cursor = cursor + width - 1
        else:
            cursor = cursor + width + 1
    protos = []
    for index, (start, width) in enumerate(cores):
        left = start - (first - 1 - starts[index])
        right = 2 if index < len(links) and links[index] == "extent" else 0
        begin = (start + offset) % length if circular else start
        protos.append({"core": ring.arc_to_loc(begin, width, length, 1),
                       "loc": _extent(begin, width, left, right, length, circular), "product": f"c{index}"})
    return genes, protos


@st.composite
def chain_specs(draw):
    """ forced family: chains of 4-7 protoclusters linked by shared genes / overlapping cores / overlapping extents,
        with the extent starts in any order relative to the cores """
    count = draw(st.integers(4, 7))
    links = [draw(st.sampled_from(["gene", "gene", "gene", "core", "core", "extent"])) for _ in range(count - 1)]
    if draw(st.booleans()):
        links = [draw(st.sampled_from(["gene", "core"]))] * (count - 1)
    widths = [draw(st.integers(8, 30)) for _ in range(count)]
    spread = draw(st.sampled_from([1, 2, 7]))
    ranks = list(draw(st.permutations(list(range(count)))))
    starts = [rank * spread for rank in ranks]
    total = max(starts) + 2 + sum(widths) + count + 4
    circular = draw(st.booleans())
    length = max(60, total + draw(st.integers(0, 60)))
    offset = draw(st.integers(0, length - 1)) if circular else 0
    genes, protos = _chain_case(links, widths, starts, length, circular, offset)
    order = list(draw(st.permutations(list(range(count)))))
    protos = [protos[i] for i in order]
    indices = list(range(count))
    perms = [indices, indices[::-1]] + [list(draw(st.permutations(indices))) for _ in range(3)]
    return {"L": length, "circular": circular, "genes": genes, "protos": protos, "perms": perms,
            "family": "chain_with_scrambled_extents"}


@st.composite
def tie_specs(draw):
    """ forced family: a short record (a contig, or a small ring) with 2-5 protoclusters of ONE product whose
        neighbourhoods are all cut by the record ends (every extent is the whole record) and whose cores differ
        (apart, touching, overlapping, nested; some sharing a defining gene), plus 0-2 protoclusters of another
        product / with a smaller extent: within a candidate only the cores order the tied members """
    length = draw(st.integers(60, 400))
    circular = draw(st.integers(0, 3)) == 0
    whole = {"parts": [[0, length]], "strand": 1}
    count = draw(st.integers(2, 5))
    protos = []
    cuts = sorted(draw(st.sets(st.integers(0, length - 1), min_size=count + 1, max_size=2 * count)))
    for _ in range(count):
        lo = draw(st.integers(0, len(cuts) - 2))
        hi = draw(st.integers(lo + 1, min(len(cuts) - 1, lo + 2)))
        protos.append({"core": {"parts": [[cuts[lo], cuts[hi]]], "strand": 1}, "loc": whole, "product": "pa"})
    for _ in range(draw(st.sampled_from([0, 0, 1, 2]))):
        lo = draw(st.integers(0, len(cuts) - 2))
        core = {"parts": [[cuts[lo], cuts[lo + 1]]], "strand": 1}
        style = draw(st.integers(0, 2))
        protos.append({"core": core, "loc": core if style == 0 else whole, "product": "pb" if style < 2 else "pa"})
    genes = []
    for number in range(draw(st.integers(0, 3))):
        lo = draw(st.integers(0, len(cuts) - 2))
        if cuts[lo + 1] - cuts[lo] >= 3 and all(gene["loc"]["parts"][0][0] != cuts[lo] for gene in genes):
            genes.append({"name": f"g{number}", "loc": {"parts": [[cuts[lo], cuts[lo] + 3]], "strand": 1,
                                                        "kind": "simple"},
                          "core_for": draw(st.sampled_from([["pa"], ["pa", "pb"], []]))})
    protos = list(draw(st.permutations(protos)))
    indices = list(range(len(protos)))
    if len(protos) <= 3:
        perms = [list(p) for p in itertools.permutations(indices)]
    else:
        perms = [indices, indices[::-1]] + [list(draw(st.permutations(indices))) for _ in range(3)]
    return {"L": length, "circular": circular, "genes": genes, "protos": protos, "perms": perms,
            "family": "same_extent_same_product"}


def enum_tie_cases(cells: int):
    """ every set of 2-3 different cores (1-2 cells) on the line and on the ring, each a protocluster of the same
        product whose extent is the whole record (neighbourhoods cut by both record ends); without genes, and with
        one gene per cell (even cells hold core genes of the product, so cores sharing one form a hybrid) """
    def cases():
        length = 3 * cells
        whole = {"parts": [[0, length]], "strand": 1}
        for circular in (False, True):
            cores = []
            for size in (1, 2):
                # no core across the origin: Protocluster refuses one whose extent does not cross the origin too
                for start in range(cells - size + 1):
                    cores.append(ring.arc_to_loc(3 * start, 3 * size, length, 1))
            for with_genes in (False, True):
                genes = [{"name": f"g{k}", "loc": {"parts": [[3 * k, 3 * k + 3]], "strand": 1},
                          "core_for": ["pa"] if k % 2 == 0 else []} for k in range(cells)] if with_genes else []
                for count in (2, 3):
                    indices = list(range(count))
                    perms = [list(p) for p in itertools.permutations(indices)]
                    for combo in itertools.combinations(range(len(cores)), count):
                        protos = [{"core": cores[number], "loc": whole, "product": "pa"} for number in combo]
                        yield {"L": length, "circular": circular, "genes": genes, "protos": protos, "perms": perms,
                               "family": "same_extent_same_product"}
    return cases


@st.composite
def form_specs(draw):
    length = draw(gen.lengths(60, 3000))
    circular = draw(st.booleans())
    genes = draw(gen.gene_layout(length, circular, max_genes=9, min_genes=2, multi_exon=False))
    arcs = [_gene_arc(g["loc"], length) for g in genes]
    order = sorted(range(len(genes)), key=lambda i: arcs[i])
    hoods = [0, 0, 0, 1, 2, 5, 5, 20, 50, length // 4, length // 10, length // 10]
    if draw(st.integers(0, 3)) == 0:
        hoods.append(length)        # a neighbourhood that swallows the record
    count = draw(st.sampled_from([1, 2, 2, 3, 3, 3, 4, 4, 4, 5, 5, 6, 7, 8]))
    protos: list = []
    twins: list = []
    for _ in range(count):
        mode = draw(st.sampled_from(["genes", "genes", "genes", "copy", "inside_core", "inside_extent", "arc",
                                     "adjacent", "adjacent", "twin", "twin", "same_extent"]))
        if not protos and mode in ("copy", "inside_core", "inside_extent", "adjacent", "twin", "same_extent"):
            mode = "genes"
        product = draw(st.sampled_from(PRODUCTS))
        left = draw(st.sampled_from(hoods))
        right = left if draw(st.integers(0, 3)) else draw(st.sampled_from(hoods))
        start = size = None
        twin_of = None
        if mode == "twin":
            # same core as an earlier protocluster, another product, and (below) a gene in it made a core gene of
            # both products: a chemical hybrid pair
            twin_of = draw(st.integers(0, len(protos) - 1))
            start, size = _arc_of(protos[twin_of]["core"], length)
            others = [name for name in PRODUCTS if name != protos[twin_of]["product"]]
            product = draw(st.sampled_from(others))
        elif mode == "same_extent":
            # the extent AND the product of an earlier protocluster, another core inside that extent: only the core
            # tells the two apart (what two hits of one rule look like when the record ends cut both neighbourhoods)
            base = draw(st.sampled_from(protos))
            outer_start, outer_size = _arc_of(base["loc"], length)
            size = min(draw(gen.coord(1, outer_size)), length - 1)
            start = outer_start + draw(gen.coord(0, outer_size - size))
            if circular:
                start %= length
            protos.append({"core": ring.arc_to_loc(start, size, length, 1), "loc": base["loc"],
                           "product": base["product"]})
            continue
        elif mode == "copy":
            base = draw(st.sampled_from(protos))
            if draw(st.booleans()):
                protos.append({"core": base["core"], "loc": base["loc"], "product": product})
                continue
            start, size = _arc_of(base["core"], length)
        elif mode == "adjacent":
            # the new extent starts one base before / exactly at / one base after the end of an earlier extent
            base = draw(st.sampled_from(protos))
            base_start, base_size = _arc_of(base["loc"], length)
            left = draw(st.sampled_from([0, 0, 1, 5]))
            size = draw(st.sampled_from([1, 2, 3, 6]))
            start = base_start + base_size + draw(st.sampled_from([-1, 0, 1])) + left
            if circular:
                start %= length
            elif start + size > length:
                start = size = None
        if mode == "genes" or start is None:
            first = draw(st.integers(0, len(order) - 1))
            chosen: list = []
            for k in range(draw(st.integers(1, 3))):
                pos = first + k
                if pos >= len(order):
                    if not circular:
                        break
                    pos %= len(order)
                if order[pos] not in chosen:
                    chosen.append(order[pos])
            start = arcs[chosen[0]][0]
            size = 0
            for g in chosen:
                offset = (arcs[g][0] - start) % length if circular else arcs[g][0] - start
                size = max(size, offset + arcs[g][1])
            if size >= length or (not circular and start + size > length):
                size = arcs[chosen[0]][1]
        elif mode == "arc":
            anchors = tuple(x for p in protos for loc in (p["core"], p["loc"]) for part in loc["parts"] for x in part)
            start, size = _arc_of(draw(gen.arc(length, allow_span=circular, strands=(1,), anchors=anchors,
                                               max_len=max(1, length // 3))), length)
        elif mode in ("inside_core", "inside_extent"):
            base = draw(st.sampled_from(protos))
            outer_start, outer_size = _arc_of(base["core"] if mode == "inside_core" else base["loc"], length)
            size = min(draw(gen.coord(1, outer_size)), length - 1)
            start = outer_start + draw(gen.coord(0, outer_size - size))
            if circular:
                start %= length
            if mode == "inside_extent":
                left = right = 0
        core = ring.arc_to_loc(start, size, length, 1)
        protos.append({"core": core, "loc": _extent(start, size, left, right, length, circular), "product": product})
        if twin_of is not None:
            twins.append((twin_of, len(protos) - 1))
        elif draw(st.integers(0, 9)) == 0:
            protos[-1]["sideloaded"] = True
    # gene functions: biased to the products of the protoclusters whose core holds the gene
    for gene in genes:
        holders = sorted({p["product"] for p in protos if ring.contains(p["core"], gene["loc"])})
        near = sorted({p["product"] for p in protos if ring.contains(p["loc"], gene["loc"])
                       and not ring.contains(p["core"], gene["loc"])})
        style = draw(st.integers(0, 5))
        if style <= 2 and holders:
            gene["core_for"] = holders if style else draw(st.lists(st.sampled_from(holders), unique=True, max_size=2))
        elif style == 3:
            gene["core_for"] = draw(st.lists(st.sampled_from(PRODUCTS), unique=True, max_size=3))
        elif style == 4 and near:
            # a core gene of the right product next to the core, not in it: not a defining gene
            gene["core_for"] = sorted(set(near) | set(holders[:1]))
        else:
            gene["core_for"] = []
    for one, two in twins:
        if protos[one].get("sideloaded"):
            continue
        for gene in genes:
            if ring.contains(protos[one]["core"], gene["loc"]):
                gene["core_for"] = sorted(set(gene["core_for"]) | {protos[one]["product"], protos[two]["product"]})
                break
    indices = list(range(len(protos)))
    if len(protos) <= 3:
        perms = [list(p) for p in itertools.permutations(indices)]
    else:
        perms = [indices, indices[::-1]] + [list(draw(st.permutations(indices))) for _ in range(3)]
    return {"L": length, "circular": circular, "genes": genes, "protos": protos, "perms": perms}


# --------------------------------------------------------------------------- enumeration

def _enum_shapes(cells: int, circular: bool) -> list:
    """ protocluster shapes on a record of `cells` three-base cells: core of one or two cells at every
        position, neighbourhood of 0, 1 or 2 cells on both sides """
    shapes = []
    length = 3 * cells
    for size in (1, 2):
        for start in range(cells if circular else cells - size + 1):
            for hood in (0, 1, 2):
                core = ring.arc_to_loc(3 * start, 3 * size, length, 1)
                loc = _extent(3 * start, 3 * size, 3 * hood, 3 * hood, length, circular)
                shapes.append({"core": core, "loc": loc})
    return shapes


def enum_cases(plan: list):
    """ plan: [(cells, how many protoclusters)]; every multiset of shapes on the line and on the ring.
        One gene per cell; genes in even cells are core genes for every product, those in odd cells for none,
        so that cores sharing an even cell make a chemical hybrid and cores sharing only odd cells interleave. """
    def cases():
        for cells, count in plan:
            length = 3 * cells
            products = [f"p{i}" for i in range(count)]
            genes = [{"name": f"g{k}", "loc": {"parts": [[3 * k, 3 * k + 3]], "strand": 1},
                      "core_for": products if k % 2 == 0 else []} for k in range(cells)]
            indices = list(range(count))
            if count <= 3:
                perms = [list(p) for p in itertools.permutations(indices)]
            else:
                perms = [indices, indices[::-1], indices[1::2] + indices[0::2], indices[2:] + indices[:2]]
            for circular in (False, True):
                shapes = _enum_shapes(cells, circular)
                for combo in itertools.combinations_with_replacement(range(len(shapes)), count):
                    protos = [dict(shapes[number], product=products[i]) for i, number in enumerate(combo)]
                    yield {"L": length, "circular": circular, "genes": genes, "protos": protos, "perms": perms}
    return cases


def enum_twin_cases(cells: int):
    """ three chemical-hybrid pairs: every multiset of three shapes (neighbourhood 0 or 1 cell) whose core holds
        an even cell, each shape used by two protoclusters of different products (which therefore share the
        core gene of that cell); gives several hybrid candidates that overlap, interleave or stand apart """
    def cases():
        length = 3 * cells
        products = [f"p{i}" for i in range(6)]
        genes = [{"name": f"g{k}", "loc": {"parts": [[3 * k, 3 * k + 3]], "strand": 1},
                  "core_for": products if k % 2 == 0 else []} for k in range(cells)]
        indices = list(range(6))
        perms = [indices, indices[::-1], [3, 0, 5, 2, 4, 1]]
        for circular in (False, True):
            shapes = []
            for shape in _enum_shapes(cells, circular):
                core_bases = ring.bases(shape["core"])
                extra = len(ring.bases(shape["loc"])) - len(core_bases)
                if extra <= 6 and any(ring.contains(shape["core"], gene["loc"]) and gene["core_for"] for gene in genes):
                    shapes.append(shape)
            for combo in itertools.combinations_with_replacement(range(len(shapes)), 3):
                protos = []
                for number in combo:
                    for _ in range(2):
                        protos.append(dict(shapes[number], product=products[len(protos)]))
                yield {"L": length, "circular": circular, "genes": genes, "protos": protos, "perms": perms}
    return cases


def enum_bridge_cases(cells: int):
    """ two chemical-hybrid pairs and one protocluster without defining genes: every pair of twin shapes
        (neighbourhood 0-1 cell, core holding an even cell) x every shape with a core of 1-3 cells and no
        neighbourhood; the genes of the even cells are core genes of the four twin products only """
    def cases():
        length = 3 * cells
        products = ["p0", "p1", "p2", "p3"]
        genes = [{"name": f"g{k}", "loc": {"parts": [[3 * k, 3 * k + 3]], "strand": 1},
                  "core_for": products if k % 2 == 0 else []} for k in range(cells)]
        perms = [[0, 1, 2, 3, 4], [4, 3, 2, 1, 0], [4, 0, 2, 1, 3]]
        for circular in (False, True):
            twins = [shape for shape in _enum_shapes(cells, circular)
                     if len(ring.bases(shape["loc"])) - len(ring.bases(shape["core"])) <= 6
                     and any(ring.contains(shape["core"], gene["loc"]) and gene["core_for"] for gene in genes)]
            bridges = []
            for size in (1, 2, 3):
                for start in range(cells if circular else cells - size + 1):
                    core = ring.arc_to_loc(3 * start, 3 * size, length, 1)
                    bridges.append({"core": core, "loc": core})
            for one, two in itertools.combinations_with_replacement(range(len(twins)), 2):
                for bridge in bridges:
                    protos = [dict(twins[one], product="p0"), dict(twins[one], product="p1"),
                              dict(twins[two], product="p2"), dict(twins[two], product="p3"),
                              dict(bridge, product="bridge")]
                    yield {"L": length, "circular": circular, "genes": genes, "protos": protos, "perms": perms,
                           "family": "hybrids_and_bridges"}
    return cases


@st.composite
def with_history(draw, base):
    """ one case in three gets a build history: a random part of the protoclusters and of the genes is added only
        after candidates have been created once (biased to 'all genes late') """
    spec = draw(base)
    if draw(st.integers(0, 2)) or not spec["protos"]:
        return spec
    spec = dict(spec)
    count = len(spec["protos"])
    spec["late_protos"] = sorted(draw(st.sets(st.integers(0, count - 1), max_size=count)))
    names = [gene["name"] for gene in spec["genes"]]
    if draw(st.booleans()) or not names:
        spec["late_genes"] = names
    else:
        spec["late_genes"] = sorted(draw(st.sets(st.sampled_from(names))))
    return spec


def enum_history_cases(cells: int):
    """ every pair of shapes of enum_cases on `cells` cells x which of the two protoclusters is added after the
        candidates exist (the second, the first, both) x the genes all added last """
    def cases():
        for spec in enum_cases([(cells, 2)])():
            for late in ([1], [0], [0, 1]):
                yield dict(spec, late_protos=late, late_genes=[gene["name"] for gene in spec["genes"]])
    return cases


def enum_chain_cases(sizes: tuple):
    """ chains of n protoclusters (cores left to right, each consecutive pair sharing one defining gene, or - second
        variant - only overlapping in the cores) x every order of the n extent starts; line, and for n <= 5 the ring """
    def cases():
        for count in sizes:
            indices = list(range(count))
            perms = [indices, indices[::-1], indices[1::2] + indices[0::2], indices[2:] + indices[:2]]
            for link in ("gene", "core"):
                for circular in ((False, True) if count <= 5 else (False,)):
                    for ranks in itertools.permutations(indices):
                        starts = [2 * rank for rank in ranks]
                        length = 2 * count + 2 + 10 * count + 12
                        genes, protos = _chain_case([link] * (count - 1), [10] * count, starts, length, circular, 0)
                        yield {"L": length, "circular": circular, "genes": genes, "protos": protos, "perms": perms,
                               "family": "chain_with_scrambled_extents"}
    return cases


def enum_spanning_cases(cells: int):
    """ a ring, no genes: every protocluster whose extent lies across the origin (any arc of cells through 0 shorter
        than the ring; core = its first cell, the cell before or after the origin, or its last cell) x every set of
        2-4 cells each holding a one-cell protocluster without neighbourhood """
    def cases():
        length = 3 * cells
        for start in range(1, cells):
            for size in range(cells - start + 1, cells):
                positions = sorted({start, cells - 1, 0, (start + size - 1) % cells})
                for core_cell in positions:
                    if (core_cell - start) % cells >= size:
                        continue
                    big = {"core": ring.arc_to_loc(3 * core_cell, 3, length, 1),
                           "loc": ring.arc_to_loc(3 * start, 3 * size, length, 1), "product": "big"}
                    for count in (2, 3, 4):
                        for chosen in itertools.combinations(range(cells), count):
                            protos = [big] + [{"core": {"parts": [[3 * c, 3 * c + 3]], "strand": 1},
                                               "loc": {"parts": [[3 * c, 3 * c + 3]], "strand": 1},
                                               "product": f"s{i}"} for i, c in enumerate(chosen)]
                            indices = list(range(len(protos)))
                            perms = [indices, indices[::-1], indices[1:] + indices[:1]]
                            yield {"L": length, "circular": True, "genes": [], "protos": protos, "perms": perms,
                                   "family": "spanning_single_and_singles"}
    return cases


def run(ctx) -> None:
    plan = ctx.pick([(7, 2), (5, 3)], [(8, 2), (6, 3), (6, 4)])
    ctx.extra["enumeration_plan"] = [{"cells": cells, "protoclusters": count} for cells, count in plan]
    ctx.enum("form_enum", enum_cases(plan), shards=ctx.pick(8, 16), stop_after=3)
    ctx.extra["twin_enumeration_cells"] = ctx.pick(6, 10)
    ctx.enum("form_twins_enum", enum_twin_cases(ctx.pick(6, 10)), shards=ctx.pick(8, 16), stop_after=3)
    ctx.extra["bridge_enumeration_cells"] = ctx.pick(6, 7)
    ctx.enum("form_bridge_enum", enum_bridge_cases(ctx.pick(6, 7)), shards=ctx.pick(8, 16), stop_after=3)
    ctx.extra["spanning_enumeration_cells"] = ctx.pick(7, 9)
    ctx.enum("form_spanning_enum", enum_spanning_cases(ctx.pick(7, 9)), shards=ctx.pick(8, 16), stop_after=3)
    ctx.extra["chain_enumeration_sizes"] = list(ctx.pick((4, 5, 6), (4, 5, 6, 7)))
    ctx.enum("form_chain_enum", enum_chain_cases(ctx.pick((4, 5, 6), (4, 5, 6, 7))), shards=ctx.pick(8, 16),
             stop_after=3)
    ctx.extra["history_enumeration_cells"] = ctx.pick(5, 7)
    ctx.enum("form_history_enum", enum_history_cases(ctx.pick(5, 7)), shards=ctx.pick(8, 16), stop_after=3)
    ctx.extra["ties_enumeration_cells"] = ctx.pick(4, 6)
    ctx.enum("form_ties_enum", enum_tie_cases(ctx.pick(4, 6)), shards=ctx.pick(8, 16), stop_after=3)
    mixed = with_history(st.one_of(form_specs(), form_specs(), form_specs(), bridge_specs(), spanning_specs(),
                                   chain_specs(), tie_specs()))
    ctx.hyp("form", mixed, max_examples=ctx.pick(2000, 30000), shards=ctx.pick(8, 16))
