""" C03 - protoclusters are the maximal cutoff-chains of a rule's anchoring genes """

from __future__ import annotations

import itertools

from hypothesis import strategies as st

from vlib import gen, ring, rules
from vlib.build import make_cds, make_record
from vlib.runner import Violation, code_under_test
from checks.c01_rule_conditions import rule_tree

PROPERTY_ID = "C03"
LEVEL = "exploration"
RULE = ("Records of 30..6000 bases (linear/circular) with 1-14 genes built by construction (touching, overlapping, nested, "
        "both strands, multi-exon, origin-spanning), profiles a..d hitting genes through dynamic profiles only, rulesets of "
        "1-4 rules with conditions from the C01 generator, cutoffs/neighbourhoods in bases from {1,3,10,L/4,L/2,L,2L} and "
        "gaps drawn around them, SUPERIORS chains and EXTENDERS. detect_protoclusters_and_signatures is run on the real "
        "Record; the rule's anchoring genes are captured from apply_cluster_rules; groups/cores/neighbourhoods are "
        "recomputed on the set-of-bases model. Enumeration: all placements of 3 genes of 3 bases on rings of length 9..14 "
        "with cutoffs {1,2,3,7}. Non-trivial: two anchors of one rule at distance cutoff-1/cutoff/cutoff+1, or a group "
        "crossing the origin, or a superior/extender rule that fires.")
ASSUMPTIONS = [
    "the anchoring genes of a rule are those apply_cluster_rules reports (their correctness is C01's business)",
    "core on a ring: a single arc covering the group, equal to the minimal covering arc when that is shorter than L/2, "
    "never longer than the line hull when no gene spans the origin (the C04 connect contract)",
    "neighbourhood covering the whole ring may be [0:L) or the documented two-part form containing the core and >= L-1 bases",
    "superiors: 'fully covered => dropped' and 'no shared core gene => kept' are asserted; partial overlap is counted, not "
    "asserted (the statement and the pinned TestRedundancy.test_larger can be read differently)",
    "extenders: must-admit is asserted only on layouts of pairwise disjoint genes; distance == cutoff is accepted either way",
]

PROFILES = ["a", "b", "c", "d"]
ALL_PROFILES = PROFILES + ["e", "f"]      # the last two only occur in hierarchy_specs


def _rule_text(rule: dict, names_so_far: list) -> str:
    text = f"RULE {rule['name']} CATEGORY cat "
    if rule["superiors"]:
        text += "SUPERIORS " + ", ".join(rule["superiors"]) + " "
    text += f"CUTOFF 1 NEIGHBOURHOOD 1 CONDITIONS {rules.render(rule['conditions'])} "
    if rule.get("extenders"):
        text += f"EXTENDERS {rules.render(rule['extenders'])} "
    return text


def _build_ruleset(spec: dict, strip_superiors: bool):
    from antismash.common.hmm_rule_parser import rule_parser
    from antismash.common.hmm_rule_parser.cluster_prediction import Ruleset
    from antismash.common.hmm_rule_parser.structures import DynamicHit, DynamicProfile
    text = ""
    names: list = []
    for rule in spec["rules"]:
        text += _rule_text(rule, names)
        names.append(rule["name"])
    try:
        parsed = rule_parser.Parser(text, set(ALL_PROFILES), {"cat"}).rules
    except Exception as err:  # pylint: disable=broad-except
        raise Violation("wellformed_rule_rejected", {"text": text, "exception": type(err).__name__,
                                                     "message": str(err)[:200]}) from err
    for real, rule in zip(parsed, spec["rules"]):
        real.cutoff = rule["cutoff"]
        real.neighbourhood = rule["neighbourhood"]
        if strip_superiors:
            real.superiors = []
    hits = spec["hits"]

    def make_profile(profile: str):
        def find(_record, _hmmer_hits):
            found = {}
            for gene, gene_hits in hits.items():
                if profile in gene_hits:
                    found[gene] = [DynamicHit(gene, profile, bitscore=float(gene_hits[profile]))]
            return found
        return DynamicProfile(profile, "desc", find)

    # profiles listed under "hmm" are served the HMMer way (signatures + the output of hmmsearch, which _run replaces by
    # the hits of the spec), all others are dynamic profiles; a gene may have hits of both kinds
    through_hmmer = set(spec.get("hmm") or [])
    dynamic = {profile: make_profile(profile) for profile in ALL_PROFILES if profile not in through_hmmer}
    signatures = {}
    if through_hmmer:
        from antismash.common.signature import HmmSignature
        signatures = {profile: HmmSignature(profile, "desc", 0, "/verif-no-such-file.hmm") for profile in through_hmmer}
    return Ruleset(tuple(parsed), signatures, "/verif-no-such-file.hmm", {"cat"}, "verif", dynamic_profiles=dynamic,
                   equivalence_groups=[])


def _hmmsearch_output(spec: dict) -> list:
    """ what hmmsearch would report for the profiles listed under "hmm": one query result per profile, one hsp per hit gene """
    class Plain:        # hashable by identity, as the search results of Biopython are
        def __init__(self, **values) -> None:
            self.__dict__.update(values)
    output = []
    for profile in sorted(spec.get("hmm") or []):
        hsps = [Plain(query_id=profile, hit_id=gene, bitscore=float(found[profile]), evalue=1e-20,
                      hit_start=0, hit_end=1, query_start=0, query_end=10)
                for gene, found in sorted(spec["hits"].items()) if profile in found]
        output.append(Plain(accession=profile, id=profile, hsps=hsps))
    return output


class hmmsearch_from_spec:  # pylint: disable=invalid-name
    """ while detection runs on a ruleset built by _build_ruleset: the output of hmmsearch is what the spec says """
    def __init__(self, spec: dict) -> None:
        self.spec = spec
        self.original = None

    def __enter__(self) -> None:
        from antismash.common.hmm_rule_parser import cluster_prediction
        self.original = cluster_prediction.run_hmmsearch
        cluster_prediction.run_hmmsearch = lambda *_args, **_kwargs: _hmmsearch_output(self.spec)

    def __exit__(self, *_exc) -> bool:
        from antismash.common.hmm_rule_parser import cluster_prediction
        cluster_prediction.run_hmmsearch = self.original
        return False


def _run(spec: dict, strip_superiors: bool):
    """ returns (protoclusters as dicts, anchors per rule) """
    from antismash.common.hmm_rule_parser import cluster_prediction
    record = make_record(spec["L"], spec["circular"])
    for gene in spec["genes"]:
        record.add_cds_feature(make_cds(gene["loc"], gene["name"]))
    ruleset = _build_ruleset(spec, strip_superiors)
    captured: dict = {}
    original = cluster_prediction.apply_cluster_rules

    def recording(*args, **kwargs):
        result = original(*args, **kwargs)
        captured["type_hits"] = {key: set(val) for key, val in result[1].items()}
        return result
    cluster_prediction.apply_cluster_rules = recording
    try:
        with hmmsearch_from_spec(spec), code_under_test("detection_total"):
            results = cluster_prediction.detect_protoclusters_and_signatures(record, ruleset)
    finally:
        cluster_prediction.apply_cluster_rules = original
    protos = []
    for proto in results.protoclusters:
        protos.append({"product": proto.product, "core": ring.from_bio(proto.core_location),
                       "loc": ring.from_bio(proto.location)})
    return protos, captured.get("type_hits", {})


def _gene_span(loc: dict, length: int) -> dict:
    """ the contiguous span of a gene: hull of its exons, or the arc over the origin for a spanning gene """
    if not gen.is_span(loc):
        return {"parts": [[min(p[0] for p in loc["parts"]), max(p[1] for p in loc["parts"])]], "strand": loc["strand"],
                "kind": "simple"}
    forward = loc["parts"] if loc["strand"] != -1 else list(reversed(loc["parts"]))
    cut = next(i for i in range(1, len(forward)) if forward[i][0] < forward[i - 1][0])
    parts = [[min(p[0] for p in forward[:cut]), length], [0, max(p[1] for p in forward[cut:])]]
    if loc["strand"] == -1:
        parts.reverse()
    return {"parts": parts, "strand": loc["strand"], "kind": "span"}


def _arc_start(loc: dict) -> int:
    """ first base along the arc of a span-like location """
    if len(loc["parts"]) == 1:
        return loc["parts"][0][0]
    return max(p[0] for p in loc["parts"])


def _arc_end(loc: dict) -> int:
    if len(loc["parts"]) == 1:
        return loc["parts"][0][1]
    return min(p[1] for p in loc["parts"])


def _components(names: list, near) -> list:
    remaining = set(names)
    groups = []
    while remaining:
        seed = remaining.pop()
        group = {seed}
        frontier = [seed]
        while frontier:
            current = frontier.pop()
            for other in list(remaining):
                if near(current, other):
                    remaining.discard(other)
                    group.add(other)
                    frontier.append(other)
        groups.append(group)
    return groups


def _extender_ok(tree, gene: str, hits: dict) -> bool:
    if tree is None:
        return False
    world = rules.World({gene: dict(hits.get(gene, {}))}, {gene: {gene}})
    return rules.evaluate(tree, gene, world) and bool(rules.reasons(tree, gene, world) or True)


def check_detection(spec: dict) -> dict:
    length = spec["L"]
    circular = spec["circular"]
    wrap = length if circular else None
    # protoclusters are built from the spans of genes (a gene sitting in another gene's intron is inside its span)
    genes = {gene["name"]: {"name": gene["name"], "loc": _gene_span(gene["loc"], length)} for gene in spec["genes"]}
    originals = {gene["name"]: gene["loc"] for gene in spec["genes"]}
    raw, anchors = _run(spec, strip_superiors=True)
    any_superiors = any(rule["superiors"] for rule in spec["rules"])
    final = raw
    if any_superiors:
        final, _ = _run(spec, strip_superiors=False)
    classes = ["circular" if circular else "linear"]
    nontrivial = False
    clean_layout = all(not ring.overlap(a["loc"], b["loc"]) for a, b in itertools.combinations(genes.values(), 2))

    def dist(one: str, two: str) -> int:
        return ring.dist(genes[one]["loc"], genes[two]["loc"], wrap)

    for rule in spec["rules"]:
        name = rule["name"]
        cutoff = rule["cutoff"]
        rule_anchors = sorted(anchors.get(name, set()))
        mine = [p for p in raw if p["product"] == name]
        # ---- every protocluster is well-formed and inside the record
        for proto in mine:
            for key in ("core", "loc"):
                problem = ring.wellformed(proto[key], length, span=True)
                if problem:
                    raise Violation("wellformed", {"rule": name, key: proto[key], "problem": problem})
            if not ring.bases(proto["core"]) <= ring.bases(proto["loc"]):
                raise Violation("core_outside_protocluster", {"rule": name, "core": proto["core"], "loc": proto["loc"]})
        if not rule_anchors:
            if mine:
                raise Violation("protocluster_without_anchor", {"rule": name, "protoclusters": mine})
            continue
        groups = _components(rule_anchors, lambda a, b: dist(a, b) < cutoff)
        if circular:
            # a group whose smallest covering arc is not shorter than half the record has no unique smallest span
            # (C04: connect need only be minimal below L/2); its core may then cover other groups, so the
            # partition and core clauses are not asserted for this rule on this record
            wide = False
            for group in groups:
                union = set()
                for anchor in group:
                    union |= ring.bases(genes[anchor]["loc"])
                if 2 * ring.min_arcs(union, length)[0][1] >= length:
                    wide = True
            if wide:
                classes.append("group_arc_half_or_more_unasserted")
                continue
        # ---- partition: each anchor in exactly one core, each core has an anchor
        for anchor in rule_anchors:
            holders = [p for p in mine if ring.contains(p["core"], genes[anchor]["loc"])]
            if len(holders) != 1:
                raise Violation("anchor_core_count", {"rule": name, "anchor": anchor, "cores": [p["core"] for p in holders],
                                                      "all_cores": [p["core"] for p in mine]})
        for proto in mine:
            if not any(ring.contains(proto["core"], genes[a]["loc"]) for a in rule_anchors):
                raise Violation("protocluster_without_anchor", {"rule": name, "core": proto["core"]})
        if any(abs(dist(a, b) - cutoff) <= 1 for a, b in itertools.combinations(rule_anchors, 2)):
            nontrivial = True
            classes.append("anchors_at_cutoff_boundary")
        # ---- groups <-> protoclusters
        has_extenders = rule.get("extenders") is not None
        legit = set(rule_anchors)
        if has_extenders:
            legit |= {g for g in genes if _extender_ok(rule["extenders"], g, spec["hits"])}
        for group in groups:
            holders = {id(p): p for a in group for p in mine if ring.contains(p["core"], genes[a]["loc"])}
            if len(holders) != 1:
                raise Violation("group_split", {"rule": name, "group": sorted(group),
                                                "cores": [p["core"] for p in holders.values()]})
            proto = next(iter(holders.values()))
            union = set()
            for anchor in group:
                union |= ring.bases(genes[anchor]["loc"])
            got = ring.bases(proto["core"])
            if not union <= got:
                raise Violation("core_misses_anchor_bases", {"rule": name, "group": sorted(group), "core": proto["core"]})
            group_spans = any(gen.is_span(genes[a]["loc"]) for a in group)
            if circular and (group_spans or len(proto["core"]["parts"]) > 1):
                nontrivial = True
                classes.append("group_crosses_origin")
            if not has_extenders:
                other_groups = [g for g in groups if g is not group
                                and any(ring.contains(proto["core"], genes[a]["loc"]) for a in g)]
                if other_groups:
                    raise Violation("groups_merged", {"rule": name, "core": proto["core"],
                                                      "groups": [sorted(group)] + [sorted(g) for g in other_groups]})
                lo, hi = ring.hull_line(union)
                if not circular:
                    if proto["core"]["parts"] != [[lo, hi]]:
                        raise Violation("core_not_hull", {"rule": name, "group": sorted(group), "core": proto["core"],
                                                          "hull": [lo, hi]})
                else:
                    if not ring.is_arc(got, length):
                        raise Violation("core_not_single_arc", {"rule": name, "core": proto["core"]})
                    if not group_spans and len(got) > hi - lo:
                        raise Violation("core_longer_than_hull", {"rule": name, "core": proto["core"], "hull": [lo, hi]})
                    arcs = ring.min_arcs(union, length)
                    if 2 * arcs[0][1] < length and got != ring.arc_bases(arcs[0][0], arcs[0][1], length):
                        raise Violation("core_not_minimal", {"rule": name, "group": sorted(group), "core": proto["core"],
                                                             "minimal_arc": list(arcs[0])})
        if has_extenders:
            classes.append("rule_with_extenders")
            for proto in mine:
                got = ring.bases(proto["core"])
                if len(got) == length:
                    continue
                # the ends of the core coincide with the ends of an anchor or an extender-satisfying gene
                start, end = _arc_start(proto["core"]), _arc_end(proto["core"])
                starts = {_arc_start({"parts": sorted(genes[g]["loc"]["parts"])}) if not gen.is_span(genes[g]["loc"])
                          else _arc_start(genes[g]["loc"]) for g in legit}
                ends = {max(p[1] for p in genes[g]["loc"]["parts"]) if not gen.is_span(genes[g]["loc"])
                        else _arc_end(genes[g]["loc"]) for g in legit}
                starts |= {min(p[0] for p in genes[g]["loc"]["parts"]) for g in legit if not gen.is_span(genes[g]["loc"])}
                if start not in starts or end not in ends:
                    raise Violation("extended_core_edge", {"rule": name, "core": proto["core"], "legit": sorted(legit)})
                admitted = [g for g in legit - set(rule_anchors) if ring.contains(proto["core"], genes[g]["loc"])]
                if admitted:
                    nontrivial = True
                    classes.append("extender_admitted")
                # an admitted gene was reached from an anchor or another admitted gene no further away than the cutoff
                inside_legit = [g for g in legit if ring.contains(proto["core"], genes[g]["loc"])]
                # (not on a ring once the core reaches half the record: which way round such a group is spanned is not
                # fixed by the statement, and the longer way round holds genes that nothing admitted)
                wide = circular and 2 * len(got) >= length
                if wide:
                    classes.append("extender_core_at_least_half_ring_unasserted")
                for gene in ([] if wide else admitted):
                    if not any(other != gene and dist(gene, other) <= cutoff for other in inside_legit):
                        raise Violation("extender_overreach", {"rule": name, "core": proto["core"], "gene": gene,
                                                               "cutoff": cutoff})
                # nothing within reach is left out: a gene satisfying the extender condition (or anchoring the rule) that
                # is closer to the final core than the cutoff lies inside it, whatever it overlaps or is nested in
                # (distance as the record measures it: to the nearest exon of the gene, not to its span)
                if not wide:
                    for gene in legit:
                        exons = originals[gene]
                        if ring.contains(proto["core"], genes[gene]["loc"]) or ring.contains(proto["core"], exons):
                            continue
                        if ring.dist(proto["core"], exons, wrap) < cutoff:
                            if not clean_layout:
                                classes.append("extender_reach_judged_on_overlapping_genes")
                            raise Violation("extender_not_admitted", {"rule": name, "core": proto["core"], "gene": gene})
                    if not clean_layout:
                        classes.append("extender_reach_judged_on_overlapping_genes")
        # ---- neighbourhood
        for proto in mine:
            core_bases = ring.bases(proto["core"])
            got = ring.bases(proto["loc"])
            if circular:
                want = ring.extend_arc(_arc_start(proto["core"]), len(core_bases), rule["neighbourhood"], length, True) \
                    if len(core_bases) < length else frozenset(range(length))
                if len(want) == length:
                    if not (len(got) >= length - 1 and core_bases <= got):
                        raise Violation("neighbourhood_full_ring", {"rule": name, "core": proto["core"], "loc": proto["loc"]})
                    classes.append("neighbourhood_covers_ring")
                elif got != want:
                    raise Violation("neighbourhood", {"rule": name, "core": proto["core"], "loc": proto["loc"],
                                                      "neighbourhood": rule["neighbourhood"]})
            else:
                lo, hi = proto["core"]["parts"][0]
                want_parts = [[max(0, lo - rule["neighbourhood"]), min(length, hi + rule["neighbourhood"])]]
                if proto["loc"]["parts"] != want_parts:
                    raise Violation("neighbourhood", {"rule": name, "core": proto["core"], "loc": proto["loc"],
                                                      "want": want_parts})

    # ---- superiors (two-sided, with an unasserted middle)
    if any_superiors:
        by_name = {rule["name"]: rule for rule in spec["rules"]}
        closure: dict = {}
        for rule in spec["rules"]:
            closed = set(rule["superiors"])
            for parent in rule["superiors"]:
                closed |= closure[parent]
            closure[rule["name"]] = closed
        raw_keys = {(p["product"], str(p["core"]["parts"]), str(p["loc"]["parts"])) for p in raw}
        for proto in final:
            same = [q for q in raw if q["product"] == proto["product"]
                    and ring.bases(proto["core"]) <= ring.bases(q["core"])]
            if not same:
                raise Violation("superiors_invented", {"protocluster": proto})
        for proto in raw:
            sups = closure[proto["product"]]
            if not sups:
                key = (proto["product"], str(proto["core"]["parts"]), str(proto["loc"]["parts"]))
                if key not in {(p["product"], str(p["core"]["parts"]), str(p["loc"]["parts"])) for p in final}:
                    raise Violation("dropped_without_superior", {"protocluster": proto})
                continue
            inside = {g for g in genes if ring.contains(proto["core"], genes[g]["loc"])}
            superior_cores = [q["core"] for q in raw if q["product"] in sups]
            covered = any(all(ring.contains(core, genes[g]["loc"]) for g in inside) for core in superior_cores) and inside
            shares = any(ring.contains(core, genes[g]["loc"]) or ring.overlap(core, genes[g]["loc"])
                         for core in superior_cores for g in inside) \
                or any(ring.overlap(core, proto["core"]) for core in superior_cores)
            survivors = [p for p in final if p["product"] == proto["product"]
                         and ring.overlap(p["core"], proto["core"])]
            if covered:
                nontrivial = True
                classes.append("superior_covers")
                direct = [q["core"] for q in raw if q["product"] in by_name[proto["product"]]["superiors"]]
                if not any(all(ring.contains(core, genes[g]["loc"]) for g in inside) for core in direct):
                    classes.append("superior_covers_only_transitively")
                if survivors:
                    raise Violation("inferior_not_dropped", {"protocluster": proto, "superior_cores": superior_cores})
            elif not shares:
                classes.append("superior_elsewhere")
                if not survivors:
                    raise Violation("inferior_dropped_without_cover", {"protocluster": proto,
                                                                       "superior_cores": superior_cores})
            else:
                classes.append("superior_partial_overlap_unasserted")
        del by_name, raw_keys
    classes.append(f"protoclusters_{min(len(raw), 4)}")
    return {"nontrivial": nontrivial, "classes": sorted(set(classes))}


def check_sequence(spec: dict) -> dict:
    """ one ruleset used for several records in a row (as hmm_detection keeps its rulesets for all records of a run):
        what it reports for a record is what a freshly built ruleset reports for that record """
    from antismash.common.hmm_rule_parser import cluster_prediction
    shared_spec = {"rules": spec["rules"], "hits": {}}
    ruleset = _build_ruleset(shared_spec, strip_superiors=False)      # its profiles read shared_spec["hits"]
    classes = []
    differing = False
    for index, world in enumerate(spec["worlds"]):
        single = {"L": world["L"], "circular": world["circular"], "genes": world["genes"], "hits": world["hits"],
                  "rules": spec["rules"]}
        fresh, _ = _run(single, strip_superiors=False)
        shared_spec["hits"].clear()
        shared_spec["hits"].update(world["hits"])
        record = make_record(world["L"], world["circular"])
        for gene in world["genes"]:
            record.add_cds_feature(make_cds(gene["loc"], gene["name"]))
        with code_under_test("detection_total"):
            results = cluster_prediction.detect_protoclusters_and_signatures(record, ruleset)
        got = [{"product": p.product, "core": ring.from_bio(p.core_location), "loc": ring.from_bio(p.location)}
               for p in results.protoclusters]
        key = lambda p: (p["product"], str(p["core"]["parts"]), str(p["loc"]["parts"]))  # noqa: E731
        if sorted(map(key, got)) != sorted(map(key, fresh)):
            raise Violation("depends_on_earlier_records", {"record": index, "with_shared_ruleset": sorted(map(key, got)),
                                                           "with_fresh_ruleset": sorted(map(key, fresh))})
        if index and world["hits"] != spec["worlds"][index - 1]["hits"]:
            differing = True
        if fresh:
            classes.append("record_with_protoclusters")
    classes.append(f"records_{len(spec['worlds'])}")
    if any(rule.get("extenders") for rule in spec["rules"]):
        classes.append("rule_with_extenders")
    return {"nontrivial": differing and "record_with_protoclusters" in classes, "classes": sorted(set(classes))}


SUBCHECKS = {"detection": check_detection, "detection_enum": check_detection, "sequence": check_sequence}
SIGNATURES: dict = {}


# --------------------------------------------------------------------------- generators

@st.composite
def detection_specs(draw) -> dict:
    length = draw(st.one_of(st.integers(30, 120), st.integers(30, 600), st.integers(30, 6000)))
    circular = draw(st.booleans())
    distances = sorted({1, 3, 10, max(1, length // 4), max(1, length // 2), length, 2 * length})
    rule_count = draw(st.integers(1, 4))
    spec_rules = []
    for index in range(rule_count):
        simple = draw(st.integers(0, 2)) > 0
        tree = ["id", draw(st.sampled_from(PROFILES))] if simple and draw(st.booleans()) \
            else draw(rule_tree(tuple(PROFILES), max_depth=1 if simple else 2))
        superiors = []
        if index and draw(st.integers(0, 2)) == 0:
            superiors = draw(st.lists(st.sampled_from([r["name"] for r in spec_rules]), min_size=1, max_size=2, unique=True))
        extenders = None
        choice = draw(st.integers(0, 5))
        if choice == 0:
            extenders = ["id", draw(st.sampled_from(PROFILES))]
        elif choice == 1:
            one, two = draw(st.lists(st.sampled_from(PROFILES), min_size=2, max_size=2, unique=True))
            extenders = ["cds", [draw(st.sampled_from(["and", "or"])), [["id", one], ["id", two]]]]
        spec_rules.append({"name": f"r{index}", "conditions": tree, "superiors": superiors, "extenders": extenders,
                           "cutoff": draw(st.sampled_from(distances)),
                           "neighbourhood": draw(st.sampled_from([0] + distances))})
    cutoffs = sorted({rule["cutoff"] for rule in spec_rules})
    gaps = tuple(sorted({max(0, c + d) for c in cutoffs for d in (-1, 0, 1) if c + d < length}))
    genes = draw(gen.gene_layout(length, circular, max_genes=14, size_hint=max(3, min(60, length // 12)),
                                 gap_choices=gaps))
    hits = {}
    for gene in genes:
        chosen = draw(st.lists(st.sampled_from(PROFILES), max_size=3, unique=True))
        hits[gene["name"]] = {p: draw(st.sampled_from([9, 10, 50, 100])) for p in chosen}
    through_hmmer = draw(st.lists(st.sampled_from(PROFILES), max_size=3, unique=True)) if draw(st.booleans()) else []
    return {"L": length, "circular": circular, "genes": genes, "hits": hits, "rules": spec_rules, "hmm": through_hmmer}


@st.composite
def superior_specs(draw) -> dict:
    """ focused on SUPERIORS: a superior rule ('a') and one or two inferior rules ('b', 'c') whose hits sit on the
        same or neighbouring genes, in 2-6 gene groups spread around the record including both record ends,
        with neighbourhoods that can wrap over the origin while the core does not """
    length = draw(st.sampled_from([300, 600, 1500, 5000]))
    circular = draw(st.integers(0, 3)) > 0
    unit = length // 100
    cutoff = draw(st.sampled_from([unit, 2 * unit, 5 * unit]))
    rules_spec = [{"name": "r0", "conditions": ["id", "a"], "superiors": [], "extenders": None, "cutoff": cutoff,
                   "neighbourhood": draw(st.sampled_from([0, unit, 3 * unit, 8 * unit]))}]
    for index, profile in enumerate(draw(st.sampled_from([["b"], ["b", "c"]]))):
        sups = ["r0"] if index == 0 or draw(st.booleans()) else ["r1"]
        rules_spec.append({"name": f"r{index + 1}", "conditions": ["id", profile], "superiors": sups, "extenders": None,
                           "cutoff": draw(st.sampled_from([cutoff, unit, 4 * unit])),
                           "neighbourhood": draw(st.sampled_from([0, unit, 3 * unit]))})
    group_count = draw(st.integers(2, 6))
    anchors_pool = [0, unit, length - 4 * unit, length - 2 * unit, length // 2, length // 3, (2 * length) // 3, length // 5]
    genes = []
    hits = {}
    used = []
    for _ in range(group_count):
        base = draw(st.sampled_from(anchors_pool))
        pos = base
        for _ in range(draw(st.integers(1, 3))):
            size = draw(st.sampled_from([3, unit, 2 * unit]))
            start = min(max(0, pos), length - 3)
            end = min(length, start + max(3, size))
            if any(not (end <= lo or start >= hi) for lo, hi in used):
                pos = end + 1
                continue
            used.append((start, end))
            name = f"g{len(genes)}"
            genes.append({"name": name, "loc": {"parts": [[start, end]], "strand": draw(st.sampled_from([1, -1])),
                                                "kind": "simple"}})
            chosen = draw(st.sampled_from([["a"], ["b"], ["a", "b"], ["a", "c"], ["c"], ["a", "b", "c"], []]))
            hits[name] = {p: 100 for p in chosen}
            pos = end + draw(st.sampled_from([0, 1, max(1, cutoff - 1), cutoff, cutoff + 1]))
    if not genes:
        genes.append({"name": "g0", "loc": {"parts": [[0, 3]], "strand": 1, "kind": "simple"}})
        hits["g0"] = {"a": 100, "b": 100}
    return {"L": length, "circular": circular, "genes": genes, "hits": hits, "rules": rules_spec}


@st.composite
def hierarchy_specs(draw) -> dict:
    """ focused on transitive SUPERIORS: 4-6 single-profile rules forming a random hierarchy (each rule names 0-3
        earlier rules, in any order, so diamonds and rules whose parents have different ancestors are common), and
        far-apart groups of 1-2 genes in which every gene carries the same 1-3 profiles, so that 'covered by a
        (transitive) superior' and 'no superior anywhere near' are both frequent and asserted """
    layered = draw(st.booleans())
    count = draw(st.integers(4, 6))
    layer_of = [0, 0, 1, 1, 2, 2][:count] if layered else list(range(count))
    rules_spec = []
    for index in range(count):
        sups: list = []
        earlier = [f"r{i}" for i in range(index) if layer_of[i] < layer_of[index]]
        if layered and earlier:
            # parents from the layer directly above (so that two parents often have different ancestors), any order
            above = [f"r{i}" for i in range(index) if layer_of[i] == layer_of[index] - 1]
            sups = draw(st.lists(st.sampled_from(above), min_size=1, max_size=2, unique=True))
        elif earlier:
            size = min(draw(st.sampled_from([0, 1, 1, 2, 2, 3])), len(earlier))
            sups = draw(st.lists(st.sampled_from(earlier), min_size=size, max_size=size, unique=True))
        rules_spec.append({"name": f"r{index}", "conditions": ["id", ALL_PROFILES[index]], "superiors": sups,
                           "extenders": None, "cutoff": 5, "neighbourhood": draw(st.sampled_from([0, 3]))})
    closure: dict = {}
    for rule in rules_spec:
        closure[rule["name"]] = set(rule["superiors"]).union(*(closure[p] for p in rule["superiors"]))
    length = 1200
    circular = draw(st.booleans())
    genes, hits = [], {}
    for group in range(draw(st.integers(1, 6))):
        base = 40 + group * 180
        profiles = draw(st.lists(st.sampled_from(ALL_PROFILES[:count]), min_size=1, max_size=3, unique=True))
        low = draw(st.sampled_from(rules_spec))
        if closure[low["name"]] and draw(st.booleans()):
            # an inferior rule and exactly one of its (often only transitive) superiors
            ancestor = draw(st.sampled_from(sorted(closure[low["name"]])))
            profiles = [low["conditions"][1], ALL_PROFILES[int(ancestor[1:])]]
        for member in range(draw(st.integers(1, 2))):
            name = f"g{len(genes)}"
            start = base + member * 12
            genes.append({"name": name, "loc": {"parts": [[start, start + 9]], "strand": draw(st.sampled_from([1, -1])),
                                                "kind": "simple"}})
            chosen = profiles if draw(st.integers(0, 3)) else draw(st.lists(st.sampled_from(profiles), unique=True))
            hits[name] = {p: 100 for p in chosen}
    return {"L": length, "circular": circular, "genes": genes, "hits": hits, "rules": rules_spec}


@st.composite
def extender_overlap_specs(draw) -> dict:
    """ EXTENDERS among overlapping and nested genes: an anchor gene, on one or both sides an extender gene at a gap
        around the cutoff (or overlapping the anchor), possibly a second extender beyond it, and decoy genes without
        hits that start with / end with / lie inside / lie around the extender genes or sit between them and the
        anchor, so that the order in which genes are listed says little about which gene is nearest. On a ring the
        whole layout is rotated to any offset, so any of these genes may cross the origin """
    cutoff = draw(st.sampled_from([1, 4, 9]))
    circular = draw(st.integers(0, 3)) > 0
    genes: list = []       # (start, end) on an unbounded line, shifted later
    hits: dict = {}

    def add(start: int, end: int, profiles: list) -> None:
        name = f"g{len(genes)}"
        genes.append([name, start, end])
        hits[name] = {p: 100 for p in profiles}

    anchor_size = draw(st.sampled_from([3, 6, 12]))
    add(0, anchor_size, ["a"])
    for side in draw(st.sampled_from([[1], [-1], [1, -1]])):
        edge = anchor_size if side == 1 else 0
        for _level in range(draw(st.integers(1, 2))):
            gap = draw(st.sampled_from([-1, 0, 0, cutoff - 1, cutoff, cutoff + 1]))
            size = draw(st.sampled_from([3, 9, 30, 90]))
            start, end = (edge + gap, edge + gap + size) if side == 1 else (edge - gap - size, edge - gap)
            add(start, end, draw(st.sampled_from([["b"], ["b"], ["b", "d"], ["d"]])))
            for _ in range(draw(st.integers(0, 2))):
                kind = draw(st.sampled_from(["same_start", "same_end", "inside", "around", "between"]))
                if kind == "same_start" and size > 3:
                    add(start, start + draw(st.integers(3, size - 1)), [])
                elif kind == "same_end" and size > 3:
                    add(end - draw(st.integers(3, size - 1)), end, [])
                elif kind == "inside" and size >= 9:
                    low = draw(st.integers(1, size - 4))
                    add(start + low, start + low + 3, [])
                elif kind == "around":
                    add(start - draw(st.integers(1, 6)), end + draw(st.integers(1, 6)), draw(st.sampled_from([[], ["d"]])))
                elif kind == "between" and gap >= 4:
                    low = min(edge, start, end) if side == -1 else edge
                    inner = (end, edge) if side == -1 else (edge, start)
                    if inner[1] - inner[0] >= 3:
                        add(inner[0], inner[0] + 3, [])
            edge = end if side == 1 else start
    lowest = min(g[1] for g in genes)
    highest = max(g[2] for g in genes)
    span = highest - lowest
    length = span + draw(st.sampled_from([cutoff + 2, 2 * cutoff + 5, span + 1, 3 * span]))
    offset = draw(st.integers(0, length - 1)) if circular else draw(st.integers(0, length - span))
    seen = set()
    out_genes = []
    for name, start, end in genes:
        strand = draw(st.sampled_from([1, -1]))
        begin = (start - lowest + offset) % length if circular else start - lowest + offset
        size = end - start
        if (begin, size) in seen:       # the record refuses two genes at one location
            hits.pop(name)
            continue
        seen.add((begin, size))
        # exons: the whole gene, or (genes of 9 bases and more, one time in three) 2-3 exons around 1-2 base introns
        exons = [[0, size]]
        if size >= 9 and draw(st.integers(0, 2)) == 0:
            cut = draw(st.integers(3, size - 5))
            intron = draw(st.integers(1, 2))
            exons = [[0, cut], [cut + intron, size]]
            if size - (cut + intron) >= 8 and draw(st.booleans()):
                cut2 = draw(st.integers(cut + intron + 3, size - 4))
                exons = [[0, cut], [cut + intron, cut2], [cut2 + 1, size]]
        parts = []
        for low, high in exons:
            first = (begin + low) % length if circular else begin + low
            if first + (high - low) > length:
                parts.extend([[first, length], [0, first + (high - low) - length]])
            else:
                parts.append([first, first + (high - low)])
        crossing = begin + size > length
        if strand == -1:
            parts.reverse()
        kind = "span" if crossing else ("simple" if len(parts) == 1 else "multi")
        out_genes.append({"name": name, "loc": {"parts": parts, "strand": strand, "kind": kind}})
    rules_spec = [{"name": "r0", "conditions": ["id", "a"], "superiors": [], "extenders": ["id", "b"], "cutoff": cutoff,
                   "neighbourhood": draw(st.sampled_from([0, 2]))}]
    return {"L": length, "circular": circular, "genes": out_genes, "hits": hits, "rules": rules_spec}


@st.composite
def extender_specs(draw) -> dict:
    """ focused on EXTENDERS: pairwise disjoint genes on a (mostly circular) record, an anchor group placed anywhere
        (often right after or across the origin) and chains of extender-satisfying genes on both sides whose gaps are
        drawn around the cutoff, so that extension has to run over the origin in either direction """
    length = draw(st.sampled_from([120, 300, 900]))
    circular = draw(st.integers(0, 4)) > 0
    cutoff = draw(st.sampled_from([4, 9, 20]))
    gene_size = draw(st.sampled_from([3, 6, 7, 7]))     # genes of 7 bases may have two exons around a 1-base intron
    count = draw(st.integers(4, 10))
    gaps = [draw(st.sampled_from([0, 1, cutoff - 1, cutoff - 1, cutoff, cutoff + 1, 2 * cutoff + 3])) for _ in range(count)]
    total = sum(gaps) + count * gene_size
    if total >= length:
        length = total + draw(st.sampled_from([1, cutoff - 1, cutoff + 5]))
    offset = draw(st.one_of(st.integers(0, length - 1), st.sampled_from([0, length - gene_size, length - 1, length // 2])))
    if not circular:
        offset = draw(st.integers(0, length - total))
    anchor_indices = set(draw(st.lists(st.integers(0, count - 1), min_size=1, max_size=3)))
    triple = draw(st.booleans())
    if triple:
        # three anchor groups that only come within the cutoff of each other through chains of extender genes
        count = draw(st.integers(9, 13))
        first = draw(st.integers(0, 2))
        step = draw(st.integers(3, 4))
        anchor_indices = {first, first + step, min(count - 1, first + 2 * step)}
        gaps = [draw(st.sampled_from([0, 1, cutoff - 1, cutoff - 1, cutoff - 1, cutoff, cutoff + 1])) for _ in range(count)]
        total = sum(gaps) + count * gene_size
        if total >= length:
            length = total + draw(st.sampled_from([1, cutoff - 1, cutoff + 5, 3 * cutoff]))
        offset = draw(st.one_of(st.integers(0, length - 1), st.sampled_from([0, length - gene_size, length // 2])))
        if not circular:
            offset = draw(st.integers(0, length - total))
    extender = draw(st.sampled_from([["id", "b"], ["cds", ["and", [["id", "b"], ["id", "c"]]]], ["cds", ["or", [["id", "b"], ["id", "c"]]]]]))
    genes, hits = [], {}
    pos = 0
    for index in range(count):
        pos += gaps[index]
        start = (offset + pos) % length if circular else offset + pos
        end = start + gene_size
        strand = draw(st.sampled_from([1, -1]))
        if end > length:
            parts = [[start, length], [0, end - length]]
            if strand == -1:
                parts.reverse()
            loc = {"parts": parts, "strand": strand, "kind": "span"}
        elif gene_size == 7 and draw(st.booleans()):
            parts = [[start, start + 3], [start + 4, end]]
            if strand == -1:
                parts.reverse()
            loc = {"parts": parts, "strand": strand, "kind": "multi"}
        else:
            loc = {"parts": [[start, end]], "strand": strand, "kind": "simple"}
        name = f"g{index}"
        genes.append({"name": name, "loc": loc})
        if index in anchor_indices or (any(abs(index - a) == 1 for a in anchor_indices) and draw(st.integers(0, 3)) == 0):
            hits[name] = {"a": 100}
        else:
            pool = [["b"], ["b", "c"], ["b"], ["c"], [], ["d"]] if not triple else [["b", "c"], ["b", "c"], ["b", "c"], ["b"], ["d"]]
            hits[name] = {p: 100 for p in draw(st.sampled_from(pool))}
        pos += gene_size
    rules_spec = [{"name": "r0", "conditions": ["id", "a"], "superiors": [], "extenders": extender, "cutoff": cutoff,
                   "neighbourhood": draw(st.sampled_from([0, 2, cutoff]))}]
    return {"L": length, "circular": circular, "genes": genes, "hits": hits, "rules": rules_spec}


@st.composite
def sequence_specs(draw) -> dict:
    """ 2-3 records for one ruleset: the same gene names (often the same layout) with other hits, or another layout """
    base = draw(st.one_of(extender_specs(), extender_overlap_specs(), detection_specs(), superior_specs()))
    worlds = [{"L": base["L"], "circular": base["circular"], "genes": base["genes"], "hits": base["hits"]}]
    pool = sorted({p for found in base["hits"].values() for p in found} | set(PROFILES))
    for _ in range(draw(st.integers(1, 2))):
        previous = worlds[-1]
        hits = {}
        for gene in previous["genes"]:
            old = previous["hits"].get(gene["name"], {})
            mode = draw(st.sampled_from(["same", "same", "none", "other", "swap"]))
            if mode == "same":
                hits[gene["name"]] = dict(old)
            elif mode == "none":
                hits[gene["name"]] = {}
            elif mode == "other":
                hits[gene["name"]] = {p: 100 for p in draw(st.lists(st.sampled_from(pool), max_size=2, unique=True))}
            else:
                hits[gene["name"]] = {draw(st.sampled_from(pool)): score for score in list(old.values())[:1]} or {}
        worlds.append({"L": previous["L"], "circular": previous["circular"], "genes": previous["genes"], "hits": hits})
    return {"rules": base["rules"], "worlds": worlds}


def enum_cases(max_len: int):
    def cases():
        for length in range(9, max_len + 1):
            for cutoff in (1, 2, 3, 7):
                for starts in itertools.combinations(range(length), 3):
                    genes = []
                    ok = True
                    for index, start in enumerate(starts):
                        end = start + 3
                        if end <= length:
                            loc = {"parts": [[start, end]], "strand": 1 if index != 1 else -1, "kind": "simple"}
                        else:
                            parts = [[start, length], [0, end - length]]
                            strand = 1 if index != 1 else -1
                            if strand == -1:
                                parts.reverse()
                            loc = {"parts": parts, "strand": strand, "kind": "span"}
                        genes.append({"name": f"g{index}", "loc": loc})
                    if not ok:
                        continue
                    for neighbourhood in (0, 2):
                        yield {"L": length, "circular": True, "genes": genes,
                               "hits": {"g0": {"a": 100}, "g1": {"a": 100}, "g2": {"a": 100}},
                               "rules": [{"name": "r0", "conditions": ["id", "a"], "superiors": [], "extenders": None,
                                          "cutoff": cutoff, "neighbourhood": neighbourhood}]}
    return cases


def run(ctx) -> None:
    ctx.enum("detection_enum", enum_cases(ctx.pick(11, 14)), shards=ctx.pick(16, 16))
    ctx.hyp("detection", detection_specs(), max_examples=ctx.pick(2500, 40000), shards=ctx.pick(8, 16))
    ctx.hyp("detection", extender_specs(), max_examples=ctx.pick(1200, 15000), shards=ctx.pick(8, 16))
    ctx.hyp("detection", superior_specs(), max_examples=ctx.pick(1500, 20000), shards=ctx.pick(8, 16))
    ctx.hyp("detection", extender_overlap_specs(), max_examples=ctx.pick(1500, 20000), shards=ctx.pick(8, 16))
    ctx.hyp("sequence", sequence_specs(), max_examples=ctx.pick(800, 12000), shards=ctx.pick(8, 16))
    ctx.hyp("detection", hierarchy_specs(), max_examples=ctx.pick(1200, 15000), shards=ctx.pick(8, 16))
