""" C06 - regions are the disjoint connected components of overlapping areas;
          numbering, lookups and parent links stay consistent through add/clear/create histories """

from __future__ import annotations

import copy
import itertools
import json

from hypothesis import strategies as st

from vlib import gen, ring
from vlib.build import make_cds, make_protocluster, make_record, make_subregion, to_loc
from vlib.runner import Violation, code_under_test, digest

PROPERTY_ID = "C06"
LEVEL = "exploration"
RULE = ("layout: 1..11 areas (subregions incl. sideloaded ones, directly built candidate clusters of 1..2 protoclusters, "
        "or protoclusters sent through record.create_candidate_clusters()) on linear and circular records of 8..3000 "
        "bases; every arc is placed by construction relative to an earlier one (overlapping its head/tail, touching, "
        "one to three bases apart, nested, same start/end, identical) or freely with boundary-biased coordinates, sizes "
        "from a small/medium/huge mixture, origin-crossing and whole-record arcs on circular records, insertion order "
        "permuted; after create_regions the regions are compared with the connected components of 'areas overlap' "
        "computed on the set-of-bases model, then the areas are cleared/re-created in one of four ways and compared "
        "again, and (manual) the components' regions are handed to add_region in another order. "
        "layout_enum: EVERY multiset of <=3 arcs on rings and lines up to a length bound, and of 4 arcs up to a smaller "
        "bound (coverage.bounds). history: a Hypothesis RuleBasedStateMachine over one record (add_cds, "
        "add_protocluster, add_subregion, create_candidate_clusters, create_regions, clear_regions, "
        "clear_candidate_clusters, clear_subregions, clear_protoclusters, strip_antismash_annotations; 50 steps), "
        "numbering / lookup / parent-link invariants after every step; history_mix: the same histories drawn as plain "
        "data with state-aware weights. Non-trivial layout: >=3 areas in >=2 components with at least one overlap, or "
        "an origin-crossing area; non-trivial history: a clear followed by a (re)creation of regions with areas "
        "present; distinct = sha1 of the canonical spec (enumerated cases are distinct by construction).")
ASSUMPTIONS = [
    "the meaning of an area is the set of bases of its location as antiSMASH reports it (vlib/ring.py, checked by C04); "
    "candidate cluster locations are taken from the objects, how they are derived from protoclusters is C05's business",
    "areas are contiguous arcs (one part, or two parts meeting at the origin), the only shape CDSCollection accepts; a "
    "connected family of arcs has a contiguous union, so 'the span covering exactly one component' is that union",
    "'location order' is asserted for the features that do not cross the origin: non-decreasing start, longest first "
    "on equal starts, equal keys in any order; the position of origin-crossing features in the numbering is not judged",
    "an exception from create_candidate_clusters is not judged here (C05); the case / history stops there",
    "create_candidate_clusters is only called when no candidate clusters exist and create_regions only when no regions "
    "exist (the only way the callers use them)",
    "add_region is exercised with the regions of the components in a different order and with a duplicate of an existing "
    "region; refusing the duplicate with ValueError is the contract ('regions cannot overlap')",
]

PRODUCTS = ["pa", "pb", "pc"]


# --------------------------------------------------------------------------- model

def _loc(feature) -> dict:
    return ring.from_bio(feature.location)


def _plain(loc: dict) -> list:
    return [list(part) for part in loc["parts"]]


def _crossing(loc: dict) -> bool:
    """ areas and regions: two parts <=> crosses the origin """
    return len(loc["parts"]) > 1


def _components(locs: list) -> list:
    """ connected components (lists of indices) of the 'share a base' relation """
    parent = list(range(len(locs)))

    def find(x: int) -> int:
        while parent[x] != x:
            parent[x] = parent[parent[x]]
            x = parent[x]
        return x

    for i, j in itertools.combinations(range(len(locs)), 2):
        if ring.overlap(locs[i], locs[j]):
            parent[find(j)] = find(i)
    groups: dict = {}
    for i in range(len(locs)):
        groups.setdefault(find(i), []).append(i)
    return sorted(groups.values())


def _union(locs: list, members: list) -> frozenset:
    result: set = set()
    for index in members:
        result |= ring.bases(locs[index])
    return frozenset(result)


def _order_ok(locs: list, length: int) -> bool:
    """ features that do not cross the origin appear in non-decreasing (start, longest first) order; where the
        origin-crossing ones are put among them is left open (the code sorts them by their distance before the
        origin, except that a whole-record area precedes the crossing areas it contains) """
    keys = [(min(p[0] for p in loc["parts"]), -len(ring.bases(loc))) for loc in locs if not _crossing(loc)]
    if keys != sorted(keys):
        return False
    # the origin-crossing ones, among themselves, are in the order of where they start before the origin
    # (the longest first when they start together)
    # (pairs in which one contains the other are left open: the code puts containers first)
    crossing = [loc for loc in locs if _crossing(loc) and len(ring.bases(loc)) < length]
    for i, one in enumerate(crossing):
        for two in crossing[i + 1:]:
            if ring.bases(one) <= ring.bases(two) or ring.bases(two) <= ring.bases(one):
                continue
            if max(p[0] for p in one["parts"]) > max(p[0] for p in two["parts"]):
                return False
    return True


def _area_snapshot(record, length: int, circular: bool) -> dict:
    """ what the signatures and a reader need to judge a failure: the area set itself """
    areas = [{"t": "cand", "parts": _plain(_loc(c))} for c in record.get_candidate_clusters()]
    areas += [{"t": "sub", "parts": _plain(_loc(s))} for s in record.get_subregions()]
    return {"L": length, "circular": circular, "areas": areas}


def _run(clause: str, func, info=None):
    """ calls the code under test; any exception becomes a Violation of `clause` whose detail also
        carries info() (computed lazily, after the failure) """
    try:
        with code_under_test(clause):
            return func()
    except Violation as vio:
        if info is not None and isinstance(vio.detail, dict) and "exception" in vio.detail:
            vio.detail.update(info())
        raise


class _Stop(Exception):
    """ the case cannot be continued for a reason outside this property (counted as a class) """
    def __init__(self, label: str) -> None:
        super().__init__(label)
        self.label = label


# --------------------------------------------------------------------------- oracles on a live record

def _check_regions(record, length: int, circular: bool, op: str) -> dict:
    """ regions <-> connected components of the CURRENT candidate clusters and subregions """
    areas = list(record.get_candidate_clusters()) + list(record.get_subregions())
    locs = [_loc(area) for area in areas]
    comps = _components(locs)
    regions = record.get_regions()
    snapshot = _area_snapshot(record, length, circular)
    snapshot["op"] = op
    index_of = {id(area): i for i, area in enumerate(areas)}
    owner: dict = {}
    region_members = []
    for number, region in enumerate(regions):
        members = []
        for area in list(region.candidate_clusters) + list(region.subregions):
            index = index_of.get(id(area))
            if index is None:
                raise Violation("region_member_not_in_record", dict(snapshot, region=_plain(_loc(region)),
                                                                    member=_plain(_loc(area))))
            if index in owner:
                raise Violation("area_in_two_regions", dict(snapshot, area=index))
            owner[index] = number
            members.append(index)
        region_members.append(sorted(members))
    missing = [i for i in range(len(areas)) if i not in owner]
    if missing:
        raise Violation("area_without_region", dict(snapshot, areas_missing=missing))
    comp_of = {i: n for n, comp in enumerate(comps) for i in comp}
    for number, members in enumerate(region_members):
        if len({comp_of[i] for i in members}) > 1:
            raise Violation("unlinked_areas_share_region",
                            dict(snapshot, region=_plain(_loc(regions[number])), members=members,
                                 components=[c for c in comps if set(c) & set(members)]))
    for comp in comps:
        if len({owner[i] for i in comp}) > 1:
            raise Violation("linked_areas_in_different_regions",
                            dict(snapshot, component=comp,
                                 regions=[_plain(_loc(regions[n])) for n in sorted({owner[i] for i in comp})]))
    if len(regions) != len(comps):
        raise Violation("region_count", dict(snapshot, regions=len(regions), components=len(comps)))
    covered: set = set()
    for number, region in enumerate(regions):
        loc = _loc(region)
        problem = ring.wellformed(loc, length, span=True)
        if problem is None and not circular and len(loc["parts"]) > 1:
            problem = "two-part region on a linear record"
        if problem:
            raise Violation("region_wellformed", dict(snapshot, region=_plain(loc), problem=problem))
        got = ring.bases(loc)
        want = _union(locs, region_members[number])
        if got != want:
            raise Violation("region_span", dict(snapshot, region=_plain(loc), members=region_members[number],
                                                extra=len(got - want), missing=len(want - got)))
        if covered & got:
            raise Violation("regions_overlap", dict(snapshot, region=_plain(loc)))
        covered |= got
        for area in list(region.candidate_clusters) + list(region.subregions):
            if area.parent is not region:
                raise Violation("area_parent_not_its_region", dict(snapshot, area=_plain(_loc(area)),
                                                                   parent=str(area.parent)))
    crossing_comps = [c for c in comps if any(_crossing(locs[i]) for i in c)]
    return {"components": len(comps), "areas": len(areas),
            "multi": sum(1 for c in comps if len(c) > 1),
            "crossing": bool(crossing_comps),
            "over_half": any(2 * len(_union(locs, c)) > length for c in comps),
            "chain": any(not ring.overlap(locs[i], locs[j]) for c in comps
                         for i, j in itertools.combinations(c, 2))}


_KINDS = [
    ("protocluster", "get_protoclusters", "get_protocluster", "get_protocluster_number", "protocluster_number"),
    ("candidate_cluster", "get_candidate_clusters", "get_candidate_cluster", "get_candidate_cluster_number",
     "candidate_cluster_number"),
    ("subregion", "get_subregions", "get_subregion", "get_subregion_number", "subregion_number"),
    ("region", "get_regions", "get_region", "get_region_number", "region_number"),
]


def _shown(feature, key: str) -> list:
    """ the values of a qualifier as the feature shows them in its GenBank form """
    values = None
    for bio in feature.to_biopython():
        if key in bio.qualifiers:
            values = bio.qualifiers[key]
    if values is None:
        raise Violation("number_not_shown", {"feature": str(feature), "qualifier": key})
    return [int(value) for value in values]


def _check_numbering(record, length: int) -> None:
    for label, get_all, get_one, number_of, qualifier in _KINDS:
        features = getattr(record, get_all)()
        for index, feature in enumerate(features):
            with code_under_test("numbering_total"):
                by_record = getattr(record, number_of)(feature)
                by_feature = getattr(feature, number_of)()
                back = getattr(record, get_one)(index + 1)
                shown = _shown(feature, qualifier)
            if by_record != index + 1 or by_feature != index + 1 or back is not feature or shown != [index + 1]:
                raise Violation("numbering", {"kind": label, "position": index + 1, "record_says": by_record,
                                              "feature_says": by_feature, "shown": shown,
                                              "lookup_returns_same_feature": back is feature,
                                              "features": [_plain(_loc(f)) for f in features][:12]})
        locs = [_loc(feature) for feature in features]
        if not _order_ok(locs, length):
            raise Violation("numbering_order", {"kind": label, "features": [_plain(loc) for loc in locs][:16]})
    # the numbers a feature shows for its children identify those same children
    for region in record.get_regions():
        with code_under_test("numbering_total"):
            cands = [record.get_candidate_cluster(n) for n in _shown(region, "candidate_cluster_numbers")]
            subs = [record.get_subregion(n) for n in _shown(region, "subregion_numbers")]
        if len(cands) != len(region.candidate_clusters) or any(a is not b for a, b in zip(cands, region.candidate_clusters)):
            raise Violation("shown_child_numbers", {"parent": "region", "region": _plain(_loc(region)),
                                                    "children": "candidate clusters"})
        if len(subs) != len(region.subregions) or any(a is not b for a, b in zip(subs, region.subregions)):
            raise Violation("shown_child_numbers", {"parent": "region", "region": _plain(_loc(region)),
                                                    "children": "subregions"})
    for cand in record.get_candidate_clusters():
        with code_under_test("numbering_total"):
            protos = [record.get_protocluster(n) for n in _shown(cand, "protoclusters")]
        if len(protos) != len(cand.protoclusters) or any(a is not b for a, b in zip(protos, cand.protoclusters)):
            raise Violation("shown_child_numbers", {"parent": "candidate cluster", "candidate": _plain(_loc(cand)),
                                                    "children": "protoclusters"})


def _check_links(record, genes: dict, regions_complete: bool, former_candidates: dict = None) -> list:
    """ genes: name -> location spec of every CDS in the record;
        former_candidates: id -> candidate cluster for every candidate that has been in the record (updated here).
        Returns labels of things seen but not judged. """
    labels = []
    if former_candidates is None:
        former_candidates = {}
    protos = record.get_protoclusters()
    cands = record.get_candidate_clusters()
    subs = record.get_subregions()
    regions = record.get_regions()
    proto_ids = {id(x) for x in protos}
    cand_ids = {id(x) for x in cands}
    region_ids = {id(x) for x in regions}
    sub_ids = {id(x) for x in subs}
    for cand in cands:
        former_candidates[id(cand)] = cand
    for proto in protos:
        parent = proto.parent
        if parent is not None and id(parent) not in cand_ids:
            if former_candidates.get(id(parent)) is parent or not cands:
                raise Violation("stale_parent", {"child": "protocluster", "location": _plain(_loc(proto)),
                                                 "parent": str(parent), "candidates_in_record": len(cands),
                                                 "parent_was_in_record_before": former_candidates.get(id(parent)) is parent})
            # a candidate that candidate formation built and then discarded: how candidates are formed is C05
            labels.append("unjudged_protocluster_parent_is_a_discarded_candidate")
        elif parent is not None and all(p is not proto for p in parent.protoclusters):
            raise Violation("stale_parent", {"child": "protocluster", "location": _plain(_loc(proto)),
                                             "parent": str(parent), "problem": "parent does not list the child"})
        if proto.parent_record is not record:
            raise Violation("stale_parent", {"child": "protocluster", "parent_record": "not this record"})
    for cand in cands:
        for proto in cand.protoclusters:
            if id(proto) not in proto_ids:
                raise Violation("stale_child", {"parent": "candidate cluster", "location": _plain(_loc(cand)),
                                                "child": _plain(_loc(proto))})
    for label, areas, listing in (("candidate cluster", cands, "candidate_clusters"), ("subregion", subs, "subregions")):
        for area in areas:
            parent = area.parent
            if parent is not None and (id(parent) not in region_ids
                                       or all(a is not area for a in getattr(parent, listing))):
                raise Violation("stale_parent", {"child": label, "location": _plain(_loc(area)),
                                                 "parent": str(parent), "parent_in_record": id(parent) in region_ids})
            if parent is None and regions_complete and regions:
                raise Violation("area_without_region", {"child": label, "location": _plain(_loc(area))})
    for region in regions:
        if region.parent is not None:
            raise Violation("stale_parent", {"child": "region", "parent": str(region.parent)})
        for cand in region.candidate_clusters:
            if id(cand) not in cand_ids:
                raise Violation("stale_child", {"parent": "region", "location": _plain(_loc(region)),
                                                "child": _plain(_loc(cand)), "kind": "candidate cluster"})
        for sub in region.subregions:
            if id(sub) not in sub_ids:
                raise Violation("stale_child", {"parent": "region", "location": _plain(_loc(region)),
                                                "child": _plain(_loc(sub)), "kind": "subregion"})
    if not genes:
        return labels
    region_locs = [_loc(region) for region in regions]
    for cds in record.get_cds_features():
        gene_loc = genes[cds.get_name()]
        if cds.region is not None and id(cds.region) not in region_ids:
            raise Violation("stale_cds_region", {"gene": cds.get_name(), "location": _plain(gene_loc),
                                                 "region": str(cds.region)})
        inside = [region for region, loc in zip(regions, region_locs) if ring.contains(loc, gene_loc)]
        want = inside[0] if inside else None   # regions are disjoint (asserted elsewhere)
        if cds.region is not want:
            raise Violation("cds_region", {"gene": cds.get_name(), "location": _plain(gene_loc),
                                           "got": str(cds.region), "want": str(want)})
    for region, loc in zip(regions, region_locs):
        got = sorted(cds.get_name() for cds in region.cds_children)
        want = sorted(name for name, gene_loc in genes.items() if ring.contains(loc, gene_loc))
        if got != want:
            raise Violation("region_genes", {"region": _plain(loc), "got": got, "want": want})
    return labels


def _summary(record) -> dict:
    """ order-insensitive description of all areas of a record (ties in location have no defined order) """
    def canon(items: list) -> list:
        return sorted(json.dumps(item, sort_keys=True) for item in items)
    return {
        "protoclusters": canon([[_plain(_loc(p)), p.product] for p in record.get_protoclusters()]),
        "candidates": canon([[_plain(_loc(c)), str(c.kind), canon([[_plain(_loc(p)), p.product]
                                                                   for p in c.protoclusters])]
                             for c in record.get_candidate_clusters()]),
        "subregions": canon([_plain(_loc(s)) for s in record.get_subregions()]),
        "regions": canon([[_plain(_loc(r)), canon([_plain(_loc(c)) for c in r.candidate_clusters]),
                           canon([_plain(_loc(s)) for s in r.subregions])] for r in record.get_regions()]),
        "region_order": [_plain(_loc(r)) for r in record.get_regions()],
    }


# --------------------------------------------------------------------------- building areas from specs

def _make_proto(spec: dict):
    return make_protocluster(spec["core"], spec["loc"], product=spec["product"], cutoff=spec.get("cutoff", 5),
                             neighbourhood=spec.get("neighbourhood", 5))


def _make_sub(spec: dict):
    """ a SubRegion, or the sideloaded flavour (the only kind users can place anywhere, origin included) """
    if spec.get("sideloaded"):
        from antismash.common.secmet.features.subregion import SideloadedSubRegion
        return SideloadedSubRegion(to_loc(spec["loc"]), "verif", label="side", extra_qualifiers={"note_x": ["y"]})
    return make_subregion(spec["loc"])


def _make_candidate(spec: dict, protos: list, wrap_point):
    from antismash.common.secmet.features import CandidateCluster
    kind = CandidateCluster.kinds.from_string(spec.get("kind", "single"))
    try:
        return CandidateCluster(kind, protos, circular_wrap_point=wrap_point)
    except Exception as err:  # how a candidate's location is derived is C05/C04, not this property
        raise _Stop("excluded_candidate_construction_failed") from err


# --------------------------------------------------------------------------- layouts

def check_layout(spec: dict) -> dict:
    try:
        return _check_layout(spec)
    except _Stop as stop:
        return {"nontrivial": False, "classes": [stop.label]}


def _build_areas(spec: dict, record, info) -> None:
    """ puts the protoclusters, candidate clusters and subregions of the spec into the record """
    wrap_point = spec["L"] if spec["circular"] else None
    have_protos = False
    pending_candidates = []
    for area in spec["areas"]:
        if area["t"] == "sub":
            sub = _make_sub(area)
            _run("add_area_total", lambda s=sub: record.add_subregion(s), info)
        elif area["t"] == "proto":
            proto = _make_proto(area)
            _run("add_area_total", lambda p=proto: record.add_protocluster(p), info)
            have_protos = True
        else:
            protos = [_make_proto(p) for p in area["protos"]]
            for proto in protos:
                _run("add_area_total", lambda p=proto: record.add_protocluster(p), info)
            pending_candidates.append((area, protos))
    for area, protos in pending_candidates:
        cand = _make_candidate(area, protos, wrap_point)
        _run("add_area_total", lambda c=cand: record.add_candidate_cluster(c), info)
    if have_protos:
        try:
            record.create_candidate_clusters()
        except Exception as err:  # C05
            raise _Stop("excluded_candidate_creation_failed") from err


def _check_manual_regions(spec: dict, turn: int) -> None:
    """ the regions of the (already verified) components handed to add_region one by one in a different
        order: ordered insertion, numbering, and refusal of a region overlapping an existing one """
    from antismash.common.secmet.features import CandidateCluster, Region
    length = spec["L"]
    circular = spec["circular"]
    record = make_record(length, circular)

    def info() -> dict:
        return dict(_area_snapshot(record, length, circular), op="add_region")

    _build_areas(spec, record, info)
    areas = list(record.get_candidate_clusters()) + list(record.get_subregions())
    comps = _components([_loc(area) for area in areas])
    shift = turn % len(comps)
    order = comps[shift:] + comps[:shift]
    if (turn // len(comps)) % 2:
        order.reverse()

    def make_region(comp: list):
        members = [areas[i] for i in comp]
        return Region([a for a in members if isinstance(a, CandidateCluster)],
                      [a for a in members if not isinstance(a, CandidateCluster)])

    for comp in order:
        region = _run("add_region_total", lambda c=comp: make_region(c), info)
        _run("add_region_total", lambda r=region: record.add_region(r), info)
        _check_numbering(record, length)
    _check_regions(record, length, circular, "add_region")
    _check_links(record, {}, True)
    before = record.get_regions()
    duplicate = make_region(comps[-1])
    try:
        record.add_region(duplicate)
    except ValueError:
        pass
    except Exception as err:  # pylint: disable=broad-except
        raise Violation("overlapping_region_refused_oddly", dict(info(), exception=f"{type(err).__name__}: {err}"))
    else:
        raise Violation("overlapping_region_accepted", dict(info(), region=_plain(_loc(duplicate))))
    now = record.get_regions()
    if len(now) != len(before) or any(a is not b for a, b in zip(now, before)):
        raise Violation("refused_region_changed_record", info())


def _check_layout(spec: dict) -> dict:
    length = spec["L"]
    circular = spec["circular"]
    record = make_record(length, circular)

    def info() -> dict:
        return _area_snapshot(record, length, circular)

    _build_areas(spec, record, info)

    n_areas = len(record.get_candidate_clusters()) + len(record.get_subregions())
    returned = _run("region_creation_succeeds", record.create_regions, lambda: dict(info(), op="create_regions"))
    facts = _check_regions(record, length, circular, "create_regions")
    if returned != facts["components"]:
        raise Violation("region_count", dict(info(), returned=returned, components=facts["components"]))
    _check_numbering(record, length)
    former: dict = {}
    unjudged = set(_check_links(record, {}, True, former))
    first = _summary(record)

    # clearing and re-creating
    after = spec.get("after", "clear_regions")
    if after == "clear_regions":
        _run("clear_total", record.clear_regions, info)
        if record.get_regions():
            raise Violation("clear_regions_left_regions", info())
        _check_links(record, {}, False, former)
        for area in list(record.get_candidate_clusters()) + list(record.get_subregions()):
            if area.parent is not None:
                raise Violation("stale_parent", {"child": "area after clear_regions", "location": _plain(_loc(area))})
        _run("region_creation_succeeds", record.create_regions, lambda: dict(info(), op="create_regions again"))
        _check_regions(record, length, circular, "create_regions again")
        if _summary(record) != first:
            raise Violation("recreated_differs", dict(info(), before=first["regions"], after=_summary(record)["regions"]))
    elif after in ("clear_subregions", "clear_candidate_clusters", "clear_protoclusters"):
        _run("region_creation_succeeds", getattr(record, after), lambda: dict(info(), op=after))
        if after == "clear_subregions" and record.get_subregions():
            raise Violation("clear_left_features", dict(info(), op=after))
        if after != "clear_subregions" and record.get_candidate_clusters():
            raise Violation("clear_left_features", dict(info(), op=after))
        if after == "clear_protoclusters" and record.get_protoclusters():
            raise Violation("clear_left_features", dict(info(), op=after))
        _check_regions(record, length, circular, after)
    _check_numbering(record, length)
    unjudged.update(_check_links(record, {}, True, former))

    if spec.get("manual") is not None:
        _check_manual_regions(spec, spec["manual"])

    classes = ["circular" if circular else "linear", f"mode_{spec.get('mode', 'direct')}", f"after_{after}",
               "manual_add_region" if spec.get("manual") is not None else "no_manual",
               f"areas_{min(n_areas, 10)}", f"components_{min(facts['components'], 6)}"]
    for key in ("crossing", "over_half", "chain"):
        if facts[key]:
            classes.append(f"has_{key}")
    if n_areas != len(spec["areas"]):
        classes.append("candidates_differ_from_protoclusters")
    classes.extend(sorted(unjudged))
    nontrivial = (facts["areas"] >= 3 and facts["components"] >= 2 and facts["multi"] >= 1) or facts["crossing"]
    return {"nontrivial": nontrivial, "classes": classes}


# --------------------------------------------------------------------------- histories

CLEARS = ("clear_regions", "clear_candidate_clusters", "clear_subregions", "clear_protoclusters",
          "strip_antismash_annotations")


class History:
    """ One record driven step by step; the model side only tracks what exists and whether the
        regions were (re)created from the current set of areas.  Pure function of the steps. """

    def __init__(self, length: int, circular: bool) -> None:
        self.length = length
        self.circular = circular
        self.record = make_record(length, circular)
        self.genes: dict = {}
        self.gene_keys: set = set()
        self.protos: list = []          # specs, in insertion order since the last clear
        self.subs: list = []
        self.have_cands = False
        self.cands_complete = False     # candidates were created from exactly the current protoclusters
        self.have_regions = False
        self.regions_complete = False   # regions were (re)created from exactly the current areas
        self.labels: set = set()
        self.cleared_with_areas = False
        self.recreated = False
        self.applied = 0
        self.max_components = 0
        self.former_candidates: dict = {}

    def _info(self, op: str):
        return lambda: dict(_area_snapshot(self.record, self.length, self.circular), op=op)

    def n_areas(self) -> int:
        return len(self.record.get_candidate_clusters()) + len(self.record.get_subregions())

    def apply(self, step: dict) -> None:
        op = step["op"]
        record = self.record
        if op == "add_cds":
            key = json.dumps([step["loc"]["parts"], step["loc"]["strand"]])
            if key in self.gene_keys:       # the record refuses two genes at one location
                return
            name = f"g{len(self.genes)}"
            cds = make_cds(step["loc"], name)
            _run("add_cds_total", lambda: record.add_cds_feature(cds))
            self.genes[name] = {"parts": step["loc"]["parts"], "strand": step["loc"]["strand"]}
            self.gene_keys.add(key)
            if self.have_regions:
                self.labels.add("cds_after_regions")
        elif op == "add_protocluster":
            proto = _make_proto(step)
            _run("add_area_total", lambda: record.add_protocluster(proto), self._info(op))
            self.protos.append(step)
            self.cands_complete = False
        elif op == "add_subregion":
            sub = _make_sub(step)
            _run("add_area_total", lambda: record.add_subregion(sub), self._info(op))
            self.subs.append(step)
            if self.have_regions:
                self.regions_complete = False
                self.labels.add("area_after_regions")
        elif op == "add_candidate":
            # one more candidate cluster, built by hand from protoclusters already in the record (the public
            # Record.add_candidate_cluster; record parsing and sideloading add candidates one at a time like this),
            # possibly sorting before candidates whose numbers have been asked for and shown already
            if not self.protos:
                return
            current = record.get_protoclusters()
            first = step["first"] % len(current)
            members = list(current[first:first + step["count"]])
            cand = _make_candidate({"kind": "single" if len(members) == 1 else "neighbouring"}, members,
                                   self.length if self.circular else None)
            _run("add_area_total", lambda: record.add_candidate_cluster(cand), self._info(op))
            if self.have_cands:
                self.labels.add("candidate_added_after_numbering")
            self.have_cands = True
            self.cands_complete = False
            if self.have_regions:
                self.regions_complete = False
                self.labels.add("area_after_regions")
        elif op == "create_candidate_clusters":
            if not self.protos or self.have_cands:
                return
            try:
                record.create_candidate_clusters()
            except Exception as err:  # C05
                raise _Stop("stopped_candidate_creation_failed") from err
            self.have_cands = True
            self.cands_complete = True
            if self.have_regions:
                self.regions_complete = False
                self.labels.add("area_after_regions")
        elif op == "readd_regions":
            # the same regions put into the record one by one (Record.add_region, as record parsing does), in a drawn
            # order: which region comes first must depend on the locations only, never on the order of the calls
            if not (self.have_regions and self.regions_complete):
                return
            from antismash.common.secmet.features import Region
            old = list(record.get_regions())
            if len(old) < 2:
                return
            members = [(list(region.candidate_clusters), list(region.subregions)) for region in old]
            _run("region_creation_succeeds", record.clear_regions, self._info(op))
            order = sorted(range(len(members)), key=lambda i: (step["keys"][i % len(step["keys"])], i))
            for index in order:
                cands, subs = members[index]
                region = Region(candidate_clusters=cands, subregions=subs)
                _run("region_creation_succeeds", lambda region=region: record.add_region(region), self._info(op))
            self.labels.add("regions_added_one_by_one")
        elif op == "create_regions":
            if self.have_regions:
                return
            had_areas = self.n_areas() > 0
            returned = _run("region_creation_succeeds", record.create_regions, self._info(op))
            self.have_regions = had_areas
            self.regions_complete = True
            if self.cleared_with_areas and had_areas:
                self.recreated = True
            if returned != len(record.get_regions()):
                raise Violation("region_count", dict(self._info(op)(), returned=returned,
                                                     regions=len(record.get_regions())))
        elif op in CLEARS:
            if self.n_areas() or self.protos:
                self.cleared_with_areas = True
            _run("region_creation_succeeds", getattr(record, op), self._info(op))
            if op == "clear_regions":
                self.have_regions = False
            else:
                if op in ("clear_protoclusters", "strip_antismash_annotations"):
                    self.protos = []
                if op in ("clear_protoclusters", "clear_candidate_clusters", "strip_antismash_annotations"):
                    self.have_cands = False
                    self.cands_complete = False
                if op in ("clear_subregions", "strip_antismash_annotations"):
                    self.subs = []
                if op == "strip_antismash_annotations":
                    self.have_regions = False
                elif self.have_regions:      # the record re-creates its regions from what is left
                    self.have_regions = self.n_areas() > 0
                    self.regions_complete = True
                    if self.have_regions:
                        self.recreated = True
                        self.labels.add("regions_recreated_by_clear")
        else:
            raise ValueError(f"unknown op {op}")
        self.applied += 1
        self._invariants(op)

    def _invariants(self, op: str) -> None:
        record = self.record
        # presence of each kind follows the history
        present = {"protoclusters": len(record.get_protoclusters()), "subregions": len(record.get_subregions())}
        expected = {"protoclusters": len(self.protos), "subregions": len(self.subs)}
        if present != expected:
            raise Violation("features_present", {"op": op, "got": present, "want": expected})
        if bool(record.get_candidate_clusters()) != self.have_cands:
            raise Violation("features_present", {"op": op, "candidate_clusters": len(record.get_candidate_clusters()),
                                                 "expected_any": self.have_cands})
        if bool(record.get_regions()) != self.have_regions:
            raise Violation("features_present", dict(self._info(op)(), regions=len(record.get_regions()),
                                                     expected_any=self.have_regions))
        _check_numbering(record, self.length)
        complete = self.have_regions and self.regions_complete
        if complete:
            facts = _check_regions(record, self.length, self.circular, op)
            self.max_components = max(self.max_components, facts["components"])
            for key in ("crossing", "over_half", "chain"):
                if facts[key]:
                    self.labels.add(f"regions_{key}")
            if facts["components"] >= 2 and facts["multi"]:
                self.labels.add("regions_several_components")
        self.labels.update(_check_links(record, self.genes, complete, self.former_candidates))
        if complete and op in ("create_regions", "readd_regions") + CLEARS and (self.cands_complete or not self.have_cands):
            self._compare_with_fresh(op)

    def _compare_with_fresh(self, op: str) -> None:
        """ the same areas put into a new record give the same candidate clusters and regions """
        fresh = make_record(self.length, self.circular)
        for spec in self.protos:
            fresh.add_protocluster(_make_proto(spec))
        for spec in self.subs:
            fresh.add_subregion(_make_sub(spec))
        try:
            if self.have_cands:
                fresh.create_candidate_clusters()
            fresh.create_regions()
        except Exception as err:  # pylint: disable=broad-except
            raise Violation("fresh_record_differs", dict(self._info(op)(), fresh_raised=f"{type(err).__name__}: {err}"))
        got, want = _summary(self.record), _summary(fresh)
        if got != want:
            differing = sorted(key for key in got if got[key] != want[key])
            raise Violation("fresh_record_differs", dict(self._info(op)(), differing=differing,
                                                         got=got[differing[0]], fresh=want[differing[0]]))
        self.labels.add("compared_with_fresh")

    def result(self) -> dict:
        classes = ["circular" if self.circular else "linear", f"steps_{min(self.applied // 10 * 10, 50)}",
                   f"max_components_{min(self.max_components, 4)}"] + sorted(self.labels)
        if self.recreated:
            classes.append("clear_then_create")
        return {"nontrivial": self.recreated, "classes": classes}


def check_history(spec: dict) -> dict:
    history = History(spec["L"], spec["circular"])
    try:
        for step in spec["steps"]:
            history.apply(step)
    except _Stop as stop:
        history.labels.add(stop.label)
    return history.result()


SUBCHECKS = {
    "layout": check_layout,
    "layout_enum": check_layout,
    "history": check_history,        # driven by the RuleBasedStateMachine; the spec is the recorded history
    "history_mix": check_history,    # the same body over histories drawn as plain data with state-aware weights
}


# --------------------------------------------------------------------------- known findings

def _detail_model(detail: dict):
    areas = [{"parts": area["parts"]} for area in detail["areas"]]
    return areas, _components(areas)


def _overlap_error(clause: str, detail: dict) -> bool:
    return (clause == "region_creation_succeeds" and detail.get("exception") == "ValueError"
            and "regions cannot overlap" in detail.get("message", "")
            and detail.get("where", "").endswith("record.py:add_region"))


def _sweep_model(areas: list, length: int) -> list:
    """ what one pass over the sorted areas plus a single 'first section overlaps last section' repair gives:
        the base sets of the resulting sections (exact unions, no span heuristics) """
    def key(area: dict) -> tuple:
        size = len(ring.bases(area))
        if _crossing(area):
            return (max(p[0] for p in area["parts"]) - length, -size)
        return (area["parts"][0][0], -size)
    ordered = sorted(areas, key=key)
    sections = []
    current = set(ring.bases(ordered[0]))
    for area in ordered[1:]:
        bases = ring.bases(area)
        if bases & current:
            current |= bases
        else:
            sections.append(current)
            current = set(bases)
    sections.append(current)
    if len(sections) > 1 and sections[0] & sections[-1]:
        sections[0] |= sections.pop()
    return sections


def sig_sweep_misses_pre_origin(sub, spec, clause, detail) -> bool:
    """ input class: circular layouts with an origin-crossing area on which ONE pass over the sorted areas,
        followed by a single 'first section overlaps last section' repair, still leaves two sections that share
        bases (two separate late groups both reach into the part of the crossing section before the origin);
        failure mode: create_regions dies with 'regions cannot overlap' raised by add_region """
    if not isinstance(detail, dict) or not detail.get("circular") or "areas" not in detail:
        return False
    if not _overlap_error(clause, detail):
        return False
    areas = [{"parts": area["parts"]} for area in detail["areas"]]
    if not any(_crossing(area) for area in areas):
        return False
    sections = _sweep_model(areas, detail["L"])
    return any(one & two for one, two in itertools.combinations(sections, 2))


def sig_span_longer_than_union(sub, spec, clause, detail) -> bool:
    """ circular record; a component with an origin-crossing area whose union is longer than half the
        record: connect_locations returns more than the union (up to the whole record);
        failure modes: the region's span exceeds the union of its areas, unrelated areas are swallowed into
        the region, or the oversized region collides with another one ('regions cannot overlap') """
    if not isinstance(detail, dict) or not detail.get("circular") or "areas" not in detail:
        return False
    length = detail["L"]
    areas, comps = _detail_model(detail)

    def big_crossing(members: list) -> bool:
        return any(_crossing(areas[i]) for i in members) and 2 * len(_union(areas, members)) > length

    if clause == "region_span":
        return detail.get("missing") == 0 and detail.get("extra", 0) > 0 and big_crossing(detail["members"])
    if clause == "unlinked_areas_share_region":
        return any(big_crossing(comp) for comp in detail["components"])
    if _overlap_error(clause, detail):
        return any(big_crossing(comp) for comp in comps)
    return False


def sig_crossing_order_with_whole_record_area(sub, spec, clause, detail) -> bool:
    """ numbering_order fails AND a whole-record area [0:L) of that kind is present AND the features that do not cross
        the origin are in order among themselves (i.e. only origin-crossing features are out of order) """
    if clause != "numbering_order" or not isinstance(detail, dict):
        return False
    features = detail.get("features", [])
    length = spec.get("L")
    if not any(parts == [[0, length]] for parts in features):
        return False
    plain = [(min(p[0] for p in parts), -sum(p[1] - p[0] for p in parts)) for parts in features if len(parts) == 1]
    return plain == sorted(plain)


SIGNATURES = {
    "crossing_order_with_whole_record_area": sig_crossing_order_with_whole_record_area,
    "sweep_misses_pre_origin": sig_sweep_misses_pre_origin,
    "span_longer_than_union": sig_span_longer_than_union,
}


# --------------------------------------------------------------------------- strategies

@st.composite
def _size(draw, length: int) -> int:
    pick = draw(st.integers(0, 9))
    if pick < 6:
        return draw(st.integers(1, max(1, length // 12)))
    if pick < 9:
        return draw(st.integers(1, max(1, length // 3)))
    return draw(gen.coord(1, length))


RELATIVE = ["overlap_tail", "overlap_tail", "overlap_head", "overlap_head", "touch_tail", "touch_head",
            "gap_tail", "gap_head", "nested", "same_start", "same_end", "identical"]


@st.composite
def area_arc(draw, length: int, circular: bool, previous: list) -> list:
    """ [start, size] of a new arc, placed relative to an earlier arc or freely; always fits the record """
    size = draw(_size(length))
    if previous and draw(st.integers(0, 3)) > 0:
        p_start, p_size = draw(st.sampled_from(previous))
        p_end = p_start + p_size
        mode = draw(st.sampled_from(RELATIVE))
        if mode == "overlap_tail":
            start = p_end - draw(st.integers(1, p_size))
        elif mode == "touch_tail":
            start = p_end
        elif mode == "gap_tail":
            start = p_end + draw(st.integers(1, 3))
        elif mode == "overlap_head":
            start = p_start - size + draw(st.integers(1, min(size, p_size)))
        elif mode == "touch_head":
            start = p_start - size
        elif mode == "gap_head":
            start = p_start - size - draw(st.integers(1, 3))
        elif mode == "nested":
            offset = draw(st.integers(0, p_size - 1))
            start = p_start + offset
            size = draw(st.integers(1, p_size - offset))
        elif mode == "same_start":
            start = p_start
        elif mode == "same_end":
            start = p_end - size
        else:
            start, size = p_start, p_size
    else:
        start = draw(gen.coord(0, length - 1, anchors=(0, length)))
    size = max(1, min(size, length))
    if circular:
        start = 0 if size == length else start % length
    else:
        start = max(0, min(start, length - 1))
        size = min(size, length - start)
    return [start, size]


def _arc_loc(arc: list, length: int, strand=1) -> dict:
    return ring.arc_to_loc(arc[0], arc[1], length, strand)


@st.composite
def _proto_spec(draw, arc: list, length: int) -> dict:
    start, size = arc
    core_offset = draw(st.integers(0, size - 1))
    core_size = draw(st.integers(1, size - core_offset))
    core = ring.arc_to_loc((start + core_offset) % length, core_size, length, 1)
    return {"loc": _arc_loc(arc, length), "core": core, "product": draw(st.sampled_from(PRODUCTS))}


@st.composite
def _area_spec(draw, arc: list, length: int, mode: str) -> dict:
    crossing = arc[0] + arc[1] > length
    choice = draw(st.sampled_from(["sub", "sub", "cand", "cand", "chain"] if mode == "direct"
                                  else ["sub", "proto", "proto"]))
    if choice == "sub":
        strand = 1 if crossing else draw(st.sampled_from([1, 1, None]))
        return {"t": "sub", "loc": _arc_loc(arc, length, strand), "sideloaded": draw(st.booleans())}
    if choice == "proto":
        return dict(draw(_proto_spec(arc, length)), t="proto")
    if choice == "cand" or arc[1] < 2:
        return {"t": "cand", "kind": "single", "protos": [draw(_proto_spec(arc, length))]}
    # a candidate of two overlapping protoclusters that together cover the arc
    start, size = arc
    first_size = draw(st.integers(1, size))
    second_offset = draw(st.integers(0, first_size - 1))
    pieces = [[start, first_size], [start + second_offset, size - second_offset]]
    pieces = [[s % length, n] for s, n in pieces]
    return {"t": "cand", "kind": draw(st.sampled_from(["neighbouring", "interleaved"])),
            "protos": [draw(_proto_spec(piece, length)) for piece in pieces]}


AFTER = ["clear_regions", "clear_regions", "clear_subregions", "clear_candidate_clusters", "clear_protoclusters"]


@st.composite
def layout_specs(draw):
    length = draw(gen.lengths(8, 3000))
    circular = draw(st.integers(0, 3)) > 0
    count = draw(st.integers(1, 10))
    arcs: list = []
    if circular and draw(st.integers(0, 4)) == 0:
        # an origin-crossing arc with neighbours on both sides of the origin
        pre = draw(st.integers(1, max(1, length // 4)))
        post = draw(st.integers(1, max(1, length // 4)))
        arcs.append([length - pre, pre + post])
    for _ in range(count):
        arcs.append(draw(area_arc(length, circular, arcs)))
    mode = draw(st.sampled_from(["direct", "direct", "pipeline"]))
    areas = [draw(_area_spec(arc, length, mode)) for arc in arcs]
    order = draw(st.permutations(list(range(len(areas)))))
    return {"L": length, "circular": circular, "mode": mode, "areas": [areas[i] for i in order],
            "after": draw(st.sampled_from(AFTER)), "manual": draw(st.sampled_from([None, 0, 1, 2, 3, 5, 7]))}


def all_arcs(length: int, circular: bool):
    for start in range(length):
        for size in range(1, length + 1):
            if size == length and start != 0:
                continue
            if start + size > length and not circular:
                continue
            yield [start, size]


def enum_layouts(max_len_triples: int, max_len_quads: int):
    def cases():
        for circular in (True, False):
            for length in range(1, max_len_triples + 1):
                arcs = list(all_arcs(length, circular))
                for count in (1, 2, 3, 4):
                    if count == 4 and length > max_len_quads:
                        continue
                    for number, combo in enumerate(itertools.combinations_with_replacement(arcs, count)):
                        areas = []
                        for position, arc in enumerate(combo):
                            loc = _arc_loc(arc, length)
                            if (number + position) % 3 == 0:
                                areas.append({"t": "cand", "kind": "single",
                                              "protos": [{"loc": loc, "core": loc, "product": "pa"}]})
                            else:
                                areas.append({"t": "sub", "loc": loc})
                        yield {"L": length, "circular": circular, "mode": "direct", "areas": areas,
                               "after": AFTER[number % len(AFTER)],
                               "manual": (number // 2) % 7 if number % 2 else None}
    return cases


# --------------------------------------------------------------------------- histories as plain data

def _gene_loc(draw, length: int, circular: bool, arcs: list) -> dict:
    anchors = tuple(x for s, n in arcs[-6:] for x in (s, (s + n) % length))
    loc = draw(gen.arc(length, allow_span=circular, min_len=3, max_len=max(3, length // 6), anchors=anchors))
    parts = loc["parts"]
    if len(parts) == 1 and parts[0][1] - parts[0][0] >= 7 and draw(st.integers(0, 4)) == 0:
        lo, hi = parts[0]
        cut1 = draw(st.integers(lo + 3, hi - 4))
        cut2 = draw(st.integers(cut1 + 1, hi - 3))
        parts = [[lo, cut1], [cut2, hi]]
        if loc["strand"] == -1:
            parts.reverse()
    return {"parts": parts, "strand": loc["strand"]}


@st.composite
def history_specs(draw):
    """ a history drawn step by step; the weights follow a shadow of the state (what exists), so that
        layouts can grow, get regions, lose some areas, get regions again """
    length = draw(gen.lengths(12, 900))
    circular = draw(st.integers(0, 3)) > 0
    steps: list = []
    arcs: list = []
    protos = subs = 0
    cands = regions = False
    for _ in range(draw(st.integers(4, 50))):
        menu = ["add_cds"] * 2 + ["add_protocluster"] * 3 + ["add_subregion"] * 3 + ["strip_antismash_annotations"]
        if protos and not cands:
            menu += ["create_candidate_clusters"] * 3
        if protos:
            menu += ["add_candidate"] * 2
        if not regions:
            menu += ["create_regions"] * 3
        else:
            menu += ["readd_regions"] * 2
        menu += ["clear_regions"] * (2 if regions else 1)
        menu += ["clear_candidate_clusters"] * (2 if cands else 1)
        if subs:
            menu += ["clear_subregions"] * 2
        if protos:
            menu += ["clear_protoclusters"]
        op = draw(st.sampled_from(menu))
        if op == "add_cds":
            steps.append({"op": op, "loc": _gene_loc(draw, length, circular, arcs)})
        elif op == "add_protocluster":
            arc = draw(area_arc(length, circular, arcs))
            arcs.append(arc)
            steps.append(dict(draw(_proto_spec(arc, length)), op=op))
            protos += 1
        elif op == "add_subregion":
            arc = draw(area_arc(length, circular, arcs))
            arcs.append(arc)
            strand = 1 if arc[0] + arc[1] > length else draw(st.sampled_from([1, 1, None]))
            steps.append({"op": op, "loc": _arc_loc(arc, length, strand), "sideloaded": draw(st.booleans())})
            subs += 1
        elif op == "add_candidate":
            steps.append({"op": op, "first": draw(st.integers(0, 7)), "count": draw(st.sampled_from([1, 1, 2]))})
            cands = True
        elif op == "readd_regions":
            steps.append({"op": op, "keys": draw(st.lists(st.integers(0, 9), min_size=3, max_size=6))})
        else:
            steps.append({"op": op})
            if op == "create_candidate_clusters":
                cands = True
            elif op == "create_regions":
                regions = bool(cands or subs)
            elif op == "clear_regions":
                regions = False
            else:
                if op in ("clear_protoclusters", "strip_antismash_annotations"):
                    protos, cands = 0, False
                if op == "clear_candidate_clusters":
                    cands = False
                if op in ("clear_subregions", "strip_antismash_annotations"):
                    subs = 0
                regions = regions and bool(cands or subs) and op != "strip_antismash_annotations"
    return {"L": length, "circular": circular, "steps": steps}


# --------------------------------------------------------------------------- the state machine

def machine_factory(stats):
    """ returns a fresh RuleBasedStateMachine class bound to the shard's Stats """
    from hypothesis.stateful import RuleBasedStateMachine, initialize, precondition, rule

    # the runner hangs two unpicklable helpers on the Stats object; keep them here and take them off again,
    # otherwise a forked shard cannot send its Stats back to the parent
    known = stats.known
    for attribute in ("known", "rng"):
        if hasattr(stats, attribute):
            delattr(stats, attribute)

    class RecordHistory(RuleBasedStateMachine):
        last_failure_history = None

        def __init__(self) -> None:
            super().__init__()
            self.model = None
            self.spec = None
            self.dead = False
            self.arcs: list = []

        # ---- plumbing
        def _do(self, step: dict) -> None:
            if self.dead:
                return
            self.spec["steps"].append(step)
            try:
                self.model.apply(step)
            except _Stop as stop:
                self.model.labels.add(stop.label)
                self.dead = True
            except Violation as vio:
                spec = copy.deepcopy(self.spec)
                known_id = known(spec, vio)
                if known_id is not None:
                    stats.excluded[known_id] += 1
                    self.model.labels.add("stopped_at_known_finding")
                    self.dead = True
                    return
                type(self).last_failure_history = spec
                raise

        def _arc(self, data) -> list:
            arc = data.draw(area_arc(self.model.length, self.model.circular, self.arcs), label="arc")
            self.arcs.append(arc)
            return arc

        @initialize(length=gen.lengths(12, 900), circular=st.integers(0, 3))
        def start(self, length, circular) -> None:
            self.model = History(length, circular > 0)
            self.spec = {"L": length, "circular": circular > 0, "steps": []}

        # ---- additions
        @rule(data=st.data())
        def add_cds(self, data) -> None:
            if self.dead:
                return
            loc = _gene_loc(lambda strategy: data.draw(strategy, label="gene"), self.model.length,
                            self.model.circular, self.arcs)
            self._do({"op": "add_cds", "loc": loc})

        @rule(data=st.data())
        def add_protocluster(self, data) -> None:
            if self.dead:
                return
            arc = self._arc(data)
            self._do(dict(data.draw(_proto_spec(arc, self.model.length), label="protocluster"), op="add_protocluster"))

        @rule(data=st.data())
        def add_subregion(self, data) -> None:
            if self.dead:
                return
            arc = self._arc(data)
            crossing = arc[0] + arc[1] > self.model.length
            strand = 1 if crossing else data.draw(st.sampled_from([1, 1, None]), label="strand")
            self._do({"op": "add_subregion", "loc": _arc_loc(arc, self.model.length, strand),
                      "sideloaded": data.draw(st.booleans(), label="sideloaded")})

        # ---- creation
        @precondition(lambda self: self.model is not None and not self.dead and self.model.protos
                      and not self.model.have_cands)
        @rule()
        def create_candidate_clusters(self) -> None:
            self._do({"op": "create_candidate_clusters"})

        @precondition(lambda self: self.model is not None and not self.dead and self.model.protos)
        @rule(first=st.integers(0, 7), count=st.sampled_from([1, 1, 2]))
        def add_candidate(self, first, count) -> None:
            self._do({"op": "add_candidate", "first": first, "count": count})

        @precondition(lambda self: self.model is not None and not self.dead and self.model.have_regions
                      and self.model.regions_complete)
        @rule(keys=st.lists(st.integers(0, 9), min_size=3, max_size=6))
        def readd_regions(self, keys) -> None:
            self._do({"op": "readd_regions", "keys": keys})

        @precondition(lambda self: self.model is not None and not self.dead and not self.model.have_regions)
        @rule()
        def create_regions(self) -> None:
            self._do({"op": "create_regions"})

        # ---- clearing (thinned out so that layouts can grow in between)
        def _clear(self, op: str, roll: int) -> None:
            if roll == 0 or self.model.applied < 3:
                self._do({"op": op})

        @rule(roll=st.integers(0, 2))
        def clear_regions(self, roll) -> None:
            self._clear("clear_regions", roll)

        @rule(roll=st.integers(0, 2))
        def clear_candidate_clusters(self, roll) -> None:
            self._clear("clear_candidate_clusters", roll)

        @rule(roll=st.integers(0, 2))
        def clear_subregions(self, roll) -> None:
            self._clear("clear_subregions", roll)

        @rule(roll=st.integers(0, 3))
        def clear_protoclusters(self, roll) -> None:
            self._clear("clear_protoclusters", roll)

        @rule(roll=st.integers(0, 5))
        def strip_antismash_annotations(self, roll) -> None:
            self._clear("strip_antismash_annotations", roll)

        def teardown(self) -> None:
            if self.model is None:
                return
            stats.evaluations += 1
            info = self.model.result()
            for label in info["classes"]:
                stats.classes[label] += 1
            if info["nontrivial"]:
                stats.nontrivial_digests.add(digest(self.spec))
                if len(stats.first_samples) < 3:
                    stats.first_samples.append(copy.deepcopy(self.spec))

    return RecordHistory


def run(ctx) -> None:
    ctx.extra["bounds"] = {"layout_enum": {"max_record_length": ctx.pick(6, 9), "areas_up_to_3_for_all_lengths": True,
                                           "four_areas_up_to_length": ctx.pick(4, 5)}}
    ctx.enum("layout_enum", enum_layouts(ctx.pick(6, 9), ctx.pick(4, 5)), shards=ctx.pick(8, 16))
    ctx.hyp("layout", layout_specs(), max_examples=ctx.pick(3000, 100000), shards=ctx.pick(8, 16))
    ctx.stateful("history", machine_factory, max_examples=ctx.pick(160, 4800), steps=50, shards=ctx.pick(8, 16))
    ctx.hyp("history_mix", history_specs(), max_examples=ctx.pick(800, 24000), shards=ctx.pick(8, 16))
