""" C07 - detection is invariant under origin rotation and rule order """

from __future__ import annotations

import itertools

from hypothesis import strategies as st

from vlib import gen, ring
from vlib.build import make_cds, make_record
from vlib.runner import Violation, code_under_test
from checks.c03_protoclusters import _build_ruleset, detection_specs, extender_specs, hmmsearch_from_spec

PROPERTY_ID = "C07"
LEVEL = "exploration"
RULE = ("C03's record/ruleset generator. rotation: circular records; for every case ALL rotations k in [0,L) when L <= 80, "
        "otherwise every gene boundary -1/0/+1, the middle of every gene and evenly spaced offsets (<= 40); the rotation is "
        "applied to the spec (coordinates (x-k) mod L, genes cut by the new origin become origin-spanning with the documented "
        "part order), detection + candidate cluster + region creation are run on both and coordinate-free summaries (per rule: "
        "core genes and member genes of each protocluster; candidates by kind and member protoclusters; regions by member "
        "genes; definition domains per gene) must be equal whenever every region is shorter than half the record. order: all "
        "orders of the rules that keep superiors before inferiors (<= 24) and all sub-selections closed under superiors; the "
        "protoclusters of each rule must be identical. get_ruleset: histories of 2-4 ruleset requests in one process "
        "(strictness, taxon, rule/category limits, fungal multipliers); each returned ruleset must hold exactly the selected "
        "shipped rules in file order with the rule file's distances scaled once by that request's multipliers. Non-trivial: a rotation cuts a gene / core / neighbourhood, or the "
        "ruleset has >= 3 rules with >= 2 distinct cutoffs.")
ASSUMPTIONS = [
    "membership of genes in cores/areas is read with Record.get_cds_features_within_location (decided by C08)",
    "records on which candidate cluster or region creation raises (C05/C06's subject) are excluded and counted, in either orientation",
    "rotation equality is only asserted when every region of the unrotated run is shorter than half the record (statement)",
    "sub-selections only compare rules whose complete superior closure is kept",
]


def _rotate_loc(loc: dict, offset: int, length: int) -> dict:
    forward = loc["parts"] if loc["strand"] != -1 else list(reversed(loc["parts"]))
    parts = []
    for start, end in forward:
        size = end - start
        new_start = (start - offset) % length
        new_end = new_start + size
        if new_end > length:
            parts.append([new_start, length])
            parts.append([0, new_end - length])
        else:
            parts.append([new_start, new_end])
    # merge pieces of one exon that are adjacent again (an exon previously split by the old origin)
    merged = [parts[0]]
    for part in parts[1:]:
        if merged[-1][1] == part[0]:
            merged[-1] = [merged[-1][0], part[1]]
        else:
            merged.append(part)
    if loc["strand"] == -1:
        merged.reverse()
    out = {"parts": merged, "strand": loc["strand"]}
    out["kind"] = "span" if gen.is_span(out) else ("simple" if len(merged) == 1 else "multi")
    return out


def _rotate_spec(spec: dict, offset: int) -> dict:
    rotated = dict(spec)
    rotated["genes"] = [{"name": gene["name"], "loc": _rotate_loc(gene["loc"], offset, spec["L"])}
                        for gene in spec["genes"]]
    return rotated


class _Excluded(Exception):
    pass


def _summaries(spec: dict, rule_subset=None, rule_order=None) -> dict:
    from antismash.common.hmm_rule_parser import cluster_prediction
    record = make_record(spec["L"], spec["circular"])
    for gene in spec["genes"]:
        record.add_cds_feature(make_cds(gene["loc"], gene["name"]))
    run_spec = spec
    if rule_order is not None or rule_subset is not None:
        chosen = list(spec["rules"]) if rule_order is None else [spec["rules"][i] for i in rule_order]
        if rule_subset is not None:
            chosen = [rule for rule in chosen if rule["name"] in rule_subset]
        run_spec = dict(spec, rules=chosen)
    ruleset = _build_ruleset(run_spec, strip_superiors=False)
    with hmmsearch_from_spec(run_spec), code_under_test("detection_total"):
        results = cluster_prediction.detect_protoclusters_and_signatures(record, ruleset)

    def names(location) -> frozenset:
        return frozenset(cds.get_name() for cds in record.get_cds_features_within_location(location))

    protos = {}
    exact = {}
    for proto in results.protoclusters:
        summary = (proto.product, names(proto.core_location), names(proto.location))
        protos.setdefault(proto.product, []).append(summary)
        exact.setdefault(proto.product, []).append((str(proto.core_location), str(proto.location)))
    domains = {}
    for proto, cds_results in results.cds_by_cluster.items():
        for cds_result in cds_results:
            for product, found in cds_result.definition_domains.items():
                domains[(cds_result.cds.get_name(), product)] = tuple(sorted(found))
    out = {
        "protoclusters": {product: sorted(items, key=repr) for product, items in protos.items()},
        "exact": {product: sorted(items) for product, items in exact.items()},
        "domains": dict(sorted(domains.items())),
    }
    try:
        for proto in results.protoclusters:
            record.add_protocluster(proto)
        record.create_candidate_clusters()
        record.create_regions()
    except Exception as err:  # pylint: disable=broad-except
        raise _Excluded(f"{type(err).__name__}: {err}") from err
    proto_summary = {id(proto): (proto.product, names(proto.core_location), names(proto.location))
                     for proto in record.get_protoclusters()}
    out["candidates"] = sorted(((str(cand.kind), tuple(sorted((proto_summary[id(p)] for p in cand.protoclusters), key=repr)))
                                for cand in record.get_candidate_clusters()), key=repr)
    out["regions"] = sorted((tuple(sorted(names(region.location))) for region in record.get_regions()))
    out["region_lengths"] = [len(region.location) for region in record.get_regions()]
    out["cut_points"] = sorted({int(x) for proto in record.get_protoclusters()
                                for loc in (proto.core_location, proto.location)
                                for part in loc.parts for x in (part.start, part.end)})
    return out


def _jsonable(value):
    if isinstance(value, (frozenset, set)):
        return sorted(value)
    if isinstance(value, (tuple, list)):
        return [_jsonable(v) for v in value]
    if isinstance(value, dict):
        return {str(k): _jsonable(v) for k, v in value.items()}
    return value


def _offsets(spec: dict) -> list:
    length = spec["L"]
    if length <= 80:
        return list(range(1, length))
    chosen = set()
    for gene in spec["genes"]:
        for start, end in gene["loc"]["parts"]:
            for point in (start - 1, start, start + 1, end - 1, end, end + 1, (start + end) // 2):
                chosen.add(point % length)
    chosen.discard(0)
    ordered = sorted(chosen)
    step = max(1, len(ordered) // 28)
    picked = ordered[::step][:28]
    picked += [length // 2, length // 3, length - 1, 1, (2 * length) // 3]
    return sorted(set(p for p in picked if 0 < p < length))


def check_rotation(spec: dict) -> dict:
    length = spec["L"]
    try:
        base = _summaries(spec)
    except _Excluded:
        return {"nontrivial": False, "classes": ["excluded_area_creation_failed"]}
    if any(2 * size >= length for size in base["region_lengths"]):
        return {"nontrivial": False, "classes": ["skipped_region_half_record_or_more"]}
    cut_something = False
    classes = set()
    offsets = _offsets(spec)
    for offset in offsets:
        rotated = _rotate_spec(spec, offset)
        try:
            other = _summaries(rotated)
        except _Excluded:
            classes.add("excluded_area_creation_failed_after_rotation")
            continue
        for key in ("protoclusters", "domains", "candidates", "regions"):
            if base[key] != other[key]:
                raise Violation(f"rotation_{key}", {"offset": offset, "unrotated": _jsonable(base[key]),
                                                    "rotated": _jsonable(other[key])})
        if any(gen.is_span(g["loc"]) for g in rotated["genes"]):
            cut_something = True
            classes.add("rotation_cuts_gene")
        # does the new origin fall strictly inside a core or neighbourhood of the unrotated run?
    if base["protoclusters"]:
        classes.add("has_protoclusters")
    if base["regions"]:
        classes.add("has_regions")
    lows_highs = base["cut_points"]
    if lows_highs and any(lows_highs[0] < offset < lows_highs[-1] for offset in offsets):
        cut_something = cut_something or bool(base["protoclusters"])
        classes.add("rotation_inside_cluster_span")
    classes.add(f"rotations_{min(len(offsets), 60) // 10 * 10}")
    return {"nontrivial": cut_something and bool(base["protoclusters"]), "classes": sorted(classes)}


def _topological_orders(rules_spec: list, limit: int = 24) -> list:
    orders = []
    indices = list(range(len(rules_spec)))
    position_of = {rule["name"]: i for i, rule in enumerate(rules_spec)}
    for perm in itertools.permutations(indices):
        seen = set()
        ok = True
        for index in perm:
            if any(position_of[s] not in seen for s in rules_spec[index]["superiors"]):
                ok = False
                break
            seen.add(index)
        if ok:
            orders.append(list(perm))
        if len(orders) >= limit:
            break
    return orders


def check_rule_order(spec: dict) -> dict:
    base = _summaries_no_areas(spec)
    rules_spec = spec["rules"]
    orders = _topological_orders(rules_spec)
    for order in orders[1:]:
        other = _summaries_no_areas(spec, rule_order=order)
        if other != base:
            raise Violation("rule_order", {"order": [rules_spec[i]["name"] for i in order],
                                           "original": _jsonable(base), "permuted": _jsonable(other)})
    closure = {}
    for rule in rules_spec:
        closed = set(rule["superiors"])
        for parent in rule["superiors"]:
            closed |= closure[parent]
        closure[rule["name"]] = closed
    names = [rule["name"] for rule in rules_spec]
    subsets = 0
    for size in range(1, len(names)):
        for subset in itertools.combinations(names, size):
            kept = set(subset)
            if any(not closure[name] <= kept for name in kept):
                continue
            subsets += 1
            other = _summaries_no_areas(spec, rule_subset=kept)
            for name in kept:
                if other.get(name, []) != base.get(name, []):
                    raise Violation("rule_subset", {"kept": sorted(kept), "rule": name,
                                                    "with_all_rules": _jsonable(base.get(name, [])),
                                                    "with_subset": _jsonable(other.get(name, []))})
    cutoffs = {rule["cutoff"] for rule in rules_spec}
    return {"nontrivial": len(rules_spec) >= 3 and len(cutoffs) >= 2 and bool(base),
            "classes": [f"rules_{len(rules_spec)}", f"orders_{len(orders)}", f"subsets_{min(subsets, 9)}",
                        "circular" if spec["circular"] else "linear"]}


def _summaries_no_areas(spec: dict, rule_subset=None, rule_order=None) -> dict:
    """ exact protocluster coordinates per rule (same record, so coordinates are comparable) """
    from antismash.common.hmm_rule_parser import cluster_prediction
    record = make_record(spec["L"], spec["circular"])
    for gene in spec["genes"]:
        record.add_cds_feature(make_cds(gene["loc"], gene["name"]))
    chosen = list(spec["rules"]) if rule_order is None else [spec["rules"][i] for i in rule_order]
    if rule_subset is not None:
        chosen = [rule for rule in chosen if rule["name"] in rule_subset]
    ruleset = _build_ruleset(dict(spec, rules=chosen), strip_superiors=False)
    with hmmsearch_from_spec(spec), code_under_test("detection_total"):
        results = cluster_prediction.detect_protoclusters_and_signatures(record, ruleset)
    out: dict = {}
    for proto in results.protoclusters:
        out.setdefault(proto.product, []).append((str(proto.core_location), str(proto.location)))
    return {product: sorted(items) for product, items in out.items()}


_REFERENCE_FILES: dict = {}


def _reference_rules(strictness: str) -> list:
    """ the shipped rules of a strictness level read by the independent reference parser (vlib/rules.py) """
    if strictness not in _REFERENCE_FILES:
        from antismash.detection import hmm_detection
        from vlib import rules as rule_model
        texts = []
        for path in hmm_detection._get_rule_files_for_strictness(strictness):  # pylint: disable=protected-access
            with open(path, encoding="utf-8") as handle:
                texts.append(handle.read())
        _REFERENCE_FILES[strictness] = rule_model.parse_file("\n".join(texts))["rules"]
    return _REFERENCE_FILES[strictness]


def _shipped_equivalence_groups() -> list:
    """ the equivalence groups of the shipped filter file, read independently (one comma-separated group per line) """
    if "groups" not in _REFERENCE_FILES:
        from antismash.detection import hmm_detection
        groups = []
        with open(hmm_detection.EQUIVALENCE_GROUPS, encoding="utf-8") as handle:
            for line in handle:
                names = frozenset(name.strip() for name in line.strip().split(",") if name.strip())
                if names:
                    groups.append(names)
        _REFERENCE_FILES["groups"] = groups
    return _REFERENCE_FILES["groups"]


def check_get_ruleset(spec: dict) -> dict:
    """ a history of ruleset requests in one process: every ruleset must hold exactly the selected rules, in file
        order, each with the distances of the rule file scaled once by the multipliers of THAT request """
    import importlib
    import types
    from antismash.detection import hmm_detection
    # every case starts from fresh module state (ruleset caches, and whatever cache the rule machinery below it keeps),
    # so that a case is a pure function of its request history
    from antismash.common.hmm_rule_parser import cluster_prediction
    importlib.reload(cluster_prediction)
    importlib.reload(hmm_detection)
    seen_conditions: dict = {}
    for index, request in enumerate(spec["requests"]):
        options = types.SimpleNamespace(
            hmmdetection_strictness=request["strictness"],
            hmmdetection_limit_to_rules=list(request["rules"]),
            hmmdetection_limit_to_categories=list(request["categories"]),
            taxon=request["taxon"],
            hmmdetection_fungal_cutoff_multiplier=request["mc"],
            hmmdetection_fungal_neighbourhood_multiplier=request["mn"],
        )
        with code_under_test("get_ruleset_total"):
            ruleset = hmm_detection.get_ruleset(options)
        reference = _reference_rules(request["strictness"])
        wanted = [rule for rule in reference
                  if (not request["rules"] or rule["name"] in request["rules"])
                  and (not request["categories"] or rule["category"] in request["categories"])]
        got_names = [rule.name for rule in ruleset.rules]
        if got_names != [rule["name"] for rule in wanted]:
            raise Violation("ruleset_selection", {"request": index, "got": got_names[:12],
                                                  "want": [rule["name"] for rule in wanted][:12]})
        mult_c, mult_n = (request["mc"], request["mn"]) if request["taxon"] == "fungi" else (1.0, 1.0)
        for rule, ref in zip(ruleset.rules, wanted):
            want = (int(ref["cutoff_kb"] * 1000 * mult_c), int(ref["neighbourhood_kb"] * 1000 * mult_n))
            if (rule.cutoff, rule.neighbourhood) != want:
                raise Violation("ruleset_distances", {"request": index, "rule": rule.name,
                                                      "got": [rule.cutoff, rule.neighbourhood], "want": list(want),
                                                      "history": spec["requests"][:index + 1]})
            text = str(rule.conditions)
            if seen_conditions.setdefault(rule.name, text) != text:
                raise Violation("ruleset_conditions_changed", {"request": index, "rule": rule.name})
        # which hits a kept rule gets to see must not depend on the rules left out: competing profiles are decided by
        # the equivalence groups, so every group of the shipped file that holds a profile of a kept rule is intact
        from vlib import rules as rule_model
        used: set = set()
        for ref in wanted:
            used |= rule_model.profiles_of(ref["conditions"])
            if ref.get("extenders"):
                used |= rule_model.profiles_of(ref["extenders"])
        with code_under_test("get_ruleset_total"):
            got_groups = {frozenset(group) for group in ruleset.get_equivalence_groups()}
        for group in _shipped_equivalence_groups():
            if group & used and group not in got_groups:
                raise Violation("ruleset_equivalence_groups", {
                    "request": index, "group": sorted(group)[:8], "used_by_kept_rules": sorted(group & used)[:5],
                    "closest": sorted(max(got_groups, key=lambda g: len(g & group), default=frozenset()))[:8],
                    "history": spec["requests"][:index + 1]})
    distinct = len({json_key(r) for r in spec["requests"]})
    fungal = sum(1 for r in spec["requests"] if r["taxon"] == "fungi" and (r["mc"] != 1.0 or r["mn"] != 1.0))
    return {"nontrivial": distinct >= 2 and fungal >= 1,
            "classes": [f"requests_{len(spec['requests'])}", f"fungal_{min(fungal, 3)}",
                        "repeated_request" if distinct < len(spec["requests"]) else "all_distinct"]}


def json_key(request: dict) -> str:
    import json
    return json.dumps(request, sort_keys=True)


SUBCHECKS = {"rotation": check_rotation, "rule_order": check_rule_order, "get_ruleset": check_get_ruleset}
SIGNATURES: dict = {}


@st.composite
def circular_specs(draw) -> dict:
    spec = draw(detection_specs())
    spec["circular"] = True
    # drop genes that only make sense on a line? (none) - origin-spanning genes may already be present
    return spec


@st.composite
def small_circular_specs(draw) -> dict:
    """ small rings so that all rotations are tried; clusters kept small relative to L """
    from checks.c03_protoclusters import PROFILES
    length = draw(st.integers(40, 80))
    count = draw(st.integers(1, 3))
    spec_rules = []
    for index in range(count):
        superiors = []
        if index and draw(st.integers(0, 2)) == 0:
            superiors = [spec_rules[draw(st.integers(0, index - 1))]["name"]]
        first = draw(st.sampled_from(PROFILES))
        second = draw(st.sampled_from([p for p in PROFILES if p != first]))
        tree = draw(st.sampled_from([["id", first], ["and", [["id", first], ["id", second]]],
                                     ["or", [["id", first], ["id", second]]],
                                     ["cds", ["and", [["id", first], ["id", second]]]],
                                     ["and", [["id", first], ["not", ["id", second]]]],
                                     ["minimum", 2, [first, second]],
                                     ["and", [["id", first], ["minscore", second, 50]]],
                                     ["and", [["minscore", first, 50], ["minscore", second, 120]]],
                                     ["minscore", first, 50]]))
        extenders = ["id", draw(st.sampled_from(PROFILES))] if draw(st.integers(0, 4)) == 0 else None
        spec_rules.append({"name": f"r{index}", "conditions": tree, "superiors": superiors, "extenders": extenders,
                           "cutoff": draw(st.sampled_from([1, 2, 4, 7])),
                           "neighbourhood": draw(st.sampled_from([0, 1, 3, 5]))})
    gaps = tuple(sorted({max(0, r["cutoff"] + d) for r in spec_rules for d in (-1, 0, 1)}))
    genes = draw(gen.gene_layout(length, True, max_genes=7, size_hint=draw(st.sampled_from([4, 8])), gap_choices=gaps,
                                 multi_exon=True))
    from vlib import rules as rule_model
    used = sorted(set().union(*[rule_model.profiles_of(rule["conditions"]) for rule in spec_rules]))
    hits = {}
    for gene in genes:
        chosen = draw(st.lists(st.sampled_from(used + PROFILES[:1]), min_size=0, max_size=2, unique=True))
        hits[gene["name"]] = {p: draw(st.sampled_from([100, 100, 150, 30])) for p in chosen}
    return {"L": length, "circular": True, "genes": genes, "hits": hits, "rules": spec_rules}


@st.composite
def two_gene_rule_specs(draw) -> dict:
    """ a rule that needs hits on two different genes, one of them multi-exon, close together on a small ring:
        every rotation puts the origin somewhere between / inside them """
    length = draw(st.integers(40, 80))
    cutoff = draw(st.sampled_from([2, 4, 7]))
    start = draw(st.integers(0, length - 1))
    exon1 = draw(st.integers(3, 5))
    intron = draw(st.integers(1, 4))
    exon2 = draw(st.integers(3, 5))
    gap = draw(st.integers(0, cutoff - 1))
    size_b = draw(st.integers(3, 6))
    strand_a = draw(st.sampled_from([1, -1]))
    first_is_multi = draw(st.booleans())
    pieces = [("exon", exon1), ("intron", intron), ("exon", exon2), ("gap", gap), ("b", size_b)]
    if not first_is_multi:
        pieces = [("b", size_b), ("gap", gap), ("exon", exon1), ("intron", intron), ("exon", exon2)]
    pos = 0
    parts_a, part_b = [], None
    for kind, size in pieces:
        if kind == "exon":
            parts_a.append([pos, pos + size])
        elif kind == "b":
            part_b = [pos, pos + size]
        pos += size
    if pos + 6 > length:
        length = pos + 6
    base = {"g0": {"parts": parts_a if strand_a == 1 else list(reversed(parts_a)), "strand": strand_a, "kind": "multi"},
            "g1": {"parts": [part_b], "strand": draw(st.sampled_from([1, -1])), "kind": "simple"}}
    genes = [{"name": name, "loc": _rotate_loc(loc, -start, length)} for name, loc in base.items()]
    # an unrelated gene far away, when there is room
    if length - pos >= 3 * cutoff + 8:
        far = pos + cutoff + 2
        genes.append({"name": "g2", "loc": _rotate_loc({"parts": [[far, far + 3]], "strand": 1, "kind": "simple"}, -start, length)})
    conditions = draw(st.sampled_from([
        ["and", [["id", "a"], ["id", "b"]]], ["minimum", 2, ["a", "b"]],
        ["and", [["id", "a"], ["not", ["id", "c"]], ["id", "b"]]],
        ["or", [["and", [["id", "a"], ["id", "b"]]], ["id", "d"]]],
        # scores that have to be found on the neighbouring gene, from either side
        ["and", [["minscore", "a", 80], ["minscore", "b", 50]]],
        ["and", [["id", "a"], ["minscore", "b", 50]]],
    ]))
    hits = {"g0": {"a": 100}, "g1": {"b": 100}}
    if len(genes) > 2:
        hits["g2"] = {draw(st.sampled_from(["c", "d", "a"])): 100}
    rules_spec = [{"name": "r0", "conditions": conditions, "superiors": [], "extenders": None, "cutoff": cutoff,
                   "neighbourhood": draw(st.sampled_from([0, 1, 3]))}]
    return {"L": length, "circular": True, "genes": genes, "hits": hits, "rules": rules_spec}


@st.composite
def extender_circular_specs(draw) -> dict:
    """ C03's extender-chain layouts, on a ring (chains of extender genes, several anchor groups) """
    spec = draw(extender_specs())
    spec["circular"] = True
    return spec


SOME_RULES = ["T1PKS", "NRPS", "fungal_CDPS", "terpene", "lanthipeptide-class-i", "NRPS-like", "T3PKS", "betalactone",
              "fungal-RiPP-like", "indole"]
SOME_CATEGORIES = ["PKS", "NRPS", "RiPP", "terpene", "other"]


@st.composite
def ruleset_requests(draw) -> dict:
    requests = []
    for _ in range(draw(st.integers(2, 4))):
        if requests and draw(st.integers(0, 3)) == 0:
            requests.append(dict(draw(st.sampled_from(requests))))
            continue
        requests.append({
            "strictness": draw(st.sampled_from(["strict", "relaxed", "relaxed", "loose"])),
            "taxon": draw(st.sampled_from(["fungi", "fungi", "bacteria"])),
            "rules": sorted(draw(st.lists(st.sampled_from(SOME_RULES), max_size=3, unique=True))),
            "categories": sorted(draw(st.lists(st.sampled_from(SOME_CATEGORIES), max_size=2, unique=True)))
            if draw(st.integers(0, 2)) == 0 else [],
            "mc": draw(st.sampled_from([1.0, 1.0, 1.5, 0.5])),
            "mn": draw(st.sampled_from([1.5, 1.5, 1.0, 2.0])),
        })
    return {"requests": requests}


def run(ctx) -> None:
    ctx.hyp("get_ruleset", ruleset_requests(), max_examples=ctx.pick(120, 3000), shards=ctx.pick(8, 16))
    ctx.hyp("rotation", two_gene_rule_specs(), max_examples=ctx.pick(60, 1500), shards=ctx.pick(8, 16))
    ctx.hyp("rotation", extender_circular_specs(), max_examples=ctx.pick(60, 1500), shards=ctx.pick(8, 16))
    ctx.hyp("rotation", small_circular_specs(), max_examples=ctx.pick(160, 4000), shards=ctx.pick(8, 16))
    ctx.hyp("rotation", circular_specs(), max_examples=ctx.pick(120, 3000), shards=ctx.pick(8, 16))
    ctx.hyp("rule_order", detection_specs(), max_examples=ctx.pick(500, 12000), shards=ctx.pick(8, 16))
