""" C14 - NRPS/PKS modules partition a gene's domains in order and obey the module rules """

from __future__ import annotations

import functools
import itertools
import json

from hypothesis import strategies as st

from vlib.runner import Violation, code_under_test

PROPERTY_ID = "C14"
LEVEL = "exploration"
RULE = ("Enumeration: every string of length <= 3 (quick) / <= 4 (thorough) over 20 class representatives (one name "
        "per class plus CAL_domain, SAT, Thioesterase, Epimerization, PKS_KR, nMT, LPG_synthase_C, Beta_elim_lyase, "
        "PKS_PP, PCP, Trans-AT_docking, and PKS_KS with no / Trans-AT / Iterative subtype) as one gene, plus the "
        "documented double-carrier string CP,CP,LPG_synthase_C,Beta_elim_lyase with every symbol before, inside and "
        "after it; every pair (upstream string, downstream string) over 13 representatives with lengths "
        "(<=1,<=3),(<=2,<=1) quick / (<=2,<=3),(<=3,<=1) thorough as two adjacent genes (both forward; both reverse "
        "and mixed strands for the short ones), every module template cut in two at every point with six "
        "continuations, directly through combine_modules and (total length <= 3 / <= 4, reverse strand <= 3) through "
        "generate_domains; through generate_domains also every head | tail fragment pair (cut templates, 16 x 19 "
        "head/tail lists, all pairs of single symbols) with a gene in between that has results but no modules "
        "(docking/COM domains only, ab-motif hits only, both), on +++ and ---, and every fragment pair whose upstream "
        "gene also holds the tail's first 1-2 profiles at the tail's protein coordinates (different hits: scores "
        "differ per gene); directly and through generate_domains a complete loading module of every loader kind "
        "(A, A-OX, AT, CAL x ACP, PCP, PKS_PP; bare, behind Interface / X, followed by TE / a new module) at the "
        "start of the downstream gene behind every single symbol and every head fragment, ++ and --. "
        "Random: Hypothesis strings of length 0-14 over all 60 profile names with KS subtypes (none, the five "
        "ksdomains.hmm names, a nested transATor name - also attached top-down with the names read in between, as "
        "find_subtypes does in two passes -, two ambiguous internal hits), start positions increasing "
        "with equal-start ties and shuffled input order as classes; a mixture of uniform strings, strings made of "
        "mutated module templates, and for gene pairs / chains of 2-4 genes a module template cut in two at a random "
        "point (head | tail, optional lone KR after the tail) so that head/tail pairs are mergeable by "
        "construction; chains optionally get a module-less gene (docking/COM-only or motif-only) between a head gene "
        "and a tail gene, and in two chains of five a gene repeats the first 1-3 (profile, start, end) of the gene "
        "downstream of it. A case is non-trivial when the gene has >= 2 modules or a module with two carrier proteins "
        "(look-ahead case), or - for pairs - a merge is attempted (same strand, both genes have modules, head "
        "incomplete), or - through generate_domains - a multi-gene module or >= 2 modules result; distinct = sha1 "
        "of the canonical spec (enumerated cases are distinct by construction).")
ASSUMPTIONS = [
    "the domain alphabet and its classes are the frozen copy of CLASSIFICATIONS in this file (60 names); names added "
    "to antiSMASH later are not generated",
    "only PKS_KS domains carry internal (subtype) hits, as in find_subtypes",
    "the order of a gene's domains is the stable sort by query_start of the list handed to build_modules_for_cds",
    "the 'documented layout' is the module docstring of module_identification.py plus DOUBLE_TRANSPORTER_CASES: a "
    "second carrier protein is allowed only when directly followed by LPG_synthase_C, Beta_elim_lyase",
    "a split between consecutive modules is judged against a reference state machine of that layout (explicit starter, "
    "or the next domain cannot extend the module); the reverse direction (a missing split) is judged by the layout "
    "rules of the statement only",
    "a complete leading module may take part in a merge only when it opens with an adenylation, acyltransferase or "
    "Interface domain (the documented fused starters, frozen here; CAL_domain and SAT are explicit starters)",
    "the saved forms of a record-level module feature are its Biopython feature and the GenBank text of the record "
    "(Bio.SeqIO write, parse, Record.from_biopython); the order of module features inside a record is not judged",
    "merging is emulated exactly as generate_domains calls combine_modules (argument order chosen by the strand of the "
    "later gene); the pipeline subcheck runs generate_domains itself with the three HMMER front ends replaced",
    "the docking/COM domains set aside by the statement are the four profiles NRPS-COM_Nterm/Cterm and "
    "PKS_Docking_Nterm/Cterm; the filter subchecks call filter_nonterminal_docking_domains (the exit of "
    "find_domains) and only require that nothing else is removed and none of the four within 50 aa (start < 50 "
    "or length - end < 50, the code's distance) of a protein end; that the others are removed is not judged",
]

# --------------------------------------------------------------------------- frozen alphabet (documented classes)

ADENYLATIONS = ("AMP-binding", "A-OX")
ACYLTRANSFERASES = ("PKS_AT",)
CONDENSATIONS = ("Cglyc", "Condensation_DCL", "Condensation_LCL", "Condensation_sid", "Condensation_Starter",
                 "Condensation_Dual", "Heterocyclization")
ENDS = ("Abhydrolase_1", "cAT", "Epimerization", "Thioesterase", "TD")
KETOSYNTHASES = ("PKS_KS",)
MODIFIERS = ("PKS_DH", "PKS_DH2", "PKS_DHt", "PKS_KR", "PKS_ER", "cMT", "nMT", "oMT", "Beta_elim_lyase",
             "LPG_synthase_C", "TauD")
CARRIERS = ("ACP", "ACP_beta", "PCP", "PKS_PP", "PP-binding")
ALT_STARTERS = ("CAL_domain", "SAT")
NON_MODULE = ("NRPS-COM_Cterm", "NRPS-COM_Nterm", "PKS_Docking_Cterm", "PKS_Docking_Nterm")
OTHER = ("ACPS", "Aminotran_1_2", "Aminotran_3", "Aminotran_4", "Aminotran_5", "B", "ECH", "F", "FkbH", "GNAT",
         "Hal", "IBH_Asp", "Interface", "NAD_binding_4", "Polyketide_cyc", "Polyketide_cyc2", "PS", "PT",
         "TIGR02353", "X")
SPECIAL = ("Trans-AT_docking", "TIGR01720")
CLASSES = {"A": ADENYLATIONS, "AT": ACYLTRANSFERASES, "C": CONDENSATIONS, "S": ALT_STARTERS, "E": ENDS,
           "KS": KETOSYNTHASES, "+": MODIFIERS, "CP": CARRIERS, "!": SPECIAL, ".": OTHER, "ignore": NON_MODULE}
ALL_NAMES = tuple(name for group in CLASSES.values() for name in group)
CLASS_OF = {name: key for key, group in CLASSES.items() for name in group}
DOUBLE_CASE = ("LPG_synthase_C", "Beta_elim_lyase")
# the documented exception to "only incomplete fragments are merged": a leading module that is complete merely because
# a loader-only module counts as complete at the start of a gene may still be the rest of a module split between genes
# when it opens with an adenylation / acyltransferase domain or the Interface half of a fused domain.  CAL_domain and
# SAT are explicit (alternate) starters and open a module of their own.
FUSED_STARTERS = set(ADENYLATIONS) | set(ACYLTRANSFERASES) | {"Interface"}
KS_SUBTYPES = ("Trans-AT-KS", "Modular-KS", "Iterative-KS", "Hybrid-KS", "Enediyne-KS")
MONOMER_BASES = ("", "mal", "mmal", "pk", "ala", "AHBA")


def pure_starter(name: str) -> bool:
    """ can only open a module (explicit starter) """
    return name in CONDENSATIONS or name in KETOSYNTHASES or name == "SAT"


def loader_capable(name: str) -> bool:
    return name in ADENYLATIONS or name in ACYLTRANSFERASES or name == "CAL_domain"


def starter_capable(name: str) -> bool:
    return pure_starter(name) or loader_capable(name)


def pks_specific(name: str) -> bool:
    return name.startswith("PKS") or name in ACYLTRANSFERASES or name in KETOSYNTHASES


def nrps_specific(name: str) -> bool:
    return name in ADENYLATIONS or name in CONDENSATIONS


def has_role(name: str) -> bool:
    """ takes one of the layout's slots: starter, loader, modification, carrier protein, finalisation """
    return CLASS_OF[name] in ("A", "AT", "C", "S", "KS", "+", "CP", "E")


def subtype_chain(dom: dict) -> list:
    """ names of nested internal hits while there is exactly one per level """
    names = []
    hits = dom.get("in") or []
    while len(hits) == 1:
        names.append(hits[0]["id"])
        hits = hits[0].get("in") or []
    return names


# --------------------------------------------------------------------------- reference state machine of the layout

class Ref:
    """ [starter] loader [modification...] carrier_protein [finalisation], trans-AT: KR allowed after the carrier,
        a second carrier only directly before LPG_synthase_C, Beta_elim_lyase.  Components are dicts
        {"id": name, "subs": [...], "key": anything}.
    """
    def __init__(self) -> None:
        self.comps: list = []
        self.starter = None
        self.loader = None
        self.mods: list = []
        self.carrier = None
        self.end = None
        self.extra_carriers = 0
        self.docking = False
        self.accept = 0

    def is_pks(self) -> bool:
        return any(pks_specific(c["id"]) for c in self.comps)

    def is_nrps(self) -> bool:
        return bool(self.starter and nrps_specific(self.starter["id"])
                    or self.loader and nrps_specific(self.loader["id"]))

    def trans_at(self) -> bool:
        if not (self.is_pks() and self.starter and not self.loader):
            return False
        return self.starter["subs"][:1] == ["Trans-AT-KS"] or self.docking

    def complete(self, first_in_cds: bool) -> bool:
        if self.starter is not None and self.starter is self.loader and not first_in_cds:
            return False
        if self.starter and self.loader and self.carrier:
            return True
        return bool(self.trans_at() and self.carrier)

    def problem(self, comp: dict, lookahead: list):
        """ why comp cannot extend this module (None if it can); lookahead = names that follow """
        name = comp["id"]
        group = CLASS_OF[name]
        if group in ("ignore", "!"):
            return None
        if self.accept > 0:
            return None
        if self.end:
            return "after end"
        if pure_starter(name):
            return "starter after other components" if self.comps else None
        if loader_capable(name):
            if self.loader:
                return "duplicate loader"
            if self.starter:
                if pks_specific(self.starter["id"]) and nrps_specific(name):
                    return "NRPS loader on PKS starter"
                if nrps_specific(self.starter["id"]) and pks_specific(name):
                    return "PKS loader on NRPS starter"
            if self.carrier or self.mods:
                return "loader after modification/carrier"
            return None
        if group == "+":
            if self.carrier and not (self.trans_at() and name == "PKS_KR"):
                return "modification after carrier"
            return None
        if group == "CP":
            if self.carrier and tuple(lookahead[:2]) != DOUBLE_CASE:
                return "duplicate carrier"
            return None
        return None

    def add(self, comp: dict, lookahead: list) -> None:
        name = comp["id"]
        group = CLASS_OF[name]
        if group == "ignore":
            return
        if self.accept > 0:
            self.accept -= 1
        if starter_capable(name) and not self.starter:
            self.starter = comp
            if loader_capable(name):
                self.loader = comp
        elif loader_capable(name):
            self.loader = comp
        elif group == "+":
            self.mods.append(comp)
        elif group == "CP":
            if not self.carrier:
                self.carrier = comp
            else:
                self.extra_carriers += 1
                if tuple(lookahead[:2]) == DOUBLE_CASE:
                    self.accept = 2
        elif group == "E":
            self.end = comp
        elif name == "Trans-AT_docking":
            self.docking = True
        self.comps.append(comp)


def gene_components(gene: dict, index: int = 0) -> list:
    """ the gene's domains as reference components in protein order (stable by start) """
    comps = [{"id": dom["id"], "subs": subtype_chain(dom), "key": [index, i], "s": dom["s"]}
             for i, dom in enumerate(gene["doms"])]
    comps.sort(key=lambda c: c["s"])
    return comps


def model_partition(comps: list) -> list:
    """ greedy reference partition of one gene: list of Ref """
    modules = [Ref()]
    for i, comp in enumerate(comps):
        lookahead = [c["id"] for c in comps[i + 1:i + 3]]
        if pure_starter(comp["id"]) and modules[-1].comps:
            modules.append(Ref())
        if CLASS_OF[comp["id"]] == "ignore":
            continue
        if modules[-1].problem(comp, lookahead) is None:
            modules[-1].add(comp, lookahead)
        else:
            modules.append(Ref())
            modules[-1].add(comp, [])
    if not modules[-1].comps:
        modules.pop()
    return modules


def replay(comps: list) -> Ref:
    """ the state of a module holding exactly these components (no suitability checks) """
    ref = Ref()
    for i, comp in enumerate(comps):
        ref.add(comp, [c["id"] for c in comps[i + 1:]])
    return ref


def model_merge(head: list, tail: list, head_first: bool):
    """ reference for combine_modules on component lists: the merged Ref or None """
    head_ref = replay(head)
    tail_ref = replay(tail)
    if head_ref.complete(head_first):
        return None
    if tail_ref.complete(True) and tail[0]["id"] not in FUSED_STARTERS:
        return None
    if head_ref.is_pks() and tail_ref.is_nrps() or head_ref.is_nrps() and tail_ref.is_pks():
        return None
    merged = Ref()
    for i, comp in enumerate(head):
        merged.add(comp, [c["id"] for c in head[i + 1:]])
    for i, comp in enumerate(tail):
        lookahead = [c["id"] for c in tail[i + 1:]]
        if merged.problem(comp, lookahead) is not None:
            return None
        merged.add(comp, lookahead)
    if not merged.complete(False):
        return None
    return merged


def pair_roles(spec: dict):
    """ (index of the gene that is `previous`, index of the gene that is `current`) the way generate_domains
        calls combine_modules for two genes in coordinate order """
    if spec["strands"][1] == -1:
        return 1, 0
    return 0, 1


# --------------------------------------------------------------------------- layout rules of the statement

def layout_problems(comps: list) -> list:
    """ comps: list of {"id", "subs"} of one module, in module order; returns the broken rules """
    problems = []
    names = [c["id"] for c in comps]
    role_idx = [i for i, n in enumerate(names) if has_role(n)]
    starters = [i for i in role_idx if pure_starter(names[i])]
    loaders = [i for i in role_idx if loader_capable(names[i])]
    carriers = [i for i in role_idx if CLASS_OF[names[i]] == "CP"]
    ends = [i for i in role_idx if CLASS_OF[names[i]] == "E"]
    mods = [i for i in role_idx if CLASS_OF[names[i]] == "+"]
    if len(starters) > 1:
        problems.append("more than one starter")
    if len(loaders) > 1:
        problems.append("more than one loader")
    if len(ends) > 1:
        problems.append("more than one terminating domain")
    if starters and role_idx and starters[0] != role_idx[0]:
        problems.append("starter is not the first functional domain")
    if loaders:
        before = [i for i in role_idx if i < loaders[0] and not pure_starter(names[i])]
        if before:
            problems.append("loader after modification/carrier/end")
    if ends and any(i > ends[0] for i in role_idx):
        problems.append("functional domain after the terminating domain")
    # carrier proteins: one, or more only in the documented LPG_synthase_C/Beta_elim_lyase case
    double_members = set()
    for extra in carriers[1:]:
        if tuple(names[extra + 1:extra + 3]) == DOUBLE_CASE:
            double_members.update((extra + 1, extra + 2))
        else:
            problems.append("more than one carrier protein")
    # modifications before the carrier protein, except KR in a trans-AT module
    if carriers:
        starter = comps[starters[0]] if starters else None
        trans_at = bool(starter is not None and not loaders and any(pks_specific(n) for n in names)
                        and (starter["subs"][:1] == ["Trans-AT-KS"] or "Trans-AT_docking" in names))
        for i in mods:
            if i < carriers[0] or i in double_members:
                continue
            if not (trans_at and names[i] == "PKS_KR"):
                problems.append("modification after the carrier protein")
                break
    # no NRPS/PKS mix of starter and loader
    if starters and loaders:
        first, load = names[starters[0]], names[loaders[0]]
        if pks_specific(first) and nrps_specific(load) or nrps_specific(first) and pks_specific(load):
            problems.append("NRPS/PKS mix of starter and loader")
    return problems


# --------------------------------------------------------------------------- real objects

def _hmm(dom: dict, index: int, gene_index: int = 0):
    """ scores differ between the domains of a gene and between genes (as real hits do), so two hits of the same
        profile at the same protein coordinates in neighbouring genes are still different hits """
    from antismash.common.hmmscan_refinement import HMMResult

    root = HMMResult(dom["id"], dom["s"], dom["e"], 10.0 ** -(10 + gene_index), 50.0 + index + 17 * gene_index)

    def attach(parent, hits: list) -> None:
        """ bottom-up by default; a hit marked "td" is attached childless first (the way find_subtypes adds the KS
            subtype and only later the transATor hit below it), the root's names are read, then its children follow """
        for hit in hits:
            if hit.get("td"):
                child = HMMResult(hit["id"], dom["s"], dom["e"], 1e-20, 100.0)
                parent.add_internal_hits([child])
                _ = (root.detailed_names, str(root), child.detailed_names)
                attach(child, hit.get("in") or [])
                continue
            child = HMMResult(hit["id"], dom["s"], dom["e"], 1e-20, 100.0)
            attach(child, hit.get("in") or [])
            parent.add_internal_hits([child])
    attach(root, dom.get("in") or [])
    return root


def _motif(hit: dict):
    """ an ab-motif hit (a gene may have only these: results, but no domains and no modules) """
    from antismash.common.hmmscan_refinement import HMMResult
    return HMMResult(hit["id"], hit["s"], hit["e"], 1e-5, 20.0)


def _build_gene(gene: dict):
    """ -> (hmm results in spec order, modules) """
    from antismash.detection.nrps_pks_domains.module_identification import build_modules_for_cds
    domains = [_hmm(dom, i) for i, dom in enumerate(gene["doms"])]
    with code_under_test("build_total"):
        modules = build_modules_for_cds(list(domains), gene["name"])
    return domains, modules


def _describe(module) -> list:
    return [[comp.locus, comp.domain.hit_id] + list(comp.domain.detailed_names[1:]) for comp in module.components]


def _as_ref_comps(module, keys: dict) -> list:
    """ module components as reference components, read from the real objects' names / internal hits """
    comps = []
    for comp in module.components:
        names = []
        hits = comp.domain.internal_hits
        while len(hits) == 1:
            names.append(hits[0].hit_id)
            hits = hits[0].internal_hits
        comps.append({"id": comp.domain.hit_id, "subs": names, "key": keys.get(id(comp.domain))})
    return comps


def _flags(module) -> dict:
    return {
        "str": str(module), "complete": module.is_complete(), "trans_at": module.is_trans_at(),
        "iterative": module.is_iterative(), "starter_module": module.is_starter_module(),
        "termination_module": module.is_termination_module(), "terminated": module.is_terminated(),
        "pks": module.is_pks(), "nrps": module.is_nrps(), "coa_ligase": module.is_coa_ligase(),
        "start": module.start, "end": module.end,
        "monomers": [module.get_monomer(base) for base in MONOMER_BASES],
        "monomers_fallback": [module.get_monomer(base, fallback=True) for base in ("", "pk")],
        "labels": [[comp.locus, comp.label, comp.classification, comp.subtypes] for comp in module.components],
    }


def _check_reload(module, where: str) -> None:
    from antismash.detection.nrps_pks_domains.module_identification import Module
    saved = module.to_json()
    text = json.dumps(saved)
    parsed = json.loads(text)
    try:
        again = Module.from_json(parsed)
        second = Module.from_json(parsed)      # the saved form can be read any number of times
    except Exception as err:  # pylint: disable=broad-except
        raise Violation("reload_refused", {"where": where, "module": _describe(module),
                                           "exception": type(err).__name__, "message": str(err)[:300]}) from err
    if parsed != json.loads(text):
        raise Violation("reload_consumes_saved_form", {"where": where, "module": _describe(module)})
    if again.to_json() != saved or json.dumps(again.to_json()) != text:
        raise Violation("reload_json", {"where": where, "module": _describe(module)})
    if second.to_json() != saved or _flags(second) != _flags(again):
        raise Violation("reload_second_time_differs", {"where": where, "module": _describe(module),
                                                       "second": _describe(second)})
    before, after = _flags(module), _flags(again)
    if before != after:
        diff = {key: [before[key], after[key]] for key in before if before[key] != after[key]}
        raise Violation("reload_differs", {"where": where, "module": _describe(module), "differences": diff})
    if [c.domain for c in again.components] != [c.domain for c in module.components]:
        raise Violation("reload_differs", {"where": where, "module": _describe(module), "differences": "domains"})


def _check_module(module, comps: list, first_in_cds: bool, where: str, reload: bool = True) -> dict:
    """ layout rules + completeness + reload of one real module whose reference components are comps """
    if not comps:
        raise Violation("empty_module", {"where": where})
    if any(CLASS_OF[c["id"]] == "ignore" for c in comps):
        raise Violation("docking_domain_in_module", {"where": where, "module": _describe(module)})
    problems = layout_problems(comps)
    if problems:
        raise Violation("layout", {"where": where, "module": _describe(module), "broken": problems})
    ref = replay(comps)
    # the subtype names of a component are those of the domain's internal hits as they are now
    for comp, model in zip(module.components, comps):
        with code_under_test("flags_total"):
            got = [list(comp.subtypes), comp.subtype, list(comp.domain.detailed_names)]
        want = [model["subs"], model["subs"][0] if model["subs"] else None, [model["id"]] + model["subs"]]
        if got != want:
            raise Violation("subtype_names", {"where": where, "module": _describe(module), "got": got, "want": want})
    with code_under_test("flags_total"):
        complete = module.is_complete()
        trans_at = module.is_trans_at()
    licensed = bool(ref.starter and ref.loader and ref.carrier) or bool(ref.trans_at() and ref.carrier)
    if complete and not licensed:
        raise Violation("complete_without_parts", {"where": where, "module": _describe(module)})
    if complete != ref.complete(first_in_cds):
        raise Violation("complete_mismatch", {"where": where, "module": _describe(module), "reported": complete,
                                              "expected": ref.complete(first_in_cds), "first_in_cds": first_in_cds})
    if trans_at != ref.trans_at():
        raise Violation("trans_at_mismatch", {"where": where, "module": _describe(module), "reported": trans_at})
    if reload:
        _check_reload(module, where)
    return {"complete": complete, "trans_at": trans_at, "double": ref.extra_carriers > 0, "ref": ref}


def _check_gene_modules(gene: dict, index: int, domains: list, modules: list, reload: bool = True) -> dict:
    """ partition / order / layout / needless splits / reload for the modules of one gene """
    name = gene["name"]
    keys = {id(dom): [index, i] for i, dom in enumerate(domains)}
    expected = gene_components(gene, index)
    kept = [c for c in expected if CLASS_OF[c["id"]] != "ignore"]
    got = []
    for module in modules:
        for comp in module.components:
            if comp.locus != name:
                raise Violation("partition_locus", {"gene": name, "component": [comp.locus, comp.label]})
            got.append(keys.get(id(comp.domain)))
    want = [c["key"] for c in kept]
    if got != want:
        raise Violation("partition", {"gene": name, "got": got, "want": want,
                                      "modules": [_describe(m) for m in modules]})
    summary = {"modules": len(modules), "complete": 0, "trans_at": 0, "double": 0, "needless": None}
    per_module = []
    for k, module in enumerate(modules):
        comps = _as_ref_comps(module, keys)
        info = _check_module(module, comps, k == 0, f"{name}[{k}]", reload)
        with code_under_test("flags_total"):
            saved_first = module.to_json()["first_in_cds"]
        if saved_first != (k == 0):
            raise Violation("first_in_cds", {"gene": name, "module": k, "saved": saved_first})
        summary["complete"] += info["complete"]
        summary["trans_at"] += info["trans_at"]
        summary["double"] += info["double"]
        per_module.append(comps)
    # boundaries: a new module only at an explicit starter or where the next domain cannot extend the module
    model = model_partition(expected)
    code_sizes = [len(comps) for comps in per_module]
    model_sizes = [len(ref.comps) for ref in model]
    code_bounds = list(itertools.accumulate(code_sizes))[:-1]
    model_bounds = list(itertools.accumulate(model_sizes))[:-1]
    for code_b, model_b in itertools.zip_longest(code_bounds, model_bounds):
        if code_b == model_b:
            continue
        if code_b is not None and (model_b is None or code_b < model_b):
            raise Violation("needless_split", {"gene": name, "before_component": code_b,
                                               "modules": [_describe(m) for m in modules],
                                               "reference_sizes": model_sizes})
        break   # the code kept going where the reference would split: judged by the layout rules above only
    return summary


# --------------------------------------------------------------------------- single gene

def check_gene(spec: dict) -> dict:
    gene = spec["gene"]
    domains, modules = _build_gene(gene)
    summary = _check_gene_modules(gene, 0, domains, modules)
    # the same domains handed over in another order give the same modules when no two starts are equal
    starts = [dom["s"] for dom in gene["doms"]]
    tie = len(set(starts)) != len(starts)
    shuffled = starts != sorted(starts)
    if not tie and len(starts) > 1:
        from antismash.detection.nrps_pks_domains.module_identification import build_modules_for_cds
        with code_under_test("build_total"):
            other = build_modules_for_cds(list(reversed(domains)), gene["name"])
        if [[id(c.domain) for c in m.components] for m in other] != \
                [[id(c.domain) for c in m.components] for m in modules]:
            raise Violation("input_order", {"modules": [_describe(m) for m in modules],
                                            "reversed_input": [_describe(m) for m in other]})
    count = len(gene["doms"])
    classes = [f"modules_{min(summary['modules'], 4)}", "len_0" if count == 0 else f"len_{min((count + 3) // 4, 4)}q"]
    if summary["complete"]:
        classes.append("has_complete")
    if summary["trans_at"]:
        classes.append("has_trans_at")
    if summary["double"]:
        classes.append("double_carrier")
    if tie:
        classes.append("equal_starts")
    if shuffled:
        classes.append("shuffled_input")
    if any(len(dom.get("in") or []) > 1 for dom in gene["doms"]):
        classes.append("ambiguous_subtype")
    if spec.get("kind"):
        classes.append(f"kind_{spec['kind']}")
    return {"nontrivial": summary["modules"] >= 2 or summary["double"] > 0, "classes": classes}


# --------------------------------------------------------------------------- gene pairs

@functools.lru_cache(maxsize=64)
def _pair_cds(index: int, strand: int, name: str):
    """ a real CDS feature for CDSModuleInfo (never modified by the code under test, so shared between cases) """
    from vlib.build import make_cds
    start = 100 + 5000 * index
    return make_cds({"parts": [[start, start + 3000]], "strand": strand}, name)


def _snapshot(modules: list) -> list:
    return [(module, [id(comp.domain) for comp in module.components]) for module in modules]


def check_pair(spec: dict) -> dict:
    from antismash.detection.nrps_pks_domains.module_identification import CDSModuleInfo, combine_modules

    genes = spec["genes"]
    strands = spec["strands"]
    built = [_build_gene(gene) for gene in genes]
    keys = {}
    for index, (domains, _) in enumerate(built):
        keys.update({id(dom): [index, i] for i, dom in enumerate(domains)})
    # (the saved form of single-gene modules is the business of the gene subchecks; here only of merged modules)
    summaries = [_check_gene_modules(gene, index, *built[index], reload=False) for index, gene in enumerate(genes)]
    infos = []
    for index, gene in enumerate(genes):
        infos.append(CDSModuleInfo(_pair_cds(index, strands[index], gene["name"]), built[index][1]))
    prev_idx, cur_idx = pair_roles(spec)
    previous, current = infos[prev_idx], infos[cur_idx]
    before_prev, before_cur = _snapshot(previous.modules), _snapshot(current.modules)
    all_before = [key for _, comps in before_prev + before_cur for key in comps]
    head_complete = previous.modules[-1].is_complete() if previous.modules else None
    tail_complete = current.modules[0].is_complete() if current.modules else None
    tail_first = current.modules[0].components[0].domain.hit_id if current.modules else None

    with code_under_test("combine_total"):
        result = combine_modules(current, previous)

    after_prev, after_cur = _snapshot(previous.modules), _snapshot(current.modules)
    all_after = [key for _, comps in after_prev + after_cur for key in comps]
    readable = {"previous": [_describe(m) for m, _ in before_prev], "current": [_describe(m) for m, _ in before_cur],
                "strands": strands}
    if all_after != all_before:
        raise Violation("merge_order", dict(readable, after_previous=[_describe(m) for m in previous.modules],
                                            after_current=[_describe(m) for m in current.modules]))
    for module, comps in before_prev + before_cur:
        if [id(comp.domain) for comp in module.components] != comps:
            raise Violation("merge_changed_input_module", dict(readable, module=_describe(module)))

    same_strand = strands[0] == strands[1]
    attempt = bool(same_strand and before_prev and before_cur and head_complete is False)
    classes = ["strands_" + "".join("+" if s == 1 else "-" for s in strands)]
    expected = None
    if same_strand and before_prev and before_cur:
        head_comps = _as_ref_comps(before_prev[-1][0], keys)
        tail_comps = _as_ref_comps(before_cur[0][0], keys)
        expected = model_merge(head_comps, tail_comps, len(before_prev) == 1)

    if result is None:
        if [m for m, _ in after_prev] != [m for m, _ in before_prev] or \
                [m for m, _ in after_cur] != [m for m, _ in before_cur]:
            raise Violation("merge_none_but_changed", readable)
        if expected is not None:
            raise Violation("merge_expected", dict(readable, expected=[c["id"] for c in expected.comps]))
        classes.append("attempt_no_merge" if attempt else "no_attempt")
        if attempt and tail_complete:
            classes.append("complete_tail_fused_starter_not_merged" if tail_first in FUSED_STARTERS
                           else "complete_tail_other_opening_refused")
    else:
        if not same_strand:
            raise Violation("merge_across_strands", readable)
        if not before_prev or not before_cur:
            raise Violation("merge_without_modules", readable)
        if head_complete:
            raise Violation("merge_of_complete_head", readable)
        if tail_complete and tail_first not in FUSED_STARTERS:
            raise Violation("merge_of_complete_tail", dict(readable, merged=_describe(result)))
        if tail_complete:
            classes.append("merged_complete_tail_with_fused_starter")
        if [m for m, _ in after_prev] != [m for m, _ in before_prev[:-1]] + [result]:
            raise Violation("merge_previous_list", readable)
        absorbed = len(before_cur) - len(after_cur)
        if absorbed not in (1, 2) or [m for m, _ in after_cur] != [m for m, _ in before_cur[absorbed:]]:
            raise Violation("merge_current_list", readable)
        want = before_prev[-1][1] + [key for _, comps in before_cur[:absorbed] for key in comps]
        if [id(comp.domain) for comp in result.components] != want:
            raise Violation("merge_components", dict(readable, merged=_describe(result)))
        loci = [comp.locus for comp in result.components]
        want_loci = [genes[prev_idx]["name"]] * len(before_prev[-1][1]) + \
                    [genes[cur_idx]["name"]] * (len(want) - len(before_prev[-1][1]))
        if loci != want_loci:
            raise Violation("merge_components", dict(readable, merged=_describe(result), loci=loci))
        with code_under_test("flags_total"):
            complete = result.is_complete()
        if not complete:
            raise Violation("merge_incomplete", dict(readable, merged=_describe(result)))
        info = _check_module(result, _as_ref_comps(result, keys), False, "merged")
        if absorbed == 2:
            extra = before_cur[1][0]
            if [c.domain.hit_id for c in extra.components] != ["PKS_KR"] or not info["trans_at"]:
                raise Violation("merge_absorbed_second_module", dict(readable, merged=_describe(result)))
            classes.append("merged_with_kr")
        else:
            classes.append("merged")
            # documented: a lone KR following a split trans-AT module belongs to it (if the layout still allows it)
            if len(before_cur) > 1 and info["trans_at"] and not info["ref"].end \
                    and [c.domain.hit_id for c in before_cur[1][0].components] == ["PKS_KR"]:
                raise Violation("merge_kr_expected", dict(readable, merged=_describe(result)))
        if info["double"]:
            classes.append("merged_double_carrier")
        classes.append("merged_trans_at" if info["trans_at"] else "merged_plain")
    if spec.get("kind"):
        classes.append(f"kind_{spec['kind']}")
    nontrivial = attempt or result is not None or any(s["double"] for s in summaries)
    return {"nontrivial": nontrivial, "classes": classes}


# --------------------------------------------------------------------------- through generate_domains

def _pipeline_layout(genes: list) -> tuple:
    """ gene coordinates: every gene long enough for its domains """
    pos = 30
    layout = []
    for gene in genes:
        protein = max([dom["e"] for dom in gene["doms"]] + [hit["e"] for hit in gene.get("motifs") or []] + [10]) + 5
        layout.append((pos, pos + 3 * protein, protein))
        pos += 3 * protein + 60
    return layout, pos + 30


def _pipeline_record(spec: dict):
    from antismash.common.secmet.features import Region, SubRegion
    from antismash.common.secmet.locations import FeatureLocation
    from vlib.build import make_cds, make_record
    layout, length = _pipeline_layout(spec["genes"])
    record = make_record(length, False)
    for gene, strand, (start, end, protein) in zip(spec["genes"], spec["strands"], layout):
        record.add_cds_feature(make_cds({"parts": [[start, end]], "strand": strand}, gene["name"],
                                        translation="M" + "A" * (protein - 1)))
    sub = SubRegion(FeatureLocation(0, length, 1), tool="verif")
    record.add_subregion(sub)
    record.add_region(Region(subregions=[sub]))
    return record


def check_pipeline(spec: dict) -> dict:
    from unittest import mock
    from antismash.detection.nrps_pks_domains import domain_identification as di

    genes = spec["genes"]
    record = _pipeline_record(spec)
    hits = {}
    keys = {}
    for index, gene in enumerate(genes):
        if gene["doms"]:
            hits[gene["name"]] = [_hmm(dom, i, index) for i, dom in enumerate(gene["doms"])]
            keys.update({id(dom): [index, i] for i, dom in enumerate(hits[gene["name"]])})
    motifs = {}
    for gene in genes:
        if gene.get("motifs"):
            motifs[gene["name"]] = [_motif(hit) for hit in gene["motifs"]]
    if not hits:
        return {"nontrivial": False, "classes": ["no_domains"]}
    with mock.patch.object(di, "find_domains", lambda fasta, rec: hits), \
            mock.patch.object(di, "find_subtypes", lambda *args, **kwargs: {}), \
            mock.patch.object(di, "find_ab_motifs", lambda fasta: motifs), \
            mock.patch.object(di, "get_database_path", lambda *args: "unused"):
        with code_under_test("pipeline_total"):
            results = di.generate_domains(record)
    seen: dict = {}
    complete_tails: list = []
    multi = 0
    total = 0
    for cds, cds_result in results.cds_results.items():
        for number, module in enumerate(cds_result.modules):
            total += 1
            where = f"{cds.get_name()}[{number}]"
            comps = _as_ref_comps(module, keys)
            order = []
            for comp, ref in zip(module.components, comps):
                key = ref["key"]
                if key is None:
                    raise Violation("pipeline_invented_domain", {"where": where, "module": _describe(module)})
                if genes[key[0]]["name"] != comp.locus:
                    raise Violation("pipeline_locus", {"where": where, "module": _describe(module)})
                if tuple(key) in seen:
                    raise Violation("pipeline_duplicated_domain", {"where": where, "also_in": seen[tuple(key)],
                                                                   "module": _describe(module)})
                seen[tuple(key)] = where
                order.append(key)
            loci = [key[0] for key in order]
            distinct = [k for k, _ in itertools.groupby(loci)]
            if len(distinct) != len(set(distinct)):
                raise Violation("pipeline_interleaved_genes", {"where": where, "module": _describe(module)})
            for gene_index in set(loci):
                own = [key[1] for key in order if key[0] == gene_index]
                in_gene = [c["key"][1] for c in gene_components(genes[gene_index], gene_index)
                           if CLASS_OF[c["id"]] != "ignore"]
                first = in_gene.index(own[0])
                if in_gene[first:first + len(own)] != own:
                    raise Violation("pipeline_order", {"where": where, "module": _describe(module)})
            if len(distinct) > 1:
                multi += 1
                if len({spec["strands"][i] for i in distinct}) != 1:
                    raise Violation("merge_across_strands", {"where": where, "module": _describe(module)})
                if any(abs(a - b) != 1 for a, b in zip(distinct, distinct[1:])):
                    raise Violation("pipeline_merge_not_adjacent", {"where": where, "module": _describe(module)})
                upstream_first = distinct == sorted(distinct)
                if upstream_first != (spec["strands"][distinct[0]] == 1):
                    raise Violation("merge_order", {"where": where, "module": _describe(module)})
                with code_under_test("flags_total"):
                    if not module.is_complete():
                        raise Violation("merge_incomplete", {"where": where, "module": _describe(module)})
                # the leading module of the downstream gene was incomplete, or complete only as a loader-only
                # first module opening with a fused starter
                leading = model_partition(gene_components(genes[distinct[-1]], distinct[-1]))[0]
                if leading.complete(True):
                    if leading.comps[0]["id"] not in FUSED_STARTERS:
                        raise Violation("merge_of_complete_tail", {"where": where, "module": _describe(module)})
                    complete_tails.append(where)
            problems = layout_problems(comps)
            if problems:
                raise Violation("layout", {"where": where, "module": _describe(module), "broken": problems})
            ref = replay(comps)
            with code_under_test("flags_total"):
                complete = module.is_complete()
            if complete and not (bool(ref.starter and ref.loader and ref.carrier)
                                 or bool(ref.trans_at() and ref.carrier)):
                raise Violation("complete_without_parts", {"where": where, "module": _describe(module)})
            _check_reload(module, where)
    # the saved form of the whole result, reloaded into an identical fresh record
    with code_under_test("pipeline_total"):
        saved = json.loads(json.dumps(results.to_json()))
    fresh = _pipeline_record(spec)
    try:
        again = di.NRPSPKSDomains.from_json(json.loads(json.dumps(saved)), fresh)
        resaved = json.loads(json.dumps(again.to_json()))
    except Exception as err:  # pylint: disable=broad-except
        raise Violation("reload_refused", {"where": "NRPSPKSDomains", "exception": type(err).__name__,
                                           "message": str(err)[:300]}) from err
    if again is None:
        raise Violation("reload_refused", {"where": "NRPSPKSDomains", "message": "from_json returned None"})
    if resaved != saved:
        differing = sorted(name for name in saved["cds_results"]
                           if resaved.get("cds_results", {}).get(name) != saved["cds_results"][name])
        raise Violation("reload_json", {"where": "NRPSPKSDomains", "genes": differing})
    # component by component: same gene, same hit (profile, coordinates, scores, subtypes)
    reloaded = {cds.get_name(): cds_result for cds, cds_result in again.cds_results.items()}
    for cds, cds_result in results.cds_results.items():
        other = reloaded.get(cds.get_name())
        if other is None or len(other.modules) != len(cds_result.modules) \
                or other.domain_hmms != cds_result.domain_hmms or other.motif_hmms != cds_result.motif_hmms:
            raise Violation("reload_differs", {"where": "NRPSPKSDomains", "gene": cds.get_name()})
        for module, twin in zip(cds_result.modules, other.modules):
            if [(c.locus, c.domain) for c in module.components] != [(c.locus, c.domain) for c in twin.components] \
                    or _flags(module) != _flags(twin):
                raise Violation("reload_differs", {"where": "NRPSPKSDomains", "gene": cds.get_name(),
                                                   "module": _describe(module), "reloaded": _describe(twin)})
    # module features in the record: one per module, same flags
    with code_under_test("pipeline_total"):
        results.add_to_record(record)
        features = list(record.get_modules())
    if len(features) != total:
        raise Violation("pipeline_feature_count", {"modules": total, "features": len(features)})
    by_domains = {}
    for feature in features:
        by_domains[tuple(dom.domain_id for dom in feature.domains)] = feature
    for cds, cds_result in results.cds_results.items():
        for module in cds_result.modules:
            ids = []
            for comp in module.components:
                owner = results.cds_results[record.get_cds_by_name(comp.locus)]
                ids.append(owner.domain_features[comp.domain].domain_id)
            feature = by_domains.get(tuple(ids))
            if feature is None:
                raise Violation("pipeline_feature_missing", {"module": _describe(module)})
            if (feature.is_complete(), feature.is_starter_module(), feature.is_final_module(),
                    feature.is_iterative()) != (module.is_complete(), module.is_starter_module(),
                                                module.is_termination_module(), module.is_iterative()):
                raise Violation("pipeline_feature_flags", {"module": _describe(module)})
    # read-only accessors of the module features leave them as they are (domains in gene order, parents, saved form)
    def feature_state(feature) -> list:
        bio = feature.to_biopython()
        return [[dom.domain_id for dom in feature.domains], list(feature.parent_cds_names), str(feature.location),
                [[sorted((key, list(val) if val is not None else None) for key, val in part.qualifiers.items()),
                  str(part.location)] for part in bio]]
    for feature in features:
        before = feature_state(feature)
        with code_under_test("feature_accessor_total"):
            for parent in feature.parent_cds_names:
                inside = feature.get_parent_protein_location(parent)
                own = [dom.protein_location for dom in feature.domains if dom.locus_tag == parent]
                if int(inside.start) != min(int(loc.start) for loc in own) \
                        or not int(inside.start) < int(inside.end) <= max(int(loc.end) for loc in own):
                    raise Violation("feature_parent_location", {"domains": before[0], "parent": parent,
                                                                "got": str(inside)})
            if not feature.is_multigene_module():
                _ = feature.protein_location
            _ = (feature.is_complete(), feature.is_starter_module(), feature.is_final_module(),
                 feature.is_iterative(), feature.module_type, feature.monomers,
                 feature.get_substrate_monomer_pairs(), str(feature), repr(feature))
            _ = feature.to_biopython()
        after = feature_state(feature)
        if after != before:
            raise Violation("feature_accessor_mutates", {"before": before[:3], "after": after[:3]})
    # the reloaded results give the same module features in the fresh record
    try:
        again.add_to_record(fresh)
        fresh_features = list(fresh.get_modules())
    except Exception as err:  # pylint: disable=broad-except
        raise Violation("reload_refused", {"where": "add_to_record of the reloaded NRPSPKSDomains",
                                           "exception": type(err).__name__, "message": str(err)[:300]}) from err

    def feature_summary(feature) -> list:
        return [[dom.domain_id for dom in feature.domains], str(feature.location), str(feature.module_type),
                feature.is_complete(), feature.is_starter_module(), feature.is_final_module(),
                feature.is_iterative(), list(feature.parent_cds_names)]
    if [feature_summary(f) for f in fresh_features] != [feature_summary(f) for f in features]:
        raise Violation("reload_differs", {"where": "module features of the reloaded NRPSPKSDomains",
                                           "original": [feature_summary(f) for f in features],
                                           "reloaded": [feature_summary(f) for f in fresh_features]})
    # the module features survive their own saved (Biopython feature) form
    from antismash.common.secmet.features import Module as ModuleFeature
    for feature in features:
        names = [dom.domain_id for dom in feature.domains]
        try:
            bio = feature.to_biopython()
            again = ModuleFeature.from_biopython(bio[0], record=record)
            rebuilt = again.to_biopython()
        except Exception as err:  # pylint: disable=broad-except
            raise Violation("reload_refused", {"where": "module feature", "domains": names,
                                               "exception": type(err).__name__, "message": str(err)[:300]}) from err
        same = (len(bio) == len(rebuilt) == 1 and dict(rebuilt[0].qualifiers) == dict(bio[0].qualifiers)
                and str(rebuilt[0].location) == str(bio[0].location)
                and [dom.domain_id for dom in again.domains] == names
                and again.parent_cds_names == feature.parent_cds_names
                and again.module_type == feature.module_type
                and (again.is_complete(), again.is_starter_module(), again.is_final_module(), again.is_iterative())
                == (feature.is_complete(), feature.is_starter_module(), feature.is_final_module(),
                    feature.is_iterative()))
        if not same:
            raise Violation("reload_differs", {"where": "module feature", "domains": names,
                                               "qualifiers": {k: [v, rebuilt[0].qualifiers.get(k)]
                                                              for k, v in bio[0].qualifiers.items()
                                                              if rebuilt[0].qualifiers.get(k) != v}})
    # ... and the GenBank text form of the whole record: written, parsed, rebuilt
    import io
    from Bio import SeqIO
    from antismash.common.secmet import Record
    try:
        handle = io.StringIO()
        SeqIO.write([record.to_biopython()], handle, "genbank")
        parsed = list(SeqIO.parse(io.StringIO(handle.getvalue()), "genbank"))
        reread = Record.from_biopython(parsed[0], taxon="bacteria")
        reread_features = list(reread.get_modules())
    except Exception as err:  # pylint: disable=broad-except
        raise Violation("genbank_reload_refused", {"exception": type(err).__name__, "message": str(err)[:300]}) from err
    # (the order of the module features within the record is not judged: a reread record sorts them by location)
    original = sorted((feature_summary(f) for f in features), key=json.dumps)
    reread_summary = sorted((feature_summary(f) for f in reread_features), key=json.dumps)
    if reread_summary != original:
        raise Violation("genbank_reload_differs", {"original": original, "reread": reread_summary})
    classes = [f"genes_{len(genes)}", "multi_gene_module" if multi else "no_multi_gene_module",
               "strands_" + "".join("+" if s == 1 else "-" for s in spec["strands"])]
    for feature in features:
        classes.append("feature_complete" if feature.is_complete() else "feature_incomplete")
        for flag, label in ((feature.is_starter_module(), "starter"), (feature.is_final_module(), "final"),
                            (feature.is_iterative(), "iterative")):
            if flag:
                classes.append(f"feature_{label}")
        if feature.is_multigene_module():
            by_parent = {}
            for dom in feature.domains:
                by_parent.setdefault(dom.locus_tag, []).append(int(dom.protein_location.start))
            first, second = (by_parent[name] for name in feature.parent_cds_names[:2])
            if max(first) > min(second):
                classes.append("multi_gene_feature_head_domain_starts_after_tail_domain")
    if any(not gene["doms"] and not gene.get("motifs") for gene in genes):
        classes.append("gene_without_hits")
    if complete_tails:
        classes.append("merged_complete_tail_with_fused_starter")
    for index in range(1, len(genes)):
        # a complete loading module at the start of the downstream gene behind a gene with modules, same strand
        if spec["strands"][index - 1] == spec["strands"][index] and genes[index - 1]["doms"] and genes[index]["doms"]:
            down = index - 1 if spec["strands"][index] == -1 else index
            parts = model_partition(gene_components(genes[down], down))
            if parts and parts[0].complete(True) and parts[0].starter is parts[0].loader:
                classes.append("downstream_gene_opens_with_complete_loading_module")
                if parts[0].comps[0]["id"] not in FUSED_STARTERS:
                    classes.append("downstream_gene_opens_with_complete_non_fused_loading_module")
                break
    sites = [{(dom["id"], dom["s"], dom["e"]) for dom in gene["doms"]} for gene in genes]
    if any(one & two for one, two in zip(sites, sites[1:])):
        classes.append("neighbours_share_profile_and_coordinates")
    for cds_result in results.cds_results.values():
        for module in cds_result.modules:
            loci = {comp.locus for comp in module.components}
            if len(loci) > 1 and any(
                    (comp.domain.hit_id, comp.domain.query_start, comp.domain.query_end) in sites[index]
                    for comp in module.components for index, gene in enumerate(genes)
                    if gene["name"] in loci and gene["name"] != comp.locus):
                classes.append("multi_gene_module_component_coincides_with_other_gene")
                break
        else:
            continue
        break
    for index in range(1, len(genes) - 1):
        # a gene with results of its own but no modules, between two genes that have modules
        gene = genes[index]
        silent = (gene["doms"] or gene.get("motifs")) and all(CLASS_OF[d["id"]] == "ignore" for d in gene["doms"])
        if silent and genes[index - 1]["doms"] and genes[index + 1]["doms"]:
            classes.append("moduleless_gene_between")
            if not gene["doms"]:
                classes.append("motif_only_gene_between")
            if spec["strands"][index - 1] == spec["strands"][index] == spec["strands"][index + 1]:
                sign = spec["strands"][index]
                up, down = (index - 1, index + 1) if sign == 1 else (index + 1, index - 1)
                up_parts = model_partition(gene_components(genes[up], up))
                down_parts = model_partition(gene_components(genes[down], down))
                if up_parts and down_parts and model_merge(up_parts[-1].comps, down_parts[0].comps,
                                                           len(up_parts) == 1) is not None:
                    classes.append("mergeable_fragments_across_moduleless_gene")
    if spec.get("kind"):
        classes.append(f"kind_{spec['kind']}")
    return {"nontrivial": multi > 0 or total >= 2, "classes": classes}


# --------------------------------------------------------------------------- the docking filter in front of module building

# filter_nonterminal_docking_domains is what find_domains returns its hits through, i.e. what generate_domains hands to
# build_modules_for_cds. The statement's only exemption from "without loss" is "docking/COM domains aside": the four
# inter-protein docking / COM profiles (NON_MODULE above; the set named in the filter). The distance is the one in the
# filter's docstring and code ("first or last 50 amino acids": start < 50 or protein length - end < 50).
FILTER_TERMINAL = 50
FILTER_EXTRAS = NON_MODULE + SPECIAL
FILTER_TEMPLATES = ((), ("KS", "CP"), ("KS:T", "KR", "CP"), ("KS", "AT", "CP"), ("C", "A", "PCP"), ("A", "PCP", "TE"),
                    ("KS", "DH", "CP", "KS", "CP"))
FILTER_OFFSETS = (5, 49, 50, 70)      # start of the first hit
FILTER_TAILS = (5, 49, 50, 90)        # protein length - end of the last hit


def _filter_terminal(dom: dict, protein: int) -> bool:
    return protein - max(dom["s"], dom["e"]) < FILTER_TERMINAL or min(dom["s"], dom["e"]) < FILTER_TERMINAL


def _filter_record(genes: list):
    from vlib.build import make_cds, make_record
    pos = 30
    places = []
    for gene in genes:
        places.append((pos, pos + 3 * gene["protein"]))
        pos += 3 * gene["protein"] + 60
    record = make_record(pos + 30, False)
    for gene, (start, end) in zip(genes, places):
        record.add_cds_feature(make_cds({"parts": [[start, end]], "strand": gene.get("strand", 1)}, gene["name"],
                                        translation="M" + "A" * (gene["protein"] - 1)))
    return record


def check_filter(spec: dict) -> dict:
    """ genes: [{"name", "protein": length, "doms": [...], "strand"}]; the hits go through the docking filter and
        then, gene by gene, into build_modules_for_cds: only the four docking/COM profiles may disappear, and only
        away from both protein ends; everything else survives in order and the modules partition it """
    from antismash.detection.nrps_pks_domains import domain_identification as di
    from antismash.detection.nrps_pks_domains.module_identification import build_modules_for_cds

    genes = spec["genes"]
    record = _filter_record(genes)
    hits = {}
    for index, gene in enumerate(genes):
        if gene["doms"]:
            hits[gene["name"]] = [_hmm(dom, i, index) for i, dom in enumerate(gene["doms"])]
    if not hits:
        return {"nontrivial": False, "classes": ["no_domains"]}
    with code_under_test("filter_total"):
        result = di.filter_nonterminal_docking_domains(record, {name: list(found) for name, found in hits.items()})
    unknown = sorted(set(result) - set(hits))
    if unknown:
        raise Violation("filter_invented_gene", {"genes": unknown})
    classes = set()
    removed_total = 0
    summary = {"modules": 0}
    for index, gene in enumerate(genes):
        name = gene["name"]
        if name not in hits:
            continue
        given = hits[name]
        place = {id(hit): i for i, hit in enumerate(given)}
        got = list(result.get(name) or [])
        positions = []
        for hit in got:
            if id(hit) not in place:
                raise Violation("filter_invented_hit", {"gene": name, "hit": str(hit)})
            i = place[id(hit)]
            dom = gene["doms"][i]
            if (hit.hit_id, hit.query_start, hit.query_end) != (dom["id"], dom["s"], dom["e"]):
                raise Violation("filter_altered_hit", {"gene": name, "index": i, "hit": str(hit), "given": dom})
            positions.append(i)
        if any(a >= b for a, b in zip(positions, positions[1:])):
            raise Violation("filter_order", {"gene": name, "got": positions})
        survived = set(positions)
        for i, dom in enumerate(gene["doms"]):
            terminal = _filter_terminal(dom, gene["protein"])
            where = "terminal" if terminal else "nonterminal"
            special = dom["id"] in NON_MODULE or dom["id"] in SPECIAL
            if i in survived:
                if special:
                    classes.add(f"{dom['id']}_{where}_kept")
                continue
            removed_total += 1
            detail = {"gene": name, "protein_length": gene["protein"], "lost": [i, dom["id"], dom["s"], dom["e"]],
                      "given": [d["id"] for d in gene["doms"]], "kept": positions}
            if dom["id"] not in NON_MODULE:
                raise Violation("filter_lost_domain", detail)
            if terminal:
                raise Violation("filter_lost_terminal_docking", detail)
            classes.add(f"{dom['id']}_{where}_removed")
        # what the filter lets through is what module building gets: the modules still cover all of the gene's
        # domains that are not docking/COM domains, in order
        with code_under_test("build_total"):
            modules = build_modules_for_cds(list(got), name)
        part = _check_gene_modules(gene, index, given, modules, reload=False)
        summary["modules"] += part["modules"]
        if part["trans_at"]:
            classes.add("has_trans_at")
    if len(hits) > 1:
        classes.add("two_genes")
    if spec.get("kind"):
        classes.add(f"kind_{spec['kind']}")
    nontrivial = removed_total > 0 or any(label.endswith("_nonterminal_kept") for label in classes)
    return {"nontrivial": nontrivial, "classes": sorted(classes)}


SUBCHECKS = {
    "gene": check_gene,
    "gene_enum": check_gene,
    "pair": check_pair,
    "pair_enum": check_pair,
    "pipeline": check_pipeline,
    "pipeline_enum": check_pipeline,
    "filter": check_filter,
    "filter_enum": check_filter,
}


# --------------------------------------------------------------------------- known findings

def _sig_kr_after_terminated_trans_at(sub: str, spec: dict, clause: str, detail) -> bool:
    """ input: adjacent same-strand genes whose trailing/leading fragments merge into a complete trans-AT module
        that already holds a terminating domain, and the downstream gene's next module is a lone PKS_KR;
        failure: IncompatibleComponentError 'adding extra component after end' escaping combine_modules """
    if clause not in ("combine_total", "pipeline_total") or not isinstance(detail, dict):
        return False
    if detail.get("exception") != "IncompatibleComponentError":
        return False
    if "adding extra component after end" not in detail.get("message", ""):
        return False
    if "combine_modules" not in detail.get("where", "") and "add_component" not in detail.get("where", ""):
        return False
    genes = spec["genes"]
    strands = spec["strands"]
    parts = [model_partition(gene_components(gene, i)) for i, gene in enumerate(genes)]
    # walk the genes like generate_domains does; the first merge that fits the class decides
    prev = None
    for index, gene in enumerate(genes):
        if not gene["doms"]:
            prev = None
            continue
        if prev is not None and parts[prev] and parts[index] and strands[prev] == strands[index]:
            up, down = (index, prev) if strands[index] == -1 else (prev, index)
            merged = model_merge(parts[up][-1].comps, parts[down][0].comps, len(parts[up]) == 1)
            if merged is not None:
                rest = parts[down][1:]
                if merged.trans_at() and merged.end and rest and [c["id"] for c in rest[0].comps] == ["PKS_KR"]:
                    return True
                if sub.startswith("pipeline"):
                    parts[up][-1] = merged
                    parts[down].pop(0)
                    if merged.trans_at() and rest and [c["id"] for c in rest[0].comps] == ["PKS_KR"]:
                        parts[down].pop(0)
        prev = index
    return False


SIGNATURES = {"kr_after_terminated_trans_at": _sig_kr_after_terminated_trans_at}


# --------------------------------------------------------------------------- tokens, templates, enumerations

TOKENS = {
    "A": "AMP-binding", "AT": "PKS_AT", "C": "Condensation_LCL", "Cs": "Condensation_Starter", "SAT": "SAT",
    "CAL": "CAL_domain", "TE": "Thioesterase", "TD": "TD", "E": "Epimerization", "KS": "PKS_KS", "KR": "PKS_KR",
    "DH": "PKS_DH", "ER": "PKS_ER", "MT": "nMT", "cMT": "cMT", "oMT": "oMT", "LPG": "LPG_synthase_C",
    "BEL": "Beta_elim_lyase", "CP": "ACP", "PCP": "PCP", "PP": "PKS_PP", "ATd": "Trans-AT_docking",
    "TIGR": "TIGR01720", "X": "X", "IF": "Interface", "COM": "NRPS-COM_Nterm", "DOCK": "PKS_Docking_Cterm",
    "Cy": "Heterocyclization", "AOX": "A-OX",
}


def token_domain(token: str, start: int, size: int = 80) -> dict:
    """ 'KS:T' = PKS_KS with Trans-AT-KS subtype, 'KS:I' iterative, 'KS:M' modular """
    if ":" in token:
        base, sub = token.split(":")
        if sub in ("Tc", "Tct"):
            # trans-AT subtype with a transATor clade below it; "t": attached top-down with a read in between
            hit = {"id": "Trans-AT-KS", "in": [{"id": "Clade_12"}]}
            if sub == "Tct":
                hit["td"] = True
            return {"id": TOKENS[base], "s": start, "e": start + size, "in": [hit]}
        subtype = {"T": "Trans-AT-KS", "I": "Iterative-KS", "M": "Modular-KS"}[sub]
        return {"id": TOKENS[base], "s": start, "e": start + size, "in": [{"id": subtype}]}
    return {"id": TOKENS[token], "s": start, "e": start + size}


def tokens_gene(tokens, name: str) -> dict:
    return {"name": name, "doms": [token_domain(tok, 10 + 100 * i) for i, tok in enumerate(tokens)]}


GENE_SYMBOLS = ("A", "AT", "C", "SAT", "CAL", "TE", "E", "KS", "KS:T", "KS:I", "KR", "MT", "LPG", "BEL", "CP", "PP",
                "ATd", "X", "COM", "PCP")
PAIR_SYMBOLS = ("A", "AT", "C", "CAL", "TE", "KS", "KS:T", "KR", "MT", "CP", "PP", "ATd", "X")


def strings(symbols, max_len: int, min_len: int = 0):
    for size in range(min_len, max_len + 1):
        yield from itertools.product(symbols, repeat=size)


def enum_genes(max_len: int):
    def cases():
        after_len = 2 if max_len >= 4 else 1
        for tokens in strings(GENE_SYMBOLS, max_len):
            yield {"gene": tokens_gene(tokens, "g0")}
        # the documented double-carrier case with every symbol before, between and after
        core = ("CP", "CP", "LPG", "BEL")
        for before in strings(GENE_SYMBOLS, 1):
            for after in strings(GENE_SYMBOLS, after_len):
                yield {"gene": tokens_gene(before + core + after, "g0"), "kind": "double"}
            for pos in range(1, 4):
                for extra in GENE_SYMBOLS:
                    yield {"gene": tokens_gene(before + core[:pos] + (extra,) + core[pos:], "g0"), "kind": "double"}
        # trans-AT KS with a transATor hit below the subtype hit, built bottom-up and top-down (names read between)
        for template in nested_templates():
            yield {"gene": tokens_gene(template, "g0"), "kind": "nested"}
    return cases


def nested_templates():
    for template in FULL_TEMPLATES:
        if "KS:T" in template:
            for token in ("KS:Tc", "KS:Tct"):
                yield tuple(token if tok == "KS:T" else tok for tok in template)


def _pair_shapes(thorough: bool):
    """ (max upstream length, max downstream length) blocks; the union is enumerated without repeats """
    return [(2, 3), (3, 1)] if thorough else [(1, 3), (2, 1)]


def _in_shape(up, down, shape) -> bool:
    return len(up) <= shape[0] and len(down) <= shape[1]


def enum_pairs(thorough: bool):
    def cases():
        shapes = _pair_shapes(thorough)
        for number, (up_max, down_max) in enumerate(shapes):
            for up in strings(PAIR_SYMBOLS, up_max, 1):
                for down in strings(PAIR_SYMBOLS, down_max, 1):
                    if any(_in_shape(up, down, shape) for shape in shapes[:number]):
                        continue
                    yield {"genes": [tokens_gene(up, "g0"), tokens_gene(down, "g1")], "strands": [1, 1]}
                    if len(up) + len(down) <= (4 if thorough else 3):
                        yield {"genes": [tokens_gene(down, "g0"), tokens_gene(up, "g1")], "strands": [-1, -1]}
                    if len(up) + len(down) <= 2:
                        yield {"genes": [tokens_gene(up, "g0"), tokens_gene(down, "g1")], "strands": [1, -1]}
                        yield {"genes": [tokens_gene(up, "g0"), tokens_gene(down, "g1")], "strands": [-1, 1]}
        # a complete loading module of every loader kind at the start of the downstream gene, behind every kind of
        # trailing fragment
        for up, down in loading_pairs():
            yield {"genes": [tokens_gene(up, "g0"), tokens_gene(down, "g1")], "strands": [1, 1], "kind": "loading"}
            yield {"genes": [tokens_gene(down, "g0"), tokens_gene(up, "g1")], "strands": [-1, -1], "kind": "loading"}
        # cut templates: every full template split at every point, followed by nothing / a lone KR / a new module
        done = set()
        for template in FULL_TEMPLATES:
            for cut in range(1, len(template)):
                for follow in ((), ("KR",), ("KR", "CP"), ("KS", "AT"), ("C",), ("X",)):
                    up, down = tuple(template[:cut]), tuple(template[cut:]) + follow
                    if (up, down) in done:
                        continue
                    done.add((up, down))
                    yield {"genes": [tokens_gene(up, "g0"), tokens_gene(down, "g1")], "strands": [1, 1],
                           "kind": "cut"}
                    yield {"genes": [tokens_gene(down, "g0"), tokens_gene(up, "g1")], "strands": [-1, -1],
                           "kind": "cut"}
    return cases


def loading_pairs():
    """ (upstream tokens, downstream tokens): downstream opens with loader + carrier (optionally behind a
        non-functional domain, optionally followed by more), upstream ends with each kind of fragment """
    ups = [(symbol,) for symbol in PAIR_SYMBOLS] + list(HEADS) + [("KS", "AT", "CP", "KS"), ("C", "A", "PCP", "C")]
    for up in ups:
        for loader in ("A", "AOX", "AT", "CAL"):
            for carrier in ("CP", "PCP", "PP"):
                for before, after in (((), ()), (("IF",), ()), (("X",), ()), ((), ("TE",)), ((), ("KS", "AT"))):
                    yield tuple(up), before + (loader, carrier) + after


def enum_pipeline(thorough: bool):
    def cases():
        limit = 4 if thorough else 3
        for template in nested_templates():
            for cut in range(1, len(template)):
                yield {"genes": [tokens_gene(template[:cut], "g0"), tokens_gene(template[cut:], "g1")],
                       "strands": [1, 1], "kind": "nested"}
        for up, down in loading_pairs():
            if down[0] in ("IF", "X") or len(down) > 3:
                continue
            yield {"genes": [tokens_gene(up, "g0"), tokens_gene(down, "g1")], "strands": [1, 1], "kind": "loading"}
            yield {"genes": [tokens_gene(down, "g0"), tokens_gene(up, "g1")], "strands": [-1, -1], "kind": "loading"}
        for up in strings(PAIR_SYMBOLS, limit - 1, 1):
            for down in strings(PAIR_SYMBOLS, limit - len(up), 1):
                yield {"genes": [tokens_gene(up, "g0"), tokens_gene(down, "g1")], "strands": [1, 1]}
                if len(up) + len(down) <= 3:
                    yield {"genes": [tokens_gene(down, "g0"), tokens_gene(up, "g1")], "strands": [-1, -1]}
        for template in FULL_TEMPLATES:
            for cut in range(1, len(template)):
                for follow in ((), ("KR",), ("KS", "AT")):
                    up, down = tuple(template[:cut]), tuple(template[cut:]) + follow
                    yield {"genes": [tokens_gene(up, "g0"), tokens_gene(down, "g1"), tokens_gene(("C", "A"), "g2")],
                           "strands": [1, 1, 1], "kind": "cut"}
                    yield {"genes": [tokens_gene(("PCP",), "g0"), tokens_gene(down, "g1"), tokens_gene(up, "g2")],
                           "strands": [-1, -1, -1], "kind": "cut"}
        fragments = [(tuple(t[:cut]), tuple(t[cut:])) for t in FULL_TEMPLATES for cut in range(1, len(t))]
        fragments += [(head, tail) for head in HEADS for tail in TAILS]
        # the upstream gene also holds, at the same protein coordinates, the same profiles the tail starts with
        # (tokens_gene puts the i-th domain of every gene at the same place): same profile + coordinates in
        # neighbouring genes, different hits
        done = set()
        for head, tail in fragments:
            for echo in range(1, min(2, len(tail)) + 1):
                up = tuple(tail[:echo]) + tuple(head)
                if (up, tail) in done:
                    continue
                done.add((up, tail))
                yield {"genes": [tokens_gene(up, "g0"), tokens_gene(tail, "g1")], "strands": [1, 1], "kind": "echo"}
                yield {"genes": [tokens_gene(tail, "g0"), tokens_gene(up, "g1")], "strands": [-1, -1],
                       "kind": "echo"}
        # a gene with results of its own but no modules (docking/COM domains only, ab-motifs only) between a
        # head gene and a tail gene: the outer genes are not adjacent
        fragments += [((a,), (b,)) for a in PAIR_SYMBOLS for b in PAIR_SYMBOLS]
        done = set()
        for up, down in fragments:
            if (up, down) in done:
                continue
            done.add((up, down))
            for number, middle in enumerate(MIDDLES):
                if number >= 2 and len(up) + len(down) <= 2 or number >= 3 and not thorough:
                    continue
                yield {"genes": [tokens_gene(up, "g0"), middle_gene(middle, "g1"), tokens_gene(down, "g2")],
                       "strands": [1, 1, 1], "kind": "middle"}
                yield {"genes": [tokens_gene(down, "g0"), middle_gene(middle, "g1"), tokens_gene(up, "g2")],
                       "strands": [-1, -1, -1], "kind": "middle"}
    return cases


MOTIF_NAMES = ("NRPS-A_a3", "NRPS-C_c2", "PKSI-KS_m3", "PKSI-AT-M_m2", "NRPS-te1")
MIDDLES = ((("COM",), 0), ((), 1), (("DOCK",), 0), (("COM", "DOCK"), 2), (("DOCK",), 1))


def middle_gene(middle, name: str) -> dict:
    """ (docking/COM tokens, number of ab-motif hits) -> a gene that gets results but no modules """
    tokens, motif_count = middle
    gene = tokens_gene(tokens, name)
    if motif_count:
        gene["motifs"] = [{"id": MOTIF_NAMES[i], "s": 5 + 30 * i, "e": 25 + 30 * i} for i in range(motif_count)]
    return gene


FULL_TEMPLATES = (
    ("C", "A", "PCP"), ("C", "A", "MT", "PCP", "E"), ("C", "A", "PCP", "TE"), ("Cs", "A", "PCP"), ("Cy", "A", "PCP"),
    ("A", "PCP"), ("KS", "AT", "CP"), ("KS", "AT", "DH", "ER", "KR", "CP"), ("KS", "AT", "KR", "PP", "TE"),
    ("KS:M", "AT", "DH", "KR", "CP"), ("KS:I", "AT", "CP"), ("AT", "CP"), ("SAT", "AT", "CP"), ("CAL", "CP"),
    ("CAL", "KR", "CP"), ("KS:T", "CP"), ("KS:T", "DH", "KR", "CP"), ("KS:T", "CP", "KR"), ("KS:T", "KR", "CP", "TE"),
    ("KS:T", "CP", "TE", "KR"), ("KS:T", "CP", "E", "KR"), ("KS", "ATd", "CP", "KR"), ("KS:T", "ATd", "cMT", "CP"),
    ("KS:T", "CP", "CP", "LPG", "BEL"), ("KS", "AT", "CP", "CP", "LPG", "BEL"), ("KS:T", "CP", "KR", "TE"),
    ("C", "A", "CP", "CP", "LPG", "BEL"), ("C", "AOX", "PCP"), ("KS:T", "oMT", "CP", "TD"),
)
HEADS = (("KS",), ("KS:T",), ("C", "A"), ("KS", "AT"), ("KS", "DH"), ("KS:T", "DH"), ("CAL",), ("C",), ("A",),
         ("KS", "ATd"), ("SAT",), ("KS:T", "CP"), ("C", "A", "MT"), ("KS", "AT", "KR"), ("IF", "A"), ("X", "A"))
TAILS = (("CP",), ("CP", "TE"), ("CP", "TE", "KR"), ("CP", "E", "KR"), ("A", "CP"), ("CP", "KR"), ("AT", "CP"),
         ("CP", "CP", "LPG", "BEL"), ("KR", "CP"), ("DH", "KR", "CP", "TE"), ("PCP", "E"), ("PP",), ("A", "PCP", "TE"),
         ("ATd", "CP", "KR"), ("MT", "PCP"), ("CP", "KR", "KR"), ("CP", "KR", "TE"), ("AT", "KR", "CP"), ("IF", "A", "CP"),
         ("CAL", "CP"), ("CAL", "PCP"), ("CAL", "KR", "CP"), ("AOX", "PCP"), ("AT", "PP"), ("IF", "CAL", "CP"),
         ("X", "CAL", "PCP"), ("A", "PCP", "E"))


# --------------------------------------------------------------------------- random strategies
# (few, flat draws: Hypothesis costs far more per draw than the code under test per domain)

_FREQUENT = ("PKS_KS", "PKS_AT", "AMP-binding", "Condensation_LCL", "ACP", "PCP", "PKS_KR", "Thioesterase", "PKS_PP",
             "Trans-AT_docking", "LPG_synthase_C", "Beta_elim_lyase", "CAL_domain", "Epimerization")


def _weighted_names() -> tuple:
    """ a third uniform over all names, a third uniform over classes, a third the names the rules single out """
    total = 1
    for group in CLASSES.values():
        total = total * len(group) // _gcd(total, len(group))
    names = []
    for group in CLASSES.values():
        for name in group:
            names.extend([name] * (total // len(group)))          # every class weighs `total`
    per_class = total * len(CLASSES)
    uniform = [name for name in ALL_NAMES for _ in range(max(1, per_class // len(ALL_NAMES)))]
    frequent = [name for name in _FREQUENT for _ in range(max(1, per_class // len(_FREQUENT)))]
    return tuple(names + uniform + frequent)


def _gcd(a: int, b: int) -> int:
    while b:
        a, b = b, a % b
    return a


_NAMES = st.sampled_from(_weighted_names())
_INTERNALS = st.sampled_from(
    [[]] * 4
    + [[{"id": "Trans-AT-KS"}]] * 4
    + [[{"id": "Trans-AT-KS", "in": [{"id": sub}]}] for sub in ("bOH", "DB", "ST", "a-Me_OH")]
    + [[{"id": "Trans-AT-KS", "in": [{"id": sub}], "td": True}] for sub in ("bOH", "Clade_12", "ST")]
    + [[{"id": "Trans-AT-KS", "td": True}], [{"id": "Iterative-KS", "in": [{"id": "x"}, {"id": "y"}], "td": True}]]
    + [[{"id": sub}] for sub in KS_SUBTYPES] * 2
    + [[{"id": "Trans-AT-KS"}, {"id": "Modular-KS"}], [{"id": "Iterative-KS"}, {"id": "Hybrid-KS"}],
       [{"id": "Trans-AT-KS"}, {"id": "Trans-AT-KS"}], [{"id": "Enediyne-KS"}, {"id": "Trans-AT-KS"}]])
_PLAIN_KS = st.sampled_from(
    [[]] * 12 + [[{"id": sub}] for sub in KS_SUBTYPES]
    + [[{"id": "Trans-AT-KS"}, {"id": "Modular-KS"}], [{"id": "Iterative-KS"}, {"id": "Trans-AT-KS"}]])
_EXTRAS = st.sampled_from(NON_MODULE + SPECIAL)


def _named(draw, name: str) -> dict:
    dom = {"id": name}
    if name == "PKS_KS":
        internal = draw(_INTERNALS)
        if internal:
            dom["in"] = internal
    return dom


def _token(draw, token: str) -> dict:
    dom = token_domain(token, 0)
    del dom["s"], dom["e"]
    if token == "KS":
        internal = draw(_PLAIN_KS)
        if internal:
            dom["in"] = internal
    return dom


def _uniform_string(draw, max_len: int = 14) -> list:
    return [_named(draw, name) for name in draw(st.lists(_NAMES, min_size=0, max_size=max_len))]


def _mutated(draw, tokens) -> list:
    """ a token tuple as domains, with an occasional drop / insert / other name of the same class / other subtype """
    doms = []
    rolls = draw(st.lists(st.integers(0, 24), min_size=len(tokens), max_size=len(tokens)))
    for token, roll in zip(tokens, rolls):
        if roll == 22:
            continue
        if roll == 23:
            doms.append(_named(draw, draw(_NAMES)))
        dom = _token(draw, token)
        if roll == 24:
            dom = _named(draw, draw(st.sampled_from(CLASSES[CLASS_OF[dom["id"]]])))
        doms.append(dom)
    return doms


def _templated_string(draw, max_modules: int = 4) -> list:
    doms = []
    for _ in range(draw(st.integers(1, max_modules))):
        roll = draw(st.integers(0, 15))
        if roll <= 10:
            doms.extend(_mutated(draw, draw(st.sampled_from(FULL_TEMPLATES))))
        elif roll == 11:
            doms.extend(_mutated(draw, draw(st.sampled_from(HEADS))))
        elif roll == 12:
            doms.extend(_mutated(draw, draw(st.sampled_from(TAILS))))
        elif roll == 13:
            doms.extend(_uniform_string(draw, 3))
        else:
            doms.extend(_mutated(draw, draw(st.sampled_from(FULL_TEMPLATES))))
            doms.append({"id": draw(_EXTRAS)})
    return doms


def _positioned(draw, doms: list, name: str, allow_disorder: bool = True) -> dict:
    """ start positions by construction: increasing, in one gene in ten some equal; input order rarely shuffled """
    count = len(doms)
    mode = draw(st.integers(0, 19)) if allow_disorder and count > 1 else 19
    ties = mode in (7, 8)
    gaps = draw(st.lists(st.integers(0 if ties else 1, 3 if ties else 150), min_size=count, max_size=count))
    pos = 5
    out = []
    for dom, gap in zip(doms, gaps):
        pos += gap
        out.append(dict(dom, s=pos, e=pos + 20 + (gap * 37 + len(out) * 11) % 90))
    if mode in (12, 13):
        out = draw(st.permutations(out))
    return {"name": name, "doms": list(out)}


@st.composite
def gene_specs(draw):
    kind = draw(st.sampled_from(["uniform", "template", "template", "short"]))
    if kind == "uniform":
        doms = _uniform_string(draw)
    elif kind == "short":
        doms = _uniform_string(draw, 5)
    else:
        doms = _templated_string(draw)[:14]
    return {"gene": _positioned(draw, doms, "g0"), "kind": kind}


def _pair_strings(draw):
    """ (upstream domains, downstream domains, kind) in transcription order """
    kind = draw(st.sampled_from(["uniform", "cut", "cut", "head_tail", "head_tail", "templates"]))
    if kind == "uniform":
        return (_uniform_string(draw, 8) or [{"id": "PKS_KR"}]), (_uniform_string(draw, 8) or [{"id": "ACP"}]), kind
    if kind == "templates":
        return _templated_string(draw, 2), _templated_string(draw, 2), kind
    if kind == "cut":
        template = draw(st.sampled_from(FULL_TEMPLATES))
        cut = draw(st.integers(1, len(template) - 1))
        head, tail = template[:cut], template[cut:]
    else:
        head, tail = draw(st.sampled_from(HEADS)), draw(st.sampled_from(TAILS))
    up = _mutated(draw, head)
    down = _mutated(draw, tail)
    roll = draw(st.integers(0, 9))
    if roll <= 2:
        down.append(_token(draw, "KR"))
    if roll in (2, 3, 4):
        down.extend(_templated_string(draw, 1))
    elif roll == 5:
        down.extend(_uniform_string(draw, 3))
    before = draw(st.integers(0, 9))
    if before <= 2:
        up = _templated_string(draw, 2) + up
    elif before == 3:
        up = _uniform_string(draw, 3) + up
    elif before == 4:
        up = [{"id": draw(st.sampled_from(OTHER + SPECIAL + NON_MODULE))}] + up
    return up, down, kind


@st.composite
def pair_specs(draw):
    up, down, kind = _pair_strings(draw)
    strands = draw(st.sampled_from([[1, 1]] * 5 + [[-1, -1]] * 4 + [[1, -1], [-1, 1]]))
    # on the reverse strand the upstream gene is the one with the higher coordinates
    first, second = (down, up) if strands[1] == -1 else (up, down)
    return {"genes": [_positioned(draw, first, "g0"), _positioned(draw, second, "g1")], "strands": strands,
            "kind": kind}


@st.composite
def pipeline_specs(draw):
    count = draw(st.sampled_from([2, 2, 3, 3, 4]))
    strand = draw(st.sampled_from([1, 1, -1]))
    strands = [strand] * count
    if draw(st.integers(0, 5)) == 3:
        strands[draw(st.integers(0, count - 1))] = -strand
    up, down, kind = _pair_strings(draw)
    motifs = {}                 # position in the chain -> ab-motif hits of that gene
    chain = [up]                # in transcription order

    def middle():
        """ a gene with results but no modules: only docking/COM domains and/or only ab-motif hits """
        shape = draw(st.sampled_from([(1, 0), (1, 0), (0, 1), (0, 1), (2, 0), (1, 1), (0, 2)]))
        if shape[1]:
            motifs[len(chain)] = [{"id": draw(st.sampled_from(MOTIF_NAMES)), "s": 5 + 30 * i, "e": 25 + 30 * i}
                                  for i in range(shape[1])]
        chain.append([{"id": draw(st.sampled_from(NON_MODULE))} for _ in range(shape[0])])

    if count >= 3 and draw(st.integers(0, 3)) == 2:
        middle()
    chain.append(down)
    while len(chain) < count:
        roll = draw(st.integers(0, 11))
        if roll == 11:
            chain.append([])
        elif roll <= 3:
            chain.append(_templated_string(draw, 2))
        else:
            # continue the chain: the last gene gets a head appended, the new gene starts with a tail
            chain[-1] = chain[-1] + _mutated(draw, draw(st.sampled_from(HEADS)))
            if len(chain) + 2 <= count and roll in (4, 5, 6):
                middle()
            chain.append(_mutated(draw, draw(st.sampled_from(TAILS))) + _templated_string(draw, 1))
    if draw(st.integers(0, 15)) == 9:
        chain[draw(st.integers(0, count - 1))] = []
    genes = []
    for position, doms in enumerate(chain):
        index = count - 1 - position if strand == -1 else position
        gene = _positioned(draw, doms[:12], f"g{index}", allow_disorder=False)
        if motifs.get(position):
            gene["motifs"] = motifs[position]
        genes.append(gene)
    # in two chains of five one gene also carries, in front of its own domains, copies (same profile, same protein
    # coordinates) of the first domains of the gene downstream of it: equal sites in neighbouring genes
    if draw(st.integers(0, 4)) in (1, 3):
        position = min(draw(st.sampled_from([0, 0, 0, 1, 2])), count - 2)
        upstream, downstream = genes[position], genes[position + 1]
        if upstream["doms"] and downstream["doms"]:
            copies = [dict(dom) for dom in downstream["doms"][:draw(st.integers(1, 3))]]
            shift = copies[-1]["e"] + draw(st.integers(1, 40)) - upstream["doms"][0]["s"]
            shift = max(shift, copies[-1]["s"] + 1 - upstream["doms"][0]["s"])
            upstream["doms"] = copies + [dict(dom, s=dom["s"] + shift, e=dom["e"] + shift)
                                         for dom in upstream["doms"]]
            kind += "+echo"
    if strand == -1:
        genes.reverse()
    return {"genes": genes, "strands": strands, "kind": kind}


def _filter_gene(doms: list, offset: int, tail: int, name: str = "g0", pitch: int = 100, size: int = 80) -> dict:
    placed = [dict(dom, s=offset + pitch * i, e=offset + pitch * i + size) for i, dom in enumerate(doms)]
    return {"name": name, "doms": placed, "protein": (placed[-1]["e"] if placed else 10) + tail}


def enum_filter(thorough: bool):
    """ every template with one of the four docking/COM names, Trans-AT_docking or TIGR01720 at every position, and
        with every ordered pair of them side by side at every position (thorough: anywhere), the first hit starting
        below / at / above the terminal distance and the last one ending below / at / above it from the end """
    def cases():
        for template in FILTER_TEMPLATES:
            base = []
            for token in template:
                dom = token_domain(token, 0)
                del dom["s"], dom["e"]
                base.append(dom)
            count = len(base)
            for extra in FILTER_EXTRAS:
                for at in range(count + 1):
                    doms = base[:at] + [{"id": extra}] + base[at:]
                    for offset in FILTER_OFFSETS:
                        for tail in FILTER_TAILS:
                            yield {"genes": [_filter_gene(doms, offset, tail)], "kind": "one"}
            for first, second in itertools.product(FILTER_EXTRAS, repeat=2):
                for at in range(count + 1):
                    for at2 in (range(at, count + 1) if thorough else (at,)):
                        doms = base[:at] + [{"id": first}] + base[at:at2] + [{"id": second}] + base[at2:]
                        for offset in (FILTER_OFFSETS if thorough else (5, 70)):
                            for tail in (FILTER_TAILS if thorough else (5, 90)):
                                yield {"genes": [_filter_gene(doms, offset, tail)], "kind": "two"}
        # short docking-sized hits on a reverse-strand gene next to a gene whose only hit is filtered away
        for extra in FILTER_EXTRAS:
            for offset, tail in itertools.product(FILTER_OFFSETS, FILTER_TAILS):
                lone = _filter_gene([{"id": extra}], offset, tail, "g0", size=30)
                other = _filter_gene([{"id": "PKS_KS"}, {"id": extra}, {"id": "ACP"}, {"id": extra}], offset, tail, "g1",
                                     pitch=60, size=30)
                other["strand"] = -1
                yield {"genes": [lone, other], "kind": "lone"}
    return cases


@st.composite
def filter_specs(draw):
    genes = []
    for index in range(draw(st.sampled_from([1, 1, 2]))):
        kind = draw(st.sampled_from(["uniform", "template", "template"]))
        doms = _uniform_string(draw, 8) if kind == "uniform" else _templated_string(draw, 2)[:10]
        for _ in range(draw(st.integers(0, 3))):
            doms.insert(draw(st.integers(0, len(doms))), {"id": draw(st.sampled_from(FILTER_EXTRAS))})
        gene = _positioned(draw, doms, f"g{index}", allow_disorder=False)
        tail = draw(st.sampled_from([1, 10, 48, 49, 50, 51, 80, 200]))
        gene["protein"] = max([dom["e"] for dom in gene["doms"]] + [10]) + tail
        gene["strand"] = draw(st.sampled_from([1, 1, -1]))
        genes.append(gene)
    return {"genes": genes}


def run(ctx) -> None:
    shards = ctx.pick(8, 16)
    ctx.extra["bounds"] = {"gene_enum_max_len": ctx.pick(3, 4), "gene_symbols": len(GENE_SYMBOLS),
                           "pair_enum_shapes": _pair_shapes(ctx.thorough), "pair_symbols": len(PAIR_SYMBOLS)}
    ctx.enum("gene_enum", enum_genes(ctx.pick(3, 4)), shards=shards)
    ctx.enum("pair_enum", enum_pairs(ctx.thorough), shards=shards)
    ctx.enum("pipeline_enum", enum_pipeline(ctx.thorough), shards=shards)
    ctx.enum("filter_enum", enum_filter(ctx.thorough), shards=shards)
    rand_shards = ctx.pick(8, 16)
    ctx.hyp("gene", gene_specs(), max_examples=ctx.pick(2500, 40000), shards=rand_shards)
    ctx.hyp("pair", pair_specs(), max_examples=ctx.pick(2500, 40000), shards=rand_shards)
    ctx.hyp("pipeline", pipeline_specs(), max_examples=ctx.pick(800, 12000), shards=rand_shards)
    ctx.hyp("filter", filter_specs(), max_examples=ctx.pick(1500, 20000), shards=rand_shards)
