""" C10 - annotated records survive GenBank and JSON round trips unchanged

    A case is a plain-JSON spec of an annotated record (vlib/c10_records.py).  The record R is built the way
    the pipeline builds it, then

      genbank : R.to_biopython() -> SeqIO.write -> SeqIO.parse -> Record.from_biopython = R'
      json    : serialiser.record_to_json -> json text -> serialiser.record_from_json     = R'
      results : AntismashResults([R]).write_to_file -> from_file (and dump_records)        = R'

    and R' must equal R: sequence, topology, header ids, the multiset of emitted features
    (type, location, qualifiers), the secmet features themselves (type, name, location) and the structure
    read through the accessors (numbers, parents, children, gene functions, qualifier objects, domain attributes).
    Writing R' again must give the text of the first write (fixed point).  R itself was read from the GenBank-like
    features of the spec, so its first write must also show the input genes where the input had them
    (location, partial ends, codon_start), which is judged against the spec, not against the code.

    Every difference of a case is collected in a fixed order; the first that no signature below describes is
    raised (else the first), so a known deviation cannot hide an unknown one of the same case.
"""

from __future__ import annotations

import bz2
import io
import json as std_json
import os
import shutil
import tempfile

from vlib import c10_records as rec
from vlib.runner import Violation, code_under_test

PROPERTY_ID = "C10"
LEVEL = "exploration"
RULE = ("Random: Hypothesis specs of annotated records (vlib/c10_records.record_specs): 300..5000 bases, linear or "
        "circular, bacteria or fungi, complete header (optionally a reference), 1-8 genes laid out by construction "
        "(touching/overlapping/nested, both strands, multi-exon, origin-spanning) given as GenBank-like CDS/gene "
        "features (codon_start 2/3, partial ends, translation given or computed, notes/db_xref/pseudo/...), gene "
        "functions incl. CORE on the defining genes, sec_met and NRPS_PKS qualifiers, PFAM/aSDomain (generic, modular, "
        "TIGR, RRE)/CDS_motif features at residue ranges mapped to nucleotides by an independent transcript-order "
        "model, prepeptides (leader/core/tail, both strands, multi-exon, with and without subclass), single- and "
        "multi-CDS modules, 0-5 protoclusters (gene-anchored or sideloaded, equal coordinates, nested, across the "
        "origin, T2PKS qualifier, extra qualifiers), 0-3 subregions, candidates through create_candidate_clusters, "
        "regions through create_regions. Non-trivial: an origin-spanning feature or area, two areas of one kind with "
        "equal coordinates, a reverse-strand prepeptide, a multi-CDS module, an e-value/score of exactly 0, or a "
        "cross-reference list whose numbers cross from one to two digits. One record in five is of the 'many areas' "
        "family: 10-14 small genes in a row with a protocluster each (some genes two: hybrids), a drawn share of adjacent "
        "neighbourhoods overlapping (candidates over consecutive numbers such as 9|10), optionally 10-13 subregions, so "
        "that protocluster/candidate/subregion/region numbers reach two digits. E-values and scores of domains, sec_met "
        "and NRPS_PKS entries come from a mixture with 0.0, denormals, 1.0, >1, negative and whole-number scores, and "
        "'no value'. Multi-part misc features (1 in 2) and genes (1 in 4) carry the operator order(...) instead of "
        "join(...). distinct = sha1 of the spec.")
ASSUMPTIONS = [
    "Biopython's GenBank writer/parser is the trusted base: qualifier values are short words, so line wrapping "
    "(Biopython's business) cannot alter them; headers are complete so Biopython's defaults do not differ between writes",
    "GenBank text cannot express a strandless location: on the GenBank route a missing strand and +1 are the same",
    "sub-feature locations are computed by the check's own protein->nucleotide model (what a correct pipeline yields), "
    "not by get_sub_location_from_protein_coordinates (C09)",
    "cases on which create_candidate_clusters/create_regions raise are C05/C06 material: excluded and counted",
    "values whose GenBank text is rounded by design (e-values .2E, prepeptide score .2f, weights .1f) are generated "
    "at that precision",
    "orders that only reflect the order of insertion (genes of an area, domains of a gene) are compared as sets",
]

AREA_TYPES = {"protocluster", "proto_core", "cand_cluster", "region", "subregion"}


def _scratch_dir() -> str:
    base = "/dev/shm" if os.path.isdir("/dev/shm") and os.access("/dev/shm", os.W_OK) else None
    return tempfile.mkdtemp(prefix="verif_c10_", dir=base)


def _build(spec: dict):
    built = rec.build_record(spec)
    classes = rec.spec_classes(spec)
    return built, classes


def _record_classes(record, classes: list) -> None:
    for cand in record.get_candidate_clusters():
        classes.append(f"cand_{cand.kind}")
        if len(cand.location.parts) > 1:
            classes.append("cand_span")
    for region in record.get_regions():
        if len(region.location.parts) > 1:
            classes.append("region_span")
    if len(record.get_regions()) > 1:
        classes.append("regions_multiple")
    # numbers that cross from one to two digits inside one cross-reference list
    for cand in record.get_candidate_clusters():
        numbers = [proto.get_protocluster_number() for proto in cand.protoclusters]
        if min(numbers) <= 9 < max(numbers):
            classes.append("cand_members_cross_digits")
    for region in record.get_regions():
        for numbers in ([c.get_candidate_cluster_number() for c in region.candidate_clusters],
                        [sub.get_subregion_number() for sub in region.subregions]):
            if numbers and min(numbers) <= 9 < max(numbers):
                classes.append("region_members_cross_digits")
    for label, areas in (("candidates", record.get_candidate_clusters()), ("regions", record.get_regions())):
        if len(areas) >= 10:
            classes.append(f"{label}_10_or_more")
    if record.get_regions():
        classes.append("regions")
    if any(len(m.location.parts) > 1 for m in record.get_modules()):
        classes.append("module_span")
    for kind in rec.area_ties(record):
        classes.append({"protocluster": "protocluster_equal_coordinates", "cand_cluster": "cand_equal_coordinates",
                        "subregion": "subregion_equal_coordinates", "CDS": "cds_equal_sort_key"}[kind])


TYPE_ORDER = ["source", "gene", "CDS", "PFAM_domain", "aSDomain", "CDS_motif", "aSModule", "subregion", "protocluster",
              "cand_cluster", "region", "proto_core"]
SECTION_ORDER = ["cds_order", "genes", "domain_names", "domains", "modules", "subregions", "protoclusters", "candidates",
                 "regions", "cds", "cds_functions", "prepeptides"]


def _only(first: list, second: list) -> list:
    """ rows of first that second has fewer of """
    remaining = [repr(row) for row in second]
    out = []
    for row in first:
        text = repr(row)
        if text in remaining:
            remaining.remove(text)
        else:
            out.append(row)
    return out


def _pair_rows(lost: list, gained: list) -> tuple:
    """ pairs each lost row with the most similar gained row (same location first); returns (pairs, unpaired) """
    remaining = list(gained)
    pairs = []
    unpaired = []
    for same_location in (True, False):
        still = []
        for row in lost:
            best, best_score = None, -1
            for other in remaining:
                if same_location and other[1] != row[1]:
                    continue
                items = {repr(item) for item in row[2]}
                score = sum(1 for item in other[2] if repr(item) in items)
                if score > best_score:
                    best, best_score = other, score
            if best is None:
                still.append(row)
                continue
            remaining.remove(best)
            pairs.append((row, best))
        lost = still
    unpaired = [["before", row] for row in lost] + [["after", row] for row in remaining]
    return pairs, unpaired


def _feature_difference(before: list, after: list) -> dict:
    """ what differs between two lists of feature rows of one type: `key` is the first differing qualifier key
        (in sorted order; "<location>" for the location, "<row>" when a row has no partner at all) """
    lost = _only(before, after)
    gained = _only(after, before)
    pairs, unpaired = _pair_rows(lost, gained)
    keys: dict = {}
    spaced = set()
    for one, two in pairs:
        if one[1] != two[1]:
            keys.setdefault("<location>", [one[1], two[1]])
        first, second = dict(map(tuple, map(_kv, one[2]))), dict(map(tuple, map(_kv, two[2])))
        for key in sorted(set(first) | set(second)):
            if first.get(key, "<absent>") != second.get(key, "<absent>"):
                keys.setdefault(key, [first.get(key, "<absent>"), second.get(key, "<absent>")])
                old, new = first.get(key), second.get(key)
                if isinstance(old, tuple) and isinstance(new, tuple) and len(old) == len(new) and all(
                        isinstance(a, str) and isinstance(b, str) and a != b and b.replace(" ", "") == a.replace(" ", "")
                        for a, b in zip(old, new) if a != b):
                    spaced.add(key)
    if unpaired:
        keys["<row>"] = [len([u for u in unpaired if u[0] == "before"]), len([u for u in unpaired if u[0] == "after"])]
    ordered = sorted(keys)
    first_key = ordered[0] if ordered else None
    return {"key": first_key, "values": _jsonable(keys.get(first_key)), "differing_keys": ordered,
            "all_values": {key: _jsonable(value) for key, value in keys.items()},
            "only_spaces_differ": sorted(spaced), "only_before": lost[:3], "only_after": gained[:3]}


def _kv(item: list) -> list:
    key, values = item
    return [key, None if values is None else tuple(values)]


def _jsonable(value):
    if isinstance(value, (tuple, list)):
        return [_jsonable(v) for v in value]
    return value


def _differences(prefix: str, before: dict, after: dict, context: dict) -> list:
    """ every difference between two dumps as (clause, detail), in a fixed order and one feature type / structure
        section at a time, so that each names one kind of difference; `context` is copied into the details """
    found: list = []

    def fail(clause: str, extra: dict) -> None:
        detail = dict(context)
        detail.update(extra)
        found.append((f"{prefix}_{clause}", detail))

    if before["seq"] != after["seq"] or before["length"] != after["length"]:
        fail("sequence", {"before": before["length"], "after": after["length"]})
    if before["circular"] != after["circular"] or before["topology"] != after["topology"]:
        fail("topology", {"before": before["topology"], "after": after["topology"]})
    for key in ("id", "name", "description", "molecule_type"):
        if before[key] != after[key]:
            fail("header", {"field": key, "before": before[key], "after": after[key]})
    if before["features"] != after["features"]:
        types = {row[0] for row in before["features"]} | {row[0] for row in after["features"]}
        ordered = [t for t in TYPE_ORDER[:3] if t in types] + sorted(types - set(TYPE_ORDER)) + \
                  [t for t in TYPE_ORDER[3:] if t in types]
        for kind in ordered:
            one = [row for row in before["features"] if row[0] == kind]
            two = [row for row in after["features"] if row[0] == kind]
            if one != two:
                difference = _feature_difference(one, two)
                for key in difference["differing_keys"]:
                    fail("features", dict(difference, type=kind, key=key, values=_jsonable(difference["all_values"][key])))
    for section in SECTION_ORDER + sorted(set(before["structure"]) - set(SECTION_ORDER)):
        if before["structure"][section] != after["structure"][section]:
            for item in rec.diff_dumps(before["structure"][section], after["structure"][section], limit=12):
                fail("structure", {"section": section, "diff": [item]})
    if before["secmet_features"] != after["secmet_features"]:
        lost = _only(before["secmet_features"], after["secmet_features"])
        gained = _only(after["secmet_features"], before["secmet_features"])
        for name in sorted({row[1] for row in lost + gained}):
            fail("secmet_features", {"classes_differing": [name],
                                     "only_before": [row for row in lost if row[1] == name][:4],
                                     "only_after": [row for row in gained if row[1] == name][:4]})
    return found


def _raise_first(sub: str, spec: dict, found: list) -> None:
    """ raises one of the collected differences: the first that none of this module's signatures describes,
        else the first.  (Known deviations must not hide an unknown one further down the list.) """
    if not found:
        return
    for clause, detail in found:
        if not any(signature(sub, spec, clause, detail) for signature in SIGNATURES.values()):
            raise Violation(clause, detail)
    raise Violation(*found[0])


def _input_preserved(spec: dict, dump: dict, context: dict) -> None:
    """ the record was read from GenBank-like features (the spec): writing it must show those genes where the input
        had them - original location, partial ends, codon_start - while the record itself holds the shifted location """
    rows = [row for row in dump["features"] if row[0] == "CDS"]
    secmet = {row[2]: row[3] for row in dump["secmet_features"] if row[0] == "CDS"}
    for gene in spec["genes"]:
        fuzzy = tuple(gene.get("fuzzy") or (False, False))
        want = rec.location_text(rec.to_bio_location(gene["loc"], fuzzy))
        ident = gene.get("ident", "locus_tag")
        mine = [row for row in rows if [ident, [gene["name"]]] in row[2]]
        if len(mine) != 1:
            raise Violation("input_gene_missing", dict(context, gene=gene["name"], found=len(mine)))
        quals = dict((key, values) for key, values in mine[0][2])
        codon_start = gene.get("codon_start", 1)
        want_qualifier = [str(codon_start)] if (codon_start != 1 or gene.get("explicit_codon_start")) else None
        if mine[0][1] != want or quals.get("codon_start") != want_qualifier:
            raise Violation("input_gene_location", dict(context, gene=gene["name"], want=[want, want_qualifier],
                                                        got=[mine[0][1], quals.get("codon_start")]))
        shifted = rec.location_text(rec.to_bio_location(rec.shifted(gene["loc"], codon_start), fuzzy))
        if secmet.get(gene["name"]) != shifted:
            raise Violation("input_gene_shifted_location", dict(context, gene=gene["name"], want=shifted,
                                                                got=secmet.get(gene["name"])))


def _start(spec: dict):
    """ builds R and checks that writing it is repeatable; returns (built, classes, context) or a skip result """
    built, classes = _build(spec)
    if built.excluded:
        return None, {"nontrivial": False, "classes": ["excluded_" + built.excluded.split(":")[0]]}, None
    record = built.record
    _record_classes(record, classes)
    conflicts = rec.area_order_conflicts(record)
    classes.extend(f"order_conflict_{kind}" for kind in conflicts)
    context = {"ties": rec.area_ties(record), "order_conflicts": conflicts, "classes": sorted(set(classes))}
    return built, classes, context


def _repeatable(first: dict, again: dict, context: dict) -> None:
    """ describing / writing the record a second time must show the same record """
    if first == again:
        return
    if first["features"] != again["features"]:
        raise Violation("write_repeatable", dict(context, **_feature_difference(first["features"], again["features"])))
    raise Violation("write_repeatable", dict(context, diff=rec.diff_dumps(first, again)))


def _result(spec: dict, classes: list) -> dict:
    return {"nontrivial": rec.spec_is_nontrivial(spec, classes), "classes": sorted(set(classes))}


def check_genbank(spec: dict) -> dict:
    built, classes, context = _start(spec)
    if built is None:
        return classes
    record = built.record
    with code_under_test("gb_write_total"):
        first = rec.canonical_dump(record, strandless_as_forward=True)
        again = rec.canonical_dump(record, strandless_as_forward=True)
    _repeatable(first, again, context)
    _input_preserved(spec, first, context)
    if spec.get("via_file"):
        # the file based pair Record.to_genbank / Record.from_genbank
        from antismash.common.secmet import Record
        scratch = _scratch_dir()
        try:
            path = os.path.join(scratch, "record.gbk")
            with code_under_test("gb_write_total"):
                record.to_genbank(path)
            with open(path, encoding="utf-8") as handle:
                text = handle.read()
            _repeatable(first, rec.canonical_dump(record, strandless_as_forward=True), context)
            with code_under_test("gb_reload_total"):
                loaded = Record.from_genbank(path, taxon=built.taxon)
            if len(loaded) != 1:
                raise Violation("gb_file_record_count", dict(context, records=len(loaded)))
            reloaded = loaded[0]
        finally:
            shutil.rmtree(scratch, ignore_errors=True)
        classes.append("via_file")
    else:
        with code_under_test("gb_write_total"):
            text = rec.genbank_text(record)
        _repeatable(first, rec.canonical_dump(record, strandless_as_forward=True), context)
        with code_under_test("gb_reload_total"):
            reloaded = rec.record_from_genbank_text(text, built.taxon)
    with code_under_test("gb_reload_total"):
        second = rec.canonical_dump(reloaded, strandless_as_forward=True)
    found = _differences("gb", first, second, context)
    with code_under_test("gb_rewrite_total"):
        text_again = rec.genbank_text(reloaded)
    if text_again != text and not found:      # a record that differs is written differently: nothing new
        one, two = text.splitlines(), text_again.splitlines()
        lines = [[a, b] for a, b in zip(one, two) if a != b][:6]
        found.append(("gb_fixed_point", dict(context, lines=lines, lengths=[len(one), len(two)],
                                             order_only=sorted(one) == sorted(two))))
    _raise_first("genbank", spec, found)
    return _result(spec, classes)


def _same_features_other_order(one: dict, two: dict) -> bool:
    """ two JSON records that differ only in the order of their features """
    rest_one = {key: value for key, value in one.items() if key not in ("features", "areas")}
    rest_two = {key: value for key, value in two.items() if key not in ("features", "areas")}
    return (rest_one == rest_two and one["features"] != two["features"]
            and sorted(map(std_json.dumps, one["features"])) == sorted(map(std_json.dumps, two["features"])))


def _json_text(record) -> str:
    from antismash.common import json as as_json
    from antismash.common.serialiser import record_to_json
    return as_json.dumps(record_to_json(record.to_biopython()))


def check_json(spec: dict) -> dict:
    from antismash.common.serialiser import record_from_json
    built, classes, context = _start(spec)
    if built is None:
        return classes
    record = built.record
    with code_under_test("json_write_total"):
        first = rec.canonical_dump(record)
        text = _json_text(record)
    _input_preserved(spec, first, context)
    _repeatable(first, rec.canonical_dump(record), context)
    with code_under_test("json_reload_total"):
        reloaded = record_from_json(std_json.loads(text), built.taxon)
        second = rec.canonical_dump(reloaded)
    found = _differences("json", first, second, context)
    # record_from_json also accepts the text itself
    with code_under_test("json_reload_total"):
        from_text = rec.canonical_dump(record_from_json(text, built.taxon))
    if from_text != second:
        found.append(("json_text_vs_dict", dict(context, diff=rec.diff_dumps(second, from_text))))
    with code_under_test("json_rewrite_total"):
        text_again = _json_text(reloaded)
    if text_again != text and not found:
        one, two = std_json.loads(text), std_json.loads(text_again)
        found.append(("json_fixed_point", dict(context, diff=rec.diff_dumps(one, two, limit=60),
                                               order_only=_same_features_other_order(one, two))))
    _raise_first("json", spec, found)
    return _result(spec, classes)


def _records_section(text: str, unstable_areas: bool, key: str = None) -> list:
    """ the list of records of a results JSON text.  The 'areas' summary sorts a *set* of protoclusters; with members
        that have no consistent order the result depends on memory addresses (C17 judges that), so it is left out
        then, to keep this body a function of the spec """
    data = std_json.loads(text)
    records = data[key] if key else data
    if unstable_areas:
        for entry in records:
            entry.pop("areas", None)
    return records


def check_results(spec: dict) -> dict:
    """ the whole-run results file: AntismashResults.write_to_file / from_file and dump_records """
    from antismash.common.serialiser import AntismashResults, dump_records
    built, classes, context = _start(spec)
    if built is None:
        return classes
    record = built.record
    original_id = spec.get("original_id")
    if original_id:
        record.original_id = original_id
    with code_under_test("results_write_total"):
        first = rec.canonical_dump(record)
        results = AntismashResults("input.gbk", [record], [{}], "7.1.0", taxon=built.taxon)
    route = spec.get("io", "handle")
    classes.append(f"io_{route}")
    if route == "handle":
        with code_under_test("results_write_total"):
            handle = io.StringIO()
            results.write_to_file(handle)
            text = handle.getvalue()
        _repeatable(first, rec.canonical_dump(record), context)
        with code_under_test("results_reload_total"):
            loaded = AntismashResults.from_file(io.StringIO(text))
    else:
        # by file name; from_file also reads bzip2 files (recognised by the extension)
        scratch = _scratch_dir()
        try:
            path = os.path.join(scratch, "results.json")
            with code_under_test("results_write_total"):
                results.write_to_file(path)
            with open(path, encoding="utf-8") as handle:
                text = handle.read()
            if route == "bz2":
                path += ".bz2"
                with bz2.open(path, "wt", encoding="utf-8") as handle:
                    handle.write(text)
            _repeatable(first, rec.canonical_dump(record), context)
            with code_under_test("results_reload_total"):
                loaded = AntismashResults.from_file(path)
        finally:
            shutil.rmtree(scratch, ignore_errors=True)
    if len(loaded.records) != 1 or loaded.taxon != built.taxon or loaded.input_file != "input.gbk" \
            or loaded.version != "7.1.0" or loaded.results != [{}]:
        raise Violation("results_envelope", dict(context, records=len(loaded.records), taxon=loaded.taxon,
                                                 input_file=loaded.input_file, version=loaded.version))
    reloaded = loaded.records[0]
    second = rec.canonical_dump(reloaded)
    found = _differences("results", first, second, context)
    if reloaded.original_id != (original_id or None):
        found.append(("results_original_id", dict(context, before=original_id, after=reloaded.original_id)))
    if abs(reloaded.get_gc_content() - record.get_gc_content()) > 1e-12:
        found.append(("results_gc_content", dict(context, before=record.get_gc_content(),
                                                 after=reloaded.get_gc_content())))
    # dump_records to a handle writes the same records section
    with code_under_test("results_write_total"):
        handle = io.StringIO()
        data = dump_records([{}], [record], handle=handle)
    from antismash.common import json as as_json
    unstable_areas = bool(context["ties"] or context["order_conflicts"])
    if _records_section(handle.getvalue(), unstable_areas) != _records_section(text, unstable_areas, "records") or \
            _records_section(as_json.dumps(data), unstable_areas) != _records_section(text, unstable_areas, "records"):
        found.append(("results_dump_records", dict(context)))
    # schema gate: compatible versions load the same record, others are refused
    schema = spec.get("schema", "same")
    if schema != "same":
        raw = std_json.loads(text)
        written = raw["schema"]
        if isinstance(schema, str) and schema.startswith("+"):
            schema = written + int(schema[1:])      # a file from a NEWER antiSMASH: must be refused, not loaded as current
        if schema == "absent":
            raw.pop("schema")
        else:
            raw["schema"] = schema
        compatible = schema == "absent" or (isinstance(schema, int) and not isinstance(schema, bool)
                                            and (schema == written or schema in (1, 2, 3)))
        classes.append("schema_newer" if isinstance(schema, int) and not isinstance(schema, bool) and schema > written
                       else "schema_older_or_other")
        try:
            other = AntismashResults.from_file(io.StringIO(std_json.dumps(raw)))
        except ValueError:
            if compatible:
                found.append(("results_schema_refused", dict(context, schema=schema)))
            classes.append("schema_refused")
        except Exception as err:  # pylint: disable=broad-except
            found.append(("results_schema_crash", dict(context, schema=schema, exception=type(err).__name__,
                                                       message=str(err)[:200])))
        else:
            if not compatible:
                found.append(("results_schema_accepted", dict(context, schema=schema)))
            classes.append("schema_compatible")
            if rec.canonical_dump(other.records[0]) != second:
                found.append(("results_schema_changed_record", dict(context, schema=schema)))
    with code_under_test("results_rewrite_total"):
        handle = io.StringIO()
        AntismashResults("input.gbk", [reloaded], [{}], "7.1.0", taxon=built.taxon).write_to_file(handle)
    one = {"records": _records_section(text, unstable_areas, "records")}
    two = {"records": _records_section(handle.getvalue(), unstable_areas, "records")}
    for key, value in std_json.loads(text).items():
        one.setdefault(key, value)
    for key, value in std_json.loads(handle.getvalue()).items():
        two.setdefault(key, value)
    if one != two and not found:
        found.append(("results_fixed_point", dict(context, diff=rec.diff_dumps(one, two, limit=60), order_only=all(
            _same_features_other_order(first, second) for first, second in zip(one["records"], two["records"])))))
    _raise_first("results", spec, found)
    return _result(spec, classes)


SUBCHECKS = {
    "genbank": check_genbank,
    "json": check_json,
    "results": check_results,
}


# --------------------------------------------------------------------------- known findings (narrow signatures)

AREA_CLASSES = {"Protocluster", "SideloadedProtocluster", "CandidateCluster", "Region", "SubRegion", "SideloadedSubRegion"}
AREA_SECTIONS = {"subregions", "protoclusters", "candidates", "regions"}
NUMBER_KEYS = {"protocluster_number", "candidate_cluster_number", "subregion_number", "region_number", "protoclusters",
               "candidate_cluster_numbers", "subregion_numbers"}
# qualifiers of an area that are copied from its members, so they follow when members swap numbers
MEMBER_KEYS = NUMBER_KEYS | {"product", "detection_rules", "rules", "contig_edge", "<row>"}
SEQUENCE_KEYS = {"leader_sequence", "core_sequence", "tail_sequence", "SMILES"}
ROUTES = ("gb", "json", "results")


def _route_clause(clause: str, name: str) -> bool:
    return any(clause == f"{route}_{name}" for route in ROUTES)


def _same_coordinates(before: str, after: str) -> bool:
    import re
    pattern = r":(None|-?1|0)(?=[,}])"
    return re.sub(pattern, "", before) == re.sub(pattern, "", after)


def _numbering_failure(clause: str, detail: dict, kinds: list, any_key: bool = False) -> bool:
    """ the failure is confined to numbers / member-derived qualifiers of area features, or to the order of
        the genes when genes are the tied kind """
    area_kinds = [kind for kind in kinds if kind != "CDS"]
    if _route_clause(clause, "features") and area_kinds:
        if detail.get("type") in AREA_TYPES and detail.get("key") == "<location>" and not any_key:
            # tied members differing in strand only: the hull of a candidate/region follows the swapped member
            return _same_coordinates(*detail["values"])
        return detail.get("type") in AREA_TYPES and (any_key or detail.get("key") in MEMBER_KEYS)
    if _route_clause(clause, "structure"):
        if detail.get("section") == "cds_order":
            return "CDS" in kinds
        return bool(area_kinds) and detail.get("section") in AREA_SECTIONS
    if clause in ("gb_fixed_point", "json_fixed_point", "results_fixed_point"):
        return "CDS" in kinds       # same features, emitted in another order
    if _route_clause(clause, "secmet_features") and area_kinds:
        if not set(detail.get("classes_differing") or ["?"]) <= AREA_CLASSES:
            return False
        # ties: hulls that follow a swapped member of another strand; contradictions: anything about the areas
        return any_key or (len(detail["only_before"]) == len(detail["only_after"]) and all(
            _same_coordinates(one[3], two[3]) for one, two in zip(detail["only_before"], detail["only_after"])))
    return False


def _spec_gene_ties(spec: dict) -> bool:
    """ two genes of the spec with the same sort key of the documented ordering: equal start (for a gene crossing the
        origin: equal start of its pre-origin part) AND equal summed length.  Judged on the spec, not with the record's
        own __lt__: a comparator that starts to tie more genes must not widen this input class """
    keys = set()
    for gene in spec["genes"]:
        loc = rec.shifted(gene["loc"], gene.get("codon_start", 1))
        parts = loc["parts"]
        if rec.gen.is_span(loc):
            forward = parts if loc["strand"] != -1 else list(reversed(parts))
            start = ("span", forward[0][0])
        else:
            start = ("plain", min(p[0] for p in parts))
        key = (start, rec.loc_len(loc))
        if key in keys:
            return True
        keys.add(key)
    return False


def _spec_area_ties(spec: dict, kind: str) -> bool:
    areas = spec.get("protoclusters" if kind == "protocluster" else "subregions") or []
    keys = [repr(area["loc"]["parts"]) for area in areas]
    return len(set(keys)) < len(keys)


def sig_equal_sort_key(sub, spec, clause, detail) -> bool:
    """ two areas of one kind (or two genes) compare equal under the record's ordering -> bisect_left puts the later
        one first, numbering / order flips on every reload.  The tie must also be one by the spec: equal coordinates
        of two protoclusters / subregions, equal (start, summed length) of two genes; candidates are derived, for
        them the record's own comparison is used """
    if not isinstance(detail, dict):
        return False
    kinds = []
    for kind in detail.get("ties") or []:
        if kind == "CDS" and not _spec_gene_ties(spec):
            continue
        if kind in ("protocluster", "subregion") and not _spec_area_ties(spec, kind):
            continue
        kinds.append(kind)
    return bool(kinds) and _numbering_failure(clause, detail, kinds)


def sig_order_conflict(sub, spec, clause, detail) -> bool:
    """ a whole-record area and an origin-spanning one each sort before the other (CDSCollection.__lt__): numbers,
        member order and everything derived from it (hull, products) depend on the order of insertion """
    return (isinstance(detail, dict) and bool(detail.get("order_conflicts")) and spec.get("circular")
            and _numbering_failure(clause, detail, [k for k in detail["order_conflicts"] if k != "CDS"], any_key=True))


def sig_sideloaded_proto_core(sub, spec, clause, detail) -> bool:
    """ sideloaded protocluster: its proto_core feature gains category/core_location (left-over qualifiers) on reload """
    return (any(p.get("sideloaded") for p in spec.get("protoclusters") or []) and _route_clause(clause, "features")
            and detail.get("type") == "proto_core" and detail.get("key") in ("category", "core_location")
            and detail.get("values")[0] == "<absent>" and {"category", "core_location"} <= set(detail["differing_keys"]))


def sig_gene_function_split(sub, spec, clause, detail) -> bool:
    """ function annotation without product whose description holds a colon reloads with the prefix as product; the
        blank after the colon is optional for the parser, so 'x:y' is also rewritten as 'x: y' """
    if not any(f[3] is None and ":" in f[2] for g in spec["genes"] for f in g.get("functions") or []):
        return False
    if _route_clause(clause, "features"):
        values = detail.get("values") or [None, None]
        return (detail.get("type") == "CDS" and detail.get("key") == "gene_functions"
                and all(isinstance(v, list) for v in values) and len(values[0]) == len(values[1])
                and all(a == b or (a.replace(": ", ":") == b.replace(": ", ":")) for a, b in zip(*values)))
    if not (_route_clause(clause, "structure") and detail.get("section") == "cds_functions"):
        return False
    for item in detail["diff"]:
        if item["at"].endswith("[2]"):
            if not (item["first"] is None and isinstance(item["second"], str)):
                return False
        elif item["at"].endswith("[3]"):
            if not (isinstance(item["first"], str) and ":" in item["first"]
                    and item["first"].split(":", 1)[1].strip() == item["second"]):
                return False
        else:
            return False
    return True


def _prepeptide_rebuilt_class(spec: dict) -> bool:
    for gene in spec["genes"]:
        if gene.get("prepeptide") and (gene["loc"]["strand"] == -1 or any(gene.get("fuzzy") or ())
                                       or rec.gen.is_span(gene["loc"]) or gene["loc"].get("operator") == "order"
                                       or rec.loc_len(rec.shifted(gene["loc"], gene.get("codon_start", 1))) % 3):
            return True
    return False


def sig_prepeptide_location_rebuilt(sub, spec, clause, detail) -> bool:
    """ the prepeptide's own location is not stored but rebuilt from leader+core+tail: reverse strand -> compound,
        incomplete last codon dropped, partial-end markers lost, order(...) becomes join(...) """
    if not _prepeptide_rebuilt_class(spec):
        return False
    if _route_clause(clause, "structure") and detail.get("section") == "prepeptides":
        return all(item["at"].endswith("][1]") for item in detail["diff"])
    if _route_clause(clause, "secmet_features"):
        return detail.get("classes_differing") == ["Prepeptide"]
    return False


def sig_notes_duplicated(sub, spec, clause, detail) -> bool:
    """ a feature read with /note and given further notes: every to_biopython() appends them again """
    return (clause == "write_repeatable" and detail.get("key") == "note" and detail.get("differing_keys") == ["note"]
            and any(g.get("added_notes") and (g.get("quals") or {}).get("note") for g in spec["genes"]))


def sig_prepeptide_no_subclass(sub, spec, clause, detail) -> bool:
    """ prepeptide without subclass: /predicted_class (no value) is read back as "" and rewritten as ="" """
    if not any((g.get("prepeptide") or {"subclass": 0}).get("subclass") is None for g in spec["genes"]):
        return False
    if clause == "gb_features":
        return (detail.get("type") == "CDS_motif" and detail.get("key") == "predicted_class"
                and detail.get("values") == [[None], [""]])
    if clause == "gb_structure" and detail.get("section") == "prepeptides":
        return all(item["at"].endswith("][3]") and item["first"] is None and item["second"] == ""
                   for item in detail["diff"])
    return False


def sig_long_unbroken_value(sub, spec, clause, detail) -> bool:
    """ a sequence-like value longer than a GenBank line (prepeptide leader/core/tail, SMILES) is wrapped by the
        writer and comes back with a blank per line break; a longer leader then shifts the leader/core border """
    longest = max([len(v or "") for pair in spec.get("candidate_extras") or [] for v in pair[:1]] +
                  [len(g["prepeptide"].get(key) or "") for g in spec["genes"] if g.get("prepeptide")
                   for key in ("leader", "core", "tail")] + [0])
    if longest < rec.LONG_VALUE or not clause.startswith("gb_"):
        return False
    if clause == "gb_structure" and detail.get("section") in ("candidates", "prepeptides"):
        # the same strings seen through the accessors: smiles_structure, leader, core, tail
        return all((item["at"].endswith("/smiles") or item["at"][-4:] in ("][4]", "][5]", "][6]"))
                   and isinstance(item["first"], str) and isinstance(item["second"], str)
                   and " " not in item["first"] and item["second"].replace(" ", "") == item["first"]
                   for item in detail["diff"])
    if clause == "gb_reload_total":
        # the section borders are computed from len(leader) and len(core): grown by blanks they can run past the gene
        return (detail.get("exception") == "ValueError" and "get_sub_location_from_protein_coordinates" in
                detail.get("where", "") and any(
                    g.get("prepeptide") and max(
                        len(g["prepeptide"]["core"]), len(g["prepeptide"].get("leader") or "")) >= rec.LONG_VALUE
                    for g in spec["genes"]))
    if clause != "gb_features":
        return False
    spaced = set(detail.get("only_spaces_differ") or [])
    if detail.get("type") == "cand_cluster":
        return detail.get("key") == "SMILES" and spaced == {"SMILES"}
    if detail.get("type") == "CDS_motif":
        # the blank itself, or the borders it moved: a longer leader/core shifts the sections
        return bool(spaced & SEQUENCE_KEYS) and detail.get("key") in SEQUENCE_KEYS | {
            "<location>", "leader_location", "tail_location", "note", "<row>"}
    return False


def _only_strand_gained(before: str, after: str) -> bool:
    """ same coordinates, every strand of the second is +1 """
    import re
    pattern = r":(None|-?1|0)(?=[,}])"
    return (before != after and re.sub(pattern, "", before) == re.sub(pattern, "", after)
            and set(re.findall(pattern, after)) == {"1"})


def sig_candidate_wrap_point_linear(sub, spec, clause, detail) -> bool:
    """ linear record: create_candidate_clusters connects the members without a wrap point, CandidateCluster.from_biopython
        always passes the record length as one.  After a reload the candidate's core_location takes the short way
        over the 'origin' of the linear record when the member cores are more than half a record apart, and the hull
        of members with mixed/missing strands gets strand +1 instead of none (invisible in GenBank, not in JSON) """
    if spec.get("circular") or len(spec.get("protoclusters") or []) < 1:
        return False
    if _route_clause(clause, "structure") and detail.get("section") in ("candidates", "regions"):
        for item in detail["diff"]:
            if not (isinstance(item["first"], str) and isinstance(item["second"], str)):
                return False
            wrapped = (item["at"].endswith("/core") and detail["section"] == "candidates"
                       and item["first"].startswith("-{") and item["second"].startswith("join{")
                       and item["second"].count(",") == 1 and ",0:" in item["second"])
            if not (wrapped or _only_strand_gained(item["first"], item["second"])):
                return False
        return True
    if _route_clause(clause, "features"):
        return (detail.get("type") in ("cand_cluster", "region") and detail.get("key") == "<location>"
                and _only_strand_gained(*detail["values"]))
    if _route_clause(clause, "secmet_features"):
        return set(detail.get("classes_differing")) <= {"CandidateCluster", "Region"} and all(
            _only_strand_gained(one[3], two[3]) and one[:3] == two[:3]
            for one, two in zip(detail["only_before"], detail["only_after"]))
    return False


def sig_pfam_empty_go(sub, spec, clause, detail) -> bool:
    """ PFAM domain without GO terms: reload gives it an empty GOQualifier, the next JSON write has
        "gene_ontologies": [] """
    return (clause in ("json_fixed_point", "results_fixed_point")
            and any(d["kind"] == "pfam" and not d.get("go") for g in spec["genes"] for d in g.get("domains") or [])
            and bool(detail.get("diff"))
            and all(item["at"].endswith("/qualifiers/gene_ontologies") and item["first"] == "<absent>"
                    and item["second"] == [] for item in detail["diff"]))


def sig_order_operator_lost_by_codon_start(sub, spec, clause, detail) -> bool:
    """ a multi-part gene written with order(...) and codon_start 2/3: the frameshift rebuilds the compound location
        without its operator, so the gene is held and written as join(...) """
    if clause != "input_gene_location":
        return False
    gene = next((g for g in spec["genes"] if g["name"] == detail.get("gene")), None)
    if gene is None or gene["loc"].get("operator") != "order" or gene.get("codon_start", 1) == 1:
        return False
    want, got = detail["want"], detail["got"]
    return want[1] == got[1] and want[0].startswith("order{") and got[0] == "join{" + want[0][len("order{"):]


def sig_long_name_inside_value_blank(sub, spec, clause, detail) -> bool:
    """ values that EMBED a long gene name - NRPS_PKS "Matches aSDomain: nrpspksdomains_<name>_<hit>.<n>", the smCOG
        tree note "smcogs/<name>.png" - no longer fit a GenBank line; the name is split and read back with a blank,
        which nothing removes (unlike locus_tag, domain_id, label, Module /domains) """
    long_genes = [g for g in spec["genes"] if len(g["name"]) > rec.LONG_VALUE]
    if not clause.startswith("gb_") or not long_genes:
        return False
    if clause == "gb_features" and detail.get("type") == "CDS" and detail.get("key") in ("NRPS_PKS", "note"):
        if detail["key"] == "NRPS_PKS" and not any(d["kind"] == "modular" for g in long_genes for d in g.get("domains") or []):
            return False
        if detail["key"] == "note" and not any(g.get("added_notes") for g in long_genes):
            return False
        return detail["key"] in (detail.get("only_spaces_differ") or [])
    if clause == "gb_structure" and detail.get("section") == "cds":
        return all("/nrps/domains[" in item["at"] and item["at"].endswith("][6]") and isinstance(item["second"], str)
                   and item["second"].replace(" ", "") == item["first"] for item in detail["diff"])
    return False


def _underscores_gained(before: str, after: str) -> bool:
    return before != after and len(after) > len(before) and after.replace("_", "") == before.replace("_", "")


def sig_long_secondary_id_blank(sub, spec, clause, detail) -> bool:
    """ /protein_id or /gene longer than a GenBank line: the wrap blank is not removed on reading (only locus_tag is
        cleaned) and _sanitise_id_value turns it into an underscore: the identifier changes on every round trip """
    if not clause.startswith("gb_") or not any(len(g.get(key) or "") > rec.LONG_VALUE for g in spec["genes"]
                                               for key in ("protein_id", "gene")):
        return False
    if clause == "gb_features":
        values = detail.get("values") or [None, None]
        return (detail.get("type") == "CDS" and detail.get("key") in ("protein_id", "gene")
                and all(isinstance(v, list) and len(v) == 1 for v in values)
                and _underscores_gained(values[0][0], values[1][0]))
    if clause == "gb_structure" and detail.get("section") == "cds":
        return all(item["at"].endswith(("/ids[1]", "/ids[2]")) and isinstance(item["first"], str)
                   and isinstance(item["second"], str) and _underscores_gained(item["first"], item["second"])
                   for item in detail["diff"])
    return False


def sig_feature_order_not_transitive(sub, spec, clause, detail) -> bool:
    """ circular record with a source feature, an area crossing the origin and another feature crossing it: the area and
        the source are unordered (neither sorts first) while area < gene < source, so sorted(all_features) depends on the
        order the genes were added in: the same features are written in another order after a reload """
    if clause not in ("gb_fixed_point", "json_fixed_point", "results_fixed_point") or not detail.get("order_only"):
        return False
    classes = set(detail.get("classes") or [])
    return (bool(spec.get("circular")) and spec.get("source", True)
            and bool(classes & {"protocluster_span", "subregion_span", "cand_span", "region_span"})
            and bool(classes & {"gene_span", "domain_span", "misc_span", "module_span"}))


SIGNATURES = {
    "equal_sort_key": sig_equal_sort_key,
    "order_conflict": sig_order_conflict,
    "sideloaded_proto_core": sig_sideloaded_proto_core,
    "gene_function_split": sig_gene_function_split,
    "prepeptide_location_rebuilt": sig_prepeptide_location_rebuilt,
    "notes_duplicated": sig_notes_duplicated,
    "prepeptide_no_subclass": sig_prepeptide_no_subclass,
    "long_unbroken_value": sig_long_unbroken_value,
    "pfam_empty_go": sig_pfam_empty_go,
    "candidate_wrap_point_linear": sig_candidate_wrap_point_linear,
    "order_operator_lost_by_codon_start": sig_order_operator_lost_by_codon_start,
    "long_name_inside_value_blank": sig_long_name_inside_value_blank,
    "long_secondary_id_blank": sig_long_secondary_id_blank,
    "feature_order_not_transitive": sig_feature_order_not_transitive,
}


def genbank_specs():
    from hypothesis import strategies as st

    @st.composite
    def specs(draw):
        spec = draw(rec.record_specs())
        spec["via_file"] = draw(st.sampled_from([False] * 5 + [True]))
        return spec
    return specs()


def results_specs():
    from hypothesis import strategies as st

    @st.composite
    def specs(draw):
        spec = draw(rec.record_specs(max_len=2500))
        spec["original_id"] = draw(st.sampled_from([None, None, "a very long original identifier.1"]))
        spec["schema"] = draw(st.sampled_from(["same", "same", "absent", 1, 2, 3, 4, 0, -1, "4", 4.5, None,
                                               "+1", "+1", "+2", "+10", 99, 2 ** 40]))
        spec["io"] = draw(st.sampled_from(["handle", "handle", "handle", "path", "bz2"]))
        return spec
    return specs()


def _generator_profile(count: int, seed: int) -> dict:
    """ class frequencies of freshly generated specs (the runner counts classes of passing cases only, and every
        case that shows a known finding is excluded there, so the generator is measured separately) """
    import collections
    import hypothesis
    from hypothesis import HealthCheck, Phase, given, settings
    counter: collections.Counter = collections.Counter()
    seen = [0]

    @hypothesis.seed(seed)
    @settings(max_examples=count, deadline=None, database=None, suppress_health_check=list(HealthCheck),
              phases=[Phase.generate])
    @given(rec.record_specs())
    def sample(spec: dict) -> None:
        seen[0] += 1
        classes = rec.spec_classes(spec)
        counter.update(set(classes))
        if rec.spec_is_nontrivial(spec, classes):
            counter["<nontrivial by the spec alone>"] += 1

    sample()
    return {"specs": seen[0], "classes": dict(sorted(counter.items()))}


def run(ctx) -> None:
    shards = 16
    ctx.extra["generated_spec_profile"] = _generator_profile(ctx.pick(80, 1500), ctx.seed)
    ctx.extra["bounds"] = {"record_length": [300, 5000], "genes": [1, 8], "protoclusters": [0, 5], "subregions": [0, 3]}
    ctx.hyp("genbank", genbank_specs(), max_examples=ctx.pick(700, 26000), shards=shards)
    ctx.hyp("json", rec.record_specs(), max_examples=ctx.pick(500, 17000), shards=shards)
    ctx.hyp("results", results_specs(), max_examples=ctx.pick(300, 9000), shards=shards)
