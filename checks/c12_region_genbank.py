""" C12 - per-region GenBank files are faithful, self-consistent extracts """

from __future__ import annotations

import collections
import functools
import itertools
import os
import shutil
import tempfile
from io import StringIO
from typing import Any, Optional

from hypothesis import strategies as st

from vlib import gen, ring
from vlib.c12_regions import (
    RegionMap, bio_to_loc, build_record, genbank_text, ordered_bases, parse_location_text)
from vlib.runner import Violation, canonical

PROPERTY_ID = "C12"
LEVEL = "exploration"
RULE = ("Records (240..2400 bases, linear and circular) are laid out by construction: 1-4 disjoint groups of "
        "areas (gaps of 0 = touching, or larger; first/last group touching position 0 / the record end; on "
        "circular records rotated so that a group spans the origin; 1 case in 6 is a small contig whose single "
        "group covers the whole record, half of them circular and then also with an area spanning the origin next to "
        "an area [0:L) or to one covering the rest of the circle), each group holding 0-3 protoclusters "
        "(core inside the neighbourhood, one optionally sideloaded) and 0-2 subregions with boundary-biased "
        "coordinates; genes from the shared gene layout (both strands, multi-exon, origin-spanning) plus genes "
        "anchored at area boundaries; PFAM/aSDomain/CDS_motif annotations on any gene, prepeptides (leader/"
        "core/tail) on genes inside an area; candidates and regions come from Record.create_candidate_clusters/"
        "create_regions. Every region of the record is written with Region.write_to_genbank (fresh SeqRecord per "
        "call, or one shared SeqRecord as antismash.main does). A small deterministic family enumerates region "
        "position x area pattern x topology. Non-trivial: the record has >= 2 regions, or a region spans the "
        "origin, or a region holds a prepeptide or >= 2 candidates; distinct = sha1 of the canonical spec.")
ASSUMPTIONS = [
    "Biopython's GenBank writer/parser and SeqFeature location attributes are the trusted base: the parent's own "
    "GenBank text (Record.to_biopython -> SeqIO.write -> SeqIO.read) is the reference for features and qualifiers",
    "a feature is 'inside' a region when each of its parts lies wholly before or wholly after the origin inside the "
    "region's span; 'covers the same bases' is judged on the transcript-ordered base list mapped by "
    "(position - region start) mod record length",
    "the loader numbers areas by position (record.py add_* use bisect on CDSCollection.__lt__: a containing area "
    "first, else (start, -length), an area still spanning the origin before all others); the numbers in a region "
    "file must follow that order, pairs with equal (start, length) are left unjudged (C10's tie question)",
    "'the full record' is the SeqRecord handed to the writer (or Record.to_biopython()): its GenBank text plus all "
    "annotations, ids, dbxrefs, letter annotations and the feature count, compared before and after each write",
    "the region feature's own region_number and the 'Orig. start/end' comment are not asserted (not in the statement)",
    "prepeptides are generated only on genes that do not span the origin (C09's open finding would dominate) and "
    "that lie inside an area (the RiPP modules only analyse genes inside protoclusters)",
    "records on which candidate/region creation fails or yields regions that are not the connected components of "
    "their areas are excluded and counted (C05/C06)",
]

AREA_TYPES = ("protocluster", "cand_cluster", "subregion")
XREF_KEYS = {
    "protocluster": ("protocluster_number", "core_location"),
    "proto_core": ("protocluster_number",),
    "cand_cluster": ("candidate_cluster_number", "protoclusters"),
    "region": ("candidate_cluster_numbers", "subregion_numbers", "region_number"),
    "subregion": ("subregion_number",),
    "CDS_motif": ("leader_location", "tail_location"),
}
NUMBER_KEY = {"protocluster": "protocluster_number", "cand_cluster": "candidate_cluster_number",
              "subregion": "subregion_number"}


# --------------------------------------------------------------------------- small pure helpers

def compact(ordered: Any, strand: Optional[int]) -> tuple:
    """ transcript-ordered bases -> (strand, maximal runs in transcript order); equal iff the base lists are equal """
    step = -1 if strand == -1 else 1
    runs: list = []
    for base in ordered:
        if runs and base == runs[-1][1] + step:
            runs[-1][1] = base
        else:
            runs.append([base, base])
    return (-1 if strand == -1 else 1, tuple((a, b) for a, b in runs))


def compact_to_loc(value: tuple) -> dict:
    strand, runs = value
    return {"parts": [[min(a, b), max(a, b) + 1] for a, b in runs], "strand": strand}


def loc_text(loc: dict) -> str:
    """ the text form antiSMASH uses in qualifiers """
    sign = "-" if loc["strand"] == -1 else "+"
    parts = [f"[{s}:{e}]({sign})" for s, e in loc["parts"]]
    if len(parts) == 1:
        return parts[0]
    return "join{" + ", ".join(parts) + "}"


def show(value: tuple) -> str:
    return loc_text(compact_to_loc(value))


def loc_crosses(loc: dict) -> bool:
    return gen.is_span(loc)


def has_touching_exons(loc: dict) -> bool:
    parts = loc["parts"]
    return any(one[1] == two[0] or one[0] == two[1] for one, two in zip(parts, parts[1:]))


class Feat:
    """ a parsed GenBank feature, reduced to what is compared """
    def __init__(self, bio_feature: Any, index: int) -> None:
        self.type = bio_feature.type
        self.loc = bio_to_loc(bio_feature.location)
        # "join" / "order" of a multi-part location, None for a single part
        self.operator = (getattr(bio_feature.location, "operator", None)
                         if len(bio_feature.location.parts) > 1 else None)
        self.quals = {key: [str(v) for v in values] for key, values in bio_feature.qualifiers.items()}
        self.index = index
        self.bio = bio_feature

    def invariant(self) -> tuple:
        skip = XREF_KEYS.get(self.type, ())
        return tuple(sorted((key, tuple(values)) for key, values in self.quals.items() if key not in skip))

    def first(self, key: str, default: str = "") -> str:
        values = self.quals.get(key)
        return values[0] if values else default

    def ints(self, key: str) -> list:
        return [int(v) for v in self.quals.get(key, [])]


def parse_text(text: str) -> Any:
    from Bio import SeqIO
    records = list(SeqIO.parse(StringIO(text), "genbank"))
    if len(records) != 1:
        raise ValueError(f"{len(records)} records in the GenBank text")
    return records[0]


def features_of(bio_record: Any) -> list:
    return [Feat(feature, index) for index, feature in enumerate(bio_record.features)]


def identity(feat: Feat, key_loc: tuple) -> Any:
    """ what identifies an area independently of its number """
    if feat.type in ("protocluster", "proto_core"):
        return feat.first("product")
    if feat.type == "cand_cluster":
        return (feat.first("kind"), tuple(feat.quals.get("product", [])), key_loc)
    if feat.type == "subregion":
        return feat.first("label")
    if feat.type == "CDS_motif":
        return feat.first("locus_tag")
    return None


def position_key(loc: dict, size: int) -> tuple:
    """ the loader's sort key of an area in a region file of `size` bases: (start, longer first); an area that
        still spans the origin (only possible in the file of a region covering a whole circular record) sorts
        before everything else, by how far before the origin it begins (features/cdscollection.py __lt__) """
    total = sum(e - s for s, e in loc["parts"])
    if loc_crosses(loc):
        first = loc["parts"][0] if loc["strand"] != -1 else loc["parts"][-1]
        return (first[0] - size, -total)
    return (min(p[0] for p in loc["parts"]), -total)


def area_before(one: dict, two: dict, size: int) -> bool:
    """ the loader's order of two areas: an area containing the other comes first (also the other way round),
        otherwise the sort key decides (features/cdscollection.py __lt__) """
    if ring.contains(one, two) and not ring.contains(two, one):
        return True
    if ring.contains(two, one) and not ring.contains(one, two):
        return False
    return position_key(one, size) < position_key(two, size)


# --------------------------------------------------------------------------- the parent, as its own GenBank text

class Parent:
    def __init__(self, text: str) -> None:
        self.text = text
        self.bio = parse_text(text)
        self.seq = str(self.bio.seq)
        self.length = len(self.seq)
        self.feats = features_of(self.bio)
        self.proto_product_by_number = {}
        self.cand_identity_by_number = {}
        self.sub_label_by_number = {}
        for feat in self.feats:
            if feat.type == "protocluster":
                self.proto_product_by_number[int(feat.first("protocluster_number"))] = feat.first("product")
            elif feat.type == "cand_cluster":
                self.cand_identity_by_number[int(feat.first("candidate_cluster_number"))] = feat
            elif feat.type == "subregion":
                self.sub_label_by_number[int(feat.first("subregion_number"))] = feat.first("label")


def record_state(bio_record: Any) -> dict:
    """ everything a SeqRecord holds: its GenBank text plus the attributes the GenBank writer may skip or
        reformat (all annotations incl. comments and structured comments, ids, dbxrefs, letter annotations) """
    return {"text": genbank_text(bio_record),
            "annotations": {str(key): canonical(value) for key, value in bio_record.annotations.items()},
            "attributes": canonical([bio_record.id, bio_record.name, bio_record.description,
                                     list(bio_record.dbxrefs), sorted(bio_record.letter_annotations),
                                     len(bio_record.features)])}


def state_changes(before: dict, after: dict) -> list:
    """ what differs between two states of the same SeqRecord; [] if nothing """
    if before == after:
        return []
    changes: list = []
    for key in sorted(set(before["annotations"]) | set(after["annotations"])):
        if before["annotations"].get(key) != after["annotations"].get(key):
            changes.append({"what": "annotation", "key": key, "before": (before["annotations"].get(key) or "")[:300],
                            "after": (after["annotations"].get(key) or "")[:300]})
    if before["attributes"] != after["attributes"]:
        changes.append({"what": "attributes", "before": before["attributes"], "after": after["attributes"]})
    if before["text"] != after["text"]:
        changes.extend(feature_changes(before["text"], after["text"]))
    return changes


def feature_changes(before: str, after: str) -> list:
    """ what differs between two GenBank texts of the same record, feature by feature """
    if before == after:
        return []
    one, two = parse_text(before), parse_text(after)
    changes: list = []
    if str(one.seq) != str(two.seq):
        changes.append({"what": "sequence"})
    feats_one, feats_two = features_of(one), features_of(two)
    if len(feats_one) != len(feats_two):
        changes.append({"what": "feature_count", "before": len(feats_one), "after": len(feats_two)})
        return changes
    for first, second in zip(feats_one, feats_two):
        crossing = loc_crosses(first.loc)
        if first.type != second.type or first.loc != second.loc:
            changes.append({"what": "location", "type": first.type, "before": loc_text(first.loc),
                            "after": loc_text(second.loc), "feature_crosses_origin": crossing})
        for key in sorted(set(first.quals) | set(second.quals)):
            if first.quals.get(key) != second.quals.get(key):
                changes.append({"what": "qualifier", "type": first.type, "key": key,
                                "before": first.quals.get(key), "after": second.quals.get(key),
                                "feature_crosses_origin": crossing})
    if not changes:
        changes.append({"what": "header_or_layout"})
    return changes


# --------------------------------------------------------------------------- one region file against the parent text

class FileJudgement:
    def __init__(self) -> None:
        self.violations: list = []      # (clause, detail)
        self.repairable = True
        self.matched: list = []         # (file Feat, parent Feat)
        self.ties = False


def judge_file(text: str, parent: Parent, rmap: RegionMap, info: dict) -> tuple:
    """ file-level clauses; returns (judgement, parsed file record or None) """
    out = FileJudgement()

    def bad(clause: str, detail: dict) -> None:
        detail = dict(detail)
        detail.update(info)
        out.violations.append((clause, detail))

    try:
        bio = parse_text(text)
    except Exception as err:  # pylint: disable=broad-except
        bad("parse_failed", {"exception": type(err).__name__, "message": str(err)[:300]})
        out.repairable = False
        return out, None

    # ---- sequence
    want_seq = rmap.sequence(parent.seq)
    got_seq = str(bio.seq)
    if got_seq != want_seq:
        bad("sequence", {"got_length": len(got_seq), "want_length": len(want_seq),
                         "got_head": got_seq[:30], "want_head": want_seq[:30]})
        out.repairable = False

    # ---- features: exactly the parent's features inside the region, covering the same bases
    expected = collections.defaultdict(list)
    for feat in parent.feats:
        if not rmap.inside(feat.loc["parts"]):
            continue
        key = (feat.type, compact(rmap.ordered_in_region(feat.loc), feat.loc["strand"]), feat.invariant())
        expected[key].append(feat)
    files = features_of(bio)
    unmatched_file: list = []
    remaining = {key: list(values) for key, values in expected.items()}
    for feat in files:
        key = (feat.type, compact(ordered_bases(feat.loc), feat.loc["strand"]), feat.invariant())
        if remaining.get(key):
            out.matched.append((feat, remaining[key].pop(0)))
        else:
            unmatched_file.append(feat)
    missing = [feat for values in remaining.values() for feat in values]
    if missing:
        sample = sorted(missing, key=lambda f: f.index)[:4]
        bad("features_missing", {"count": len(missing), "count_origin_spanning_with_touching_exons": sum(
            1 for f in missing if loc_crosses(f.loc) and has_touching_exons(f.loc)), "missing": [
            {"type": f.type, "parent_location": loc_text(f.loc),
             "want": show(compact(rmap.ordered_in_region(f.loc), f.loc["strand"])),
             "file_same_type": [loc_text(g.loc) for g in unmatched_file if g.type == f.type][:3],
             "crosses_origin": loc_crosses(f.loc)} for f in sample]})
        out.repairable = False
    if unmatched_file:
        # a file feature with no counterpart: is it a parent feature that is not inside the region at all?
        sample = []
        outsiders = 0
        for feat in unmatched_file:
            origin = None
            for cand in parent.feats:
                if cand.type == feat.type and cand.invariant() == feat.invariant():
                    origin = cand
                    break
            is_outsider = bool(origin is not None and not rmap.inside(origin.loc["parts"])
                               and not any(origin is m for values in remaining.values() for m in values))
            outsiders += is_outsider
            if len(sample) < 4:
                sample.append({"type": feat.type, "file_location": loc_text(feat.loc),
                               "parent_location": loc_text(origin.loc) if origin else None,
                               "parent_feature_crosses_origin": bool(origin and loc_crosses(origin.loc)),
                               "parent_feature_inside_region": bool(origin and rmap.inside(origin.loc["parts"]))})
        if not missing:
            bad("features_extra", {"count": len(unmatched_file), "extra": sample,
                                   "all_are_parent_features_outside_the_region": outsiders == len(unmatched_file),
                                   "all_cross_origin": all(s["parent_feature_crosses_origin"] for s in sample)})

    # ---- a multi-part feature keeps its operator (join/order): the file is an extract, not a reinterpretation
    wrong_operator = [(feat, origin) for feat, origin in out.matched
                      if feat.operator is not None and origin.operator is not None and feat.operator != origin.operator]
    if wrong_operator:
        bad("operator", {"count": len(wrong_operator), "features": [
            {"type": feat.type, "parent_location": loc_text(origin.loc), "parent_operator": origin.operator,
             "file_location": loc_text(feat.loc), "file_operator": feat.operator,
             "after_origin": bool(rmap.crosses and max(p[1] for p in origin.loc["parts"]) <= rmap.end),
             "crosses_origin": loc_crosses(origin.loc)} for feat, origin in wrong_operator[:4]]})

    # ---- numbering of the areas in the file (all file features of the type, matched or not)
    by_type = collections.defaultdict(list)
    for feat, origin in out.matched:
        by_type[feat.type].append((feat, origin))
    number_of: dict = {kind: {} for kind in AREA_TYPES}       # identity -> file number
    ident_of: dict = {kind: {} for kind in AREA_TYPES}        # file number -> identity
    for kind in AREA_TYPES:
        pairs = by_type.get(kind, [])
        numbers = []
        for feat, origin in pairs:
            number = int(feat.first(NUMBER_KEY[kind], "0"))
            numbers.append(number)
            ident = identity(feat, compact(ordered_bases(feat.loc), 1))
            number_of[kind][ident] = number
            ident_of[kind].setdefault(number, ident)
        parents = [int(origin.first(NUMBER_KEY[kind], "0")) for _, origin in pairs]
        if sorted(numbers) != list(range(1, len(pairs) + 1)):
            bad("area_numbers", {"kind": kind, "file": sorted(numbers), "parent": sorted(parents)})
        else:
            # the loader numbers by position: the file's numbers must follow (start, -length)
            keyed = sorted(pairs, key=lambda pair: int(pair[0].first(NUMBER_KEY[kind])))
            keys = [position_key(feat.loc, rmap.size) for feat, _ in keyed]
            if len(set(keys)) != len(keys):
                out.ties = True
            wrong = [(i, j) for i, j in itertools.combinations(range(len(keys)), 2)
                     if area_before(keyed[j][0].loc, keyed[i][0].loc, rmap.size)]
            if wrong:
                bad("number_order", {"kind": kind,
                                     "by_number": [loc_text(feat.loc) for feat, _ in keyed],
                                     "parent_by_number": [loc_text(origin.loc) for _, origin in keyed],
                                     "parent_numbers_by_file_number": [int(origin.first(NUMBER_KEY[kind]))
                                                                       for _, origin in keyed],
                                     "first_part_starts_by_file_number": [feat.loc["parts"][0][0]
                                                                          for feat, _ in keyed],
                                     "spanning_area_in_file": any(loc_crosses(feat.loc) for feat, _ in keyed)})
    for feat, origin in by_type.get("proto_core", []):
        product = feat.first("product")
        number = int(feat.first("protocluster_number", "0"))
        if number_of["protocluster"].get(product) != number:
            bad("core_number", {"product": product, "proto_core": number,
                                "protocluster": number_of["protocluster"].get(product)})

    # ---- cross references, by identity
    for feat, origin in by_type.get("protocluster", []):
        parent_text = origin.first("core_location")
        want = compact(rmap.ordered_in_region(parse_location_text(parent_text)), 1)
        got_text = feat.first("core_location")
        try:
            got = compact(ordered_bases(parse_location_text(got_text)), 1)
        except ValueError:
            got = None
        if got != want:
            bad("core_location", {"product": feat.first("product"), "file": got_text, "parent": parent_text,
                                  "want": show(want), "core_crosses_origin": loc_crosses(parse_location_text(parent_text))})
    for feat, origin in by_type.get("cand_cluster", []):
        want = sorted(parent.proto_product_by_number.get(num, f"?{num}") for num in origin.ints("protoclusters"))
        got = sorted(str(ident_of["protocluster"].get(num, f"?{num}")) for num in feat.ints("protoclusters"))
        if got != want:
            bad("candidate_refs", {"candidate": loc_text(feat.loc), "file_numbers": feat.ints("protoclusters"),
                                   "parent_numbers": origin.ints("protoclusters"), "resolve_to": got, "want": want})
    for feat, origin in by_type.get("region", []):
        for key, kind, lookup in (("candidate_cluster_numbers", "cand_cluster", parent.cand_identity_by_number),
                                  ("subregion_numbers", "subregion", parent.sub_label_by_number)):
            want_idents = []
            for num in origin.ints(key):
                member = lookup.get(num)
                if kind == "cand_cluster" and member is not None:
                    member = identity(member, compact(rmap.ordered_in_region(member.loc), 1))
                want_idents.append(member)
            want_numbers = sorted(number_of[kind].get(ident, -1) for ident in want_idents)
            got_numbers = sorted(feat.ints(key))
            if got_numbers != want_numbers:
                bad("region_refs", {"key": key, "file": got_numbers, "parent": sorted(origin.ints(key)),
                                    "want": want_numbers})
    for feat, origin in by_type.get("CDS_motif", []):
        for key in ("leader_location", "tail_location"):
            if key not in origin.quals and key not in feat.quals:
                continue
            parent_text = origin.first(key)
            parent_loc = parse_location_text(parent_text)
            want = compact(rmap.ordered_in_region(parent_loc), parent_loc["strand"])
            got_text = feat.first(key)
            try:
                got_loc = parse_location_text(got_text)
                got = compact(ordered_bases(got_loc), got_loc["strand"])
            except ValueError:
                got_loc, got = None, None
            if got != want:
                naive = got_loc is not None and sorted(got_loc["parts"]) == sorted(
                    [s - rmap.start, e - rmap.start] for s, e in parent_loc["parts"])
                bad("motif_refs", {"key": key, "locus_tag": feat.first("locus_tag"), "file": got_text,
                                   "parent": parent_text, "want": show(want),
                                   "file_is_parent_minus_region_start": naive,
                                   "referenced_part_after_origin": any(s < rmap.start for s, _ in parent_loc["parts"])})
    return out, bio


def repaired_record(bio: Any, judgement: FileJudgement, parent: Parent, rmap: RegionMap) -> Any:
    """ the parsed file with unmatched features dropped and every cross reference rewritten from the oracle
        (numbers by position, references by identity, locations shifted); used only to look for *further*
        problems behind an already recorded file-level violation """
    by_kind = collections.defaultdict(list)
    for feat, origin in judgement.matched:
        by_kind[feat.type].append((feat, origin))
    numbers: dict = {}
    for kind in AREA_TYPES:
        def compare(one: tuple, two: tuple) -> int:
            if area_before(one[0].loc, two[0].loc, rmap.size):
                return -1
            if area_before(two[0].loc, one[0].loc, rmap.size):
                return 1
            return one[0].index - two[0].index
        ordered = sorted(by_kind.get(kind, []), key=functools.cmp_to_key(compare))
        numbers[kind] = {identity(feat, compact(ordered_bases(feat.loc), 1)): index + 1
                         for index, (feat, _) in enumerate(ordered)}
    keep = []
    for feat, origin in sorted(judgement.matched, key=lambda pair: pair[0].index):
        quals = feat.bio.qualifiers
        ident = identity(feat, compact(ordered_bases(feat.loc), 1))
        if feat.type in ("protocluster", "proto_core"):
            quals["protocluster_number"] = [str(numbers["protocluster"][ident])]
            if feat.type == "protocluster":
                want = compact(rmap.ordered_in_region(parse_location_text(origin.first("core_location"))), 1)
                quals["core_location"] = [show(want)]
        elif feat.type == "cand_cluster":
            quals["candidate_cluster_number"] = [str(numbers["cand_cluster"][ident])]
            products = [parent.proto_product_by_number[num] for num in origin.ints("protoclusters")]
            quals["protoclusters"] = [str(numbers["protocluster"][product]) for product in products]
        elif feat.type == "subregion":
            quals["subregion_number"] = [str(numbers["subregion"][ident])]
        elif feat.type == "region":
            cands = []
            for num in origin.ints("candidate_cluster_numbers"):
                member = parent.cand_identity_by_number[num]
                cands.append(numbers["cand_cluster"][identity(member, compact(rmap.ordered_in_region(member.loc), 1))])
            subs = [numbers["subregion"][parent.sub_label_by_number[num]] for num in origin.ints("subregion_numbers")]
            for key, values in (("candidate_cluster_numbers", cands), ("subregion_numbers", subs)):
                if values:
                    quals[key] = [str(v) for v in values]
                else:
                    quals.pop(key, None)
        elif feat.type == "CDS_motif":
            for key in ("leader_location", "tail_location"):
                if key in origin.quals:
                    parent_loc = parse_location_text(origin.first(key))
                    quals[key] = [show(compact(rmap.ordered_in_region(parent_loc), parent_loc["strand"]))]
        keep.append(feat.bio)
    bio.features = keep
    return bio


# --------------------------------------------------------------------------- the reloaded record against the parent objects

def operator_label(location: Any) -> str:
    """ "order" for a multi-part location with that operator, "" for join and single parts """
    if len(location.parts) > 1 and getattr(location, "operator", "join") == "order":
        return "order"
    return ""


def expected_content(record: Any, region: Any, rmap: RegionMap) -> dict:
    from antismash.common.secmet.features import Prepeptide

    def mapped(location: Any) -> str:
        loc = ring.from_bio(location)
        return show(compact(rmap.ordered_in_region(loc), loc["strand"]))

    def inside(feature: Any) -> bool:
        return rmap.inside(ring.from_bio(feature.location)["parts"])


    protos: dict = {}
    for cand in region.candidate_clusters:
        for proto in cand.protoclusters:
            protos[proto.product] = proto
    content = {
        "protoclusters": sorted([p.product, type(p).__name__, p.tool, mapped(p.location), mapped(p.core_location)]
                                for p in protos.values()),
        "candidates": sorted([str(c.kind), sorted(p.product for p in c.protoclusters), mapped(c.location)]
                             for c in region.candidate_clusters),
        "subregions": sorted([s.label, type(s).__name__, s.tool, mapped(s.location)] for s in region.subregions),
        "region_subregions": sorted(s.label for s in region.subregions),
        "cds": sorted([c.get_name(), mapped(c.location), c.translation, sorted(str(f) for f in c.gene_functions)]
                      for c in record.get_cds_features() if inside(c)),
        "genes": sorted([g.get_name(), mapped(g.location)] for g in record.get_genes() if inside(g)),
        "generics": sorted([f.type, mapped(f.location), sorted(f.notes), operator_label(f.location)]
                           for f in record.get_generics() if inside(f)),
        "pfams": sorted([d.domain_id, mapped(d.location), int(d.protein_location.start), int(d.protein_location.end),
                         d.identifier, d.locus_tag] for d in record.get_pfam_domains() if inside(d)),
        "asdomains": sorted([d.domain_id, mapped(d.location), int(d.protein_location.start),
                             int(d.protein_location.end), d.domain, d.locus_tag]
                            for d in record.get_antismash_domains() if inside(d)),
    }
    motifs, prepeptides = [], []
    for motif in record.get_cds_motifs():
        if isinstance(motif, Prepeptide):
            if inside(motif):
                prepeptides.append([motif.get_name(), mapped(motif.location), motif.leader, motif.core, motif.tail,
                                    motif.peptide_class])
        elif inside(motif):
            motifs.append([motif.domain_id, mapped(motif.location), int(motif.protein_location.start),
                           int(motif.protein_location.end), motif.locus_tag])
    content["motifs"] = sorted(motifs)
    content["prepeptides"] = sorted(prepeptides)
    return content


def reloaded_content(record: Any) -> dict:
    """ the same description of a reloaded region record (coordinates are already the region's own) """
    from antismash.common.secmet.features import Prepeptide

    def plain(location: Any) -> str:
        loc = ring.from_bio(location)
        return show(compact(ordered_bases(loc), loc["strand"]))

    region = record.get_regions()[0]
    content = {
        "protoclusters": sorted([p.product, type(p).__name__, p.tool, plain(p.location), plain(p.core_location)]
                                for p in record.get_protoclusters()),
        "candidates": sorted([str(c.kind), sorted(p.product for p in c.protoclusters), plain(c.location)]
                             for c in record.get_candidate_clusters()),
        "subregions": sorted([s.label, type(s).__name__, s.tool, plain(s.location)] for s in record.get_subregions()),
        "region_candidates": sorted([str(c.kind), sorted(p.product for p in c.protoclusters), plain(c.location)]
                                    for c in region.candidate_clusters),
        "region_subregions": sorted(s.label for s in region.subregions),
        "cds": sorted([c.get_name(), plain(c.location), c.translation, sorted(str(f) for f in c.gene_functions)]
                      for c in record.get_cds_features()),
        "genes": sorted([g.get_name(), plain(g.location)] for g in record.get_genes()),
        "generics": sorted([f.type, plain(f.location), sorted(f.notes), operator_label(f.location)]
                           for f in record.get_generics()),
        "pfams": sorted([d.domain_id, plain(d.location), int(d.protein_location.start), int(d.protein_location.end),
                         d.identifier, d.locus_tag] for d in record.get_pfam_domains()),
        "asdomains": sorted([d.domain_id, plain(d.location), int(d.protein_location.start),
                             int(d.protein_location.end), d.domain, d.locus_tag]
                            for d in record.get_antismash_domains()),
    }
    motifs, prepeptides = [], []
    for motif in record.get_cds_motifs():
        if isinstance(motif, Prepeptide):
            prepeptides.append([motif.get_name(), plain(motif.location), motif.leader, motif.core, motif.tail,
                                motif.peptide_class])
        else:
            motifs.append([motif.domain_id, plain(motif.location), int(motif.protein_location.start),
                           int(motif.protein_location.end), motif.locus_tag])
    content["motifs"] = sorted(motifs)
    content["prepeptides"] = sorted(prepeptides)
    content["region_location"] = plain(region.location)
    content["sequence_length"] = len(record.seq)
    return content


NUMBER_DEPENDENT = ("candidates", "region_candidates", "region_subregions")


def judge_reload(path: str, want: dict, size: int, ties: bool, info: dict, suffix: str = "") -> list:
    from antismash.common.secmet.record import Record
    problems: list = []

    def bad(clause: str, detail: dict) -> None:
        detail = dict(detail)
        detail.update(info)
        problems.append((clause + suffix, detail))

    try:
        records = Record.from_genbank(path)
    except Exception as err:  # pylint: disable=broad-except
        bad("reload_failed", {"exception": type(err).__name__, "message": str(err)[:300]})
        return problems
    if len(records) != 1 or len(records[0].get_regions()) != 1:
        bad("reload_regions", {"records": len(records),
                               "regions": [str(r.location) for rec in records for r in rec.get_regions()]})
        return problems
    got = reloaded_content(records[0])
    want = dict(want)
    want["region_candidates"] = want["candidates"]
    want["region_location"] = f"[0:{size}](+)"
    want["sequence_length"] = size
    for section in sorted(want):
        if ties and section in NUMBER_DEPENDENT:
            continue
        if got[section] != want[section]:
            if isinstance(want[section], list):
                missing = [item for item in want[section] if item not in got[section]][:3]
                extra = [item for item in got[section] if item not in want[section]][:3]
            else:
                missing, extra = want[section], got[section]
            bad("reload_content", {"section": section, "missing": missing, "extra": extra})
    return problems


# --------------------------------------------------------------------------- preconditions (C05/C06 are judged elsewhere)

def structure_problem(record: Any, length: int) -> Optional[str]:
    regions = record.get_regions()
    region_bases = []
    for region in regions:
        loc = ring.from_bio(region.location)
        if loc["strand"] != 1 or len(loc["parts"]) > 2:
            return "region location is not a forward arc"
        if len(loc["parts"]) == 2:
            (s1, e1), (s2, e2) = loc["parts"]
            if not (e1 == length and s2 == 0 and e2 <= s1 and record.is_circular()):
                return "two-part region that is not an origin-spanning arc"
        region_bases.append(ring.bases(loc))
    for one, two in itertools.combinations(region_bases, 2):
        if one & two:
            return "regions overlap"
    areas = []
    for region in regions:
        for cand in region.candidate_clusters:
            areas.append((cand, region))
            for proto in cand.protoclusters:
                areas.append((proto, region))
        for sub in region.subregions:
            areas.append((sub, region))
    members = {id(area) for area, _ in areas}
    everything = list(record.get_protoclusters()) + list(record.get_candidate_clusters()) + list(record.get_subregions())
    if any(id(area) not in members for area in everything):
        return "an area belongs to no region"
    for area, region in areas:
        bases = ring.bases(ring.from_bio(area.location))
        for other, other_bases in zip(regions, region_bases):
            if other is region:
                if not bases <= other_bases:
                    return "an area is not contained in its region"
            elif bases & other_bases:
                return "an area overlaps a region it does not belong to"
    return None


# --------------------------------------------------------------------------- the property body

def _most_novel(sub: str, spec: dict, violations: list) -> Violation:
    for clause, detail in violations:
        if not any(sig(sub, spec, clause, detail) for sig in SIGNATURES.values()):
            return Violation(clause, detail)
    clause, detail = violations[0]
    return Violation(clause, detail)


def caller_record(record: Any, spec: dict) -> Any:
    """ the SeqRecord a caller hands to Region.write_to_genbank(record=...): Record.to_biopython(), whose
        multi-part misc features carry the operator of the spec. On the unchanged tree that is what to_biopython()
        returns already (nothing is touched); where the record itself cannot hold an "order" feature any more
        (operator lost on the way in), the caller's SeqRecord still can, and its region file has to follow it """
    from antismash.common.secmet.locations import CompoundLocation
    bio = record.to_biopython()
    wanted = {f"misc {index}": misc["loc"]["operator"] for index, misc in enumerate(spec.get("misc", []))
              if len(misc["loc"]["parts"]) > 1 and misc["loc"].get("operator")}
    for feature in bio.features:
        if feature.type != "misc_feature" or len(feature.location.parts) < 2:
            continue
        operator = wanted.get((feature.qualifiers.get("note") or [""])[0])
        if operator and feature.location.operator != operator:
            feature.location = CompoundLocation(list(feature.location.parts), operator=operator)
    return bio


def check_region_files(spec: dict, sub: str = "files", beyond_known: bool = False) -> dict:
    try:
        record = build_record(spec)
    except Exception as err:  # a generator defect, not a finding
        raise AssertionError(f"C12 generator built an invalid record: {err!r}") from err
    try:
        record.create_candidate_clusters()
        record.create_regions()
    except Exception:  # pylint: disable=broad-except
        return {"nontrivial": False, "classes": ["excluded_area_creation_failed"]}
    regions = record.get_regions()
    if not regions:
        return {"nontrivial": False, "classes": ["no_regions"]}
    length = spec["L"]
    if structure_problem(record, length):
        return {"nontrivial": False, "classes": ["excluded_region_structure"]}

    shared_mode = spec.get("mode") == "shared"
    if shared_mode:
        # what antismash.main.add_antismash_comments puts on the records before the region files are written
        record.annotations["structured_comment"] = {"antiSMASH-Data": {"Version": "8.dev",
                                                                         "Run date": "2000-01-01 00:00:00"}}
    parent_state = record_state(record.to_biopython())
    parent_text = parent_state["text"]
    # the reference for the file-level clauses is the record the writer gets: in shared mode the caller's SeqRecord
    parent = Parent(genbank_text(caller_record(record, spec)) if shared_mode else parent_text)
    violations: list = []
    classes = ["mode_shared" if shared_mode else "mode_fresh", "circular" if spec["circular"] else "linear",
               f"regions_{min(len(regions), 4)}"]
    nontrivial = len(regions) >= 2

    tmp = tempfile.mkdtemp(prefix="verif_c12_")
    try:
        shared = caller_record(record, spec) if shared_mode else None
        shared_state = record_state(shared) if shared_mode else None
        for index, region in enumerate(regions):
            loc = ring.from_bio(region.location)
            crosses = len(loc["parts"]) == 2
            start = loc["parts"][0][0]
            end = loc["parts"][-1][1]
            rmap = RegionMap(start, end, length)
            info = {"region": index + 1, "start": start, "end": end, "crosses": crosses, "L": length,
                    "multipart_feature_spans_region": any(
                        len(f.loc["parts"]) > 1 and rmap.inside(f.loc["parts"]) and not loc_crosses(f.loc)
                        and min(p[0] for p in f.loc["parts"]) == start and max(p[1] for p in f.loc["parts"]) == end
                        for f in parent.feats)}
            want = expected_content(record, region, rmap)
            # --- classes
            labels = ["region_spans_origin" if crosses else "region_plain"]
            if not crosses and start == 0:
                labels.append("region_touches_0")
            if not crosses and end == length:
                labels.append("region_touches_end")
            if not crosses and start == 0 and end == length:
                labels.append("region_is_whole_linear_record" if not spec["circular"]
                              else "region_is_whole_circular_record")
                if any(loc_crosses(ring.from_bio(area.location))
                       for area in list(region.candidate_clusters) + list(region.subregions)):
                    labels.append("whole_circle_region_with_spanning_area")
            if index >= 1:
                labels.append("later_region")
                if region.candidate_clusters:
                    labels.append("later_region_with_candidates")
                if region.subregions:
                    labels.append("later_region_with_subregions")
            if len(region.candidate_clusters) >= 2:
                labels.append("region_multi_candidate")
            if len(region.subregions) >= 2:
                labels.append("region_multi_subregion")
            if want["prepeptides"]:
                labels.append("region_with_prepeptide")
            if want["pfams"] or want["asdomains"] or want["motifs"]:
                labels.append("region_with_domains")
            if any(loc_crosses(f.loc) and rmap.inside(f.loc["parts"]) for f in parent.feats if f.type == "CDS"):
                labels.append("region_with_origin_spanning_gene")
            if any(loc_crosses(f.loc) and not rmap.inside(f.loc["parts"]) for f in parent.feats) and crosses:
                labels.append("origin_spanning_feature_sticking_out")
            for feat in parent.feats:
                if feat.operator == "order" and rmap.inside(feat.loc["parts"]):
                    if not crosses:
                        labels.append("order_feature_in_plain_region_" + ("circular" if spec["circular"] else "linear"))
                    elif loc_crosses(feat.loc):
                        labels.append("order_feature_across_origin")
                    elif feat.loc["parts"][0][0] >= start:
                        labels.append("order_feature_before_origin")
                    else:
                        labels.append("order_feature_after_origin")
            classes.extend(labels)
            if info["multipart_feature_spans_region"]:
                labels.append("multipart_feature_spans_region")
            if crosses or want["prepeptides"] or len(region.candidate_clusters) >= 2:
                nontrivial = True

            # --- write
            # (as antismash.main calls it: output directory, default file name)
            present = set(os.listdir(tmp))
            try:
                region.write_to_genbank(directory=tmp, record=shared)
                created = sorted(set(os.listdir(tmp)) - present)
                if len(created) != 1:
                    raise FileNotFoundError(f"{len(created)} new files in the output directory, "
                                            f"present: {sorted(os.listdir(tmp))}")
            except Exception as err:  # pylint: disable=broad-except
                detail = {"exception": type(err).__name__, "message": str(err)[:300]}
                detail.update(info)
                violations.append(("write_failed", detail))
                if shared_mode:
                    shared = caller_record(record, spec)
                    shared_state = record_state(shared)
                continue
            path = os.path.join(tmp, created[0])
            if shared_mode:
                after = record_state(shared)
                if after != shared_state:
                    detail = {"changes": state_changes(shared_state, after)[:8]}
                    detail.update(info)
                    violations.append(("parent_changed_shared", detail))
                    shared = caller_record(record, spec)      # later regions are written from an undamaged record
                    shared_state = record_state(shared)
            # --- the file
            with open(path, encoding="utf-8") as handle:
                text = handle.read()
            judgement, bio = judge_file(text, parent, rmap, info)
            violations.extend(judgement.violations)
            if judgement.ties:
                classes.append("region_with_tied_areas")
            if not judgement.violations:
                violations.extend(judge_reload(path, want, rmap.size, judgement.ties, info))
            elif judgement.repairable and bio is not None:
                classes.append("reload_after_repair")
                from Bio import SeqIO
                fixed = os.path.join(tmp, "repaired")       # kept out of the listing compared above
                SeqIO.write([repaired_record(bio, judgement, parent, rmap)], fixed, "genbank")
                violations.extend(judge_reload(fixed, want, rmap.size, judgement.ties, info, "_after_repair"))
                os.unlink(fixed)
        after_all = record_state(record.to_biopython())
        if after_all != parent_state:
            violations.append(("parent_changed", {"changes": state_changes(parent_state, after_all)[:8]}))
    finally:
        shutil.rmtree(tmp, ignore_errors=True)

    if beyond_known:
        # measurement and search behind the known findings: violations that match a known signature become
        # class labels (the strict subchecks report them), anything else is raised
        for clause, detail in violations:
            names = [name for name, sig in SIGNATURES.items() if sig(sub, spec, clause, detail)]
            if not names:
                raise Violation(clause, detail)
            classes.extend(f"hits_known_{name}" for name in names)
    elif violations:
        raise _most_novel(sub, spec, violations)
    return {"nontrivial": nontrivial, "classes": sorted(set(classes))}


def check_family(spec: dict) -> dict:
    return check_region_files(spec, "family_enum")


def check_beyond_known(spec: dict) -> dict:
    return check_region_files(spec, "beyond_known", beyond_known=True)


SUBCHECKS = {
    "files": check_region_files,
    "family_enum": check_family,
    "beyond_known": check_beyond_known,
}


# --------------------------------------------------------------------------- known findings (narrow: input class AND failure mode)

def sig_region_refs_not_renumbered(sub, spec, clause, detail) -> bool:
    """ the region feature's own candidate_cluster_numbers / subregion_numbers still carry the parent's numbers
        although the members were renumbered """
    return (clause == "region_refs" and detail["file"] == detail["parent"] and detail["file"] != detail["want"])


def sig_shared_record_qualifiers_of_origin_features(sub, spec, clause, detail) -> bool:
    """ writing an origin-spanning region rewrites qualifiers of the caller's own origin-spanning features """
    if clause != "parent_changed_shared" or not detail["crosses"]:
        return False
    changes = detail["changes"]
    return bool(changes) and all(change["what"] == "qualifier" and change["feature_crosses_origin"]
                                 and change["key"] in ("core_location", "leader_location", "tail_location",
                                                       "protocluster_number", "candidate_cluster_number",
                                                       "protoclusters", "subregion_number",
                                                       "candidate_cluster_numbers", "subregion_numbers")
                                 for change in changes)


def sig_motif_refs_after_origin(sub, spec, clause, detail) -> bool:
    """ leader/tail of a prepeptide lying after the origin in an origin-spanning region: shifted without wrapping """
    return (clause == "motif_refs" and detail["crosses"] and detail["referenced_part_after_origin"]
            and detail["file_is_parent_minus_region_start"])


def sig_origin_region_numbering(sub, spec, clause, detail) -> bool:
    """ origin-spanning region: numbers are 'parent number - smallest + 1', which is neither 1..n nor the
        loader's order when an area before the origin sits next to areas at/after it """
    if not detail.get("crosses"):
        return False
    if clause == "area_numbers":
        parent = detail["parent"]
        return detail["file"] == [num - parent[0] + 1 for num in parent] and parent != list(
            range(parent[0], parent[0] + len(parent)))
    if clause == "number_order":
        # the file keeps the parent's order of numbers
        numbers = detail["parent_numbers_by_file_number"]
        return numbers == sorted(numbers)
    return False


def sig_origin_features_outside_region(sub, spec, clause, detail) -> bool:
    """ origin-spanning region: every origin-spanning feature of the record is copied, inside the region or not """
    return (clause == "features_extra" and detail["crosses"] and detail["all_cross_origin"]
            and detail["all_are_parent_features_outside_the_region"])


def sig_region_sized_multipart_feature(sub, spec, clause, detail) -> bool:
    """ a multi-exon feature reaching from the first to the last base of a (linear) region: the loader takes it
        for an origin-spanning feature in a linear record """
    return (clause in ("reload_failed", "reload_failed_after_repair") and not detail["crosses"]
            and detail["multipart_feature_spans_region"]
            and "origin spanning exon while in a linear record" in detail["message"])


def sig_touching_exons_over_origin(sub, spec, clause, detail) -> bool:
    """ origin-spanning feature with exons that touch (end == next start): offset_location's merge loop loses
        the first of three adjacent parts """
    return (clause == "features_missing" and detail["crosses"]
            and detail["count"] == detail["count_origin_spanning_with_touching_exons"])


def sig_whole_circle_numbering(sub, spec, clause, detail) -> bool:
    """ region covering a whole circular record with an area that spans the origin: the file stays circular and
        keeps that area in two parts, the loader sorts it first, the writer numbers it by the start of its first
        part """
    if clause != "number_order" or detail["crosses"] or not spec["circular"]:
        return False
    if not (detail["start"] == 0 and detail["end"] == detail["L"] and detail["spanning_area_in_file"]):
        return False
    starts = detail["first_part_starts_by_file_number"]
    return starts == sorted(starts)


SIGNATURES = {
    "whole_circle_numbering": sig_whole_circle_numbering,
    "touching_exons_over_origin": sig_touching_exons_over_origin,
    "region_sized_multipart_feature": sig_region_sized_multipart_feature,
    "region_refs_not_renumbered": sig_region_refs_not_renumbered,
    "shared_record_qualifiers_of_origin_features": sig_shared_record_qualifiers_of_origin_features,
    "motif_refs_after_origin": sig_motif_refs_after_origin,
    "origin_region_numbering": sig_origin_region_numbering,
    "origin_features_outside_region": sig_origin_features_outside_region,
}


# --------------------------------------------------------------------------- generators

def _arc_loc(start: int, size: int, length: int, strand: int = 1) -> dict:
    loc = ring.arc_to_loc(start % length, size, length, strand)
    loc["kind"] = "span" if len(loc["parts"]) > 1 else "simple"
    return loc


def _maybe_order(draw, loc: dict) -> dict:
    """ half of the multi-part non-CDS features get the operator "order" (GenBank order(a..b,c..d)) instead of
        "join"; the loader keeps it (Feature.from_biopython -> location_from_biopython).
        Features that cross the origin are included: offset_location's wrapping path used to rebuild the location
        without the operator (witness: L=200 circular, region [150:200)+[0:50), misc_feature
        order(191..200,1..5,11..15) -> join(41..55,61..65)); repaired in /repo, see known_findings.json """
    # an exon lying over the origin is two parts in the record and one in the file of a region over the origin: the
    # operator can only be carried when two parts or more remain
    remaining = len(loc["parts"]) - (1 if gen.is_span(loc) and any(part[0] == 0 for part in loc["parts"]) else 0)
    if remaining > 1 and draw(st.booleans()):
        loc = dict(loc)
        loc["operator"] = "order"
    return loc


def _order_loc(draw, low: int, high: int) -> dict:
    """ a two- or three-part "order" location inside [low:high), parts not touching; needs high - low >= 3 """
    count = 6 if high - low >= 5 and draw(st.booleans()) else 4
    cuts = sorted(draw(st.lists(st.integers(low, high), min_size=count, max_size=count, unique=True)))
    parts = [[cuts[i], cuts[i + 1]] for i in range(0, count, 2)]
    strand = draw(st.sampled_from([1, -1]))
    if strand == -1:
        parts.reverse()
    return {"parts": parts, "strand": strand, "kind": "multi", "operator": "order"}


@st.composite
def record_specs(draw) -> dict:
    circular = draw(st.sampled_from([True, True, False]))
    whole_record = draw(st.integers(0, 5)) == 0
    if whole_record:
        circular = draw(st.booleans())
    length = draw(st.sampled_from([240, 600, 900, 1500, 2400]))
    ngroups = draw(st.sampled_from([1, 2, 2, 3, 3, 4]))
    # 2n+1 sizes: gap, width, gap, ..., gap; every width >= 12
    unit = length // (2 * ngroups + 1)
    widths = [draw(st.integers(12, max(12, unit + unit // 2))) for _ in range(ngroups)]
    inner_gaps = [draw(st.sampled_from([0, 1, 2, unit // 3, unit // 2])) for _ in range(ngroups - 1)]
    used = sum(widths) + sum(inner_gaps)
    slack = length - used
    assert slack >= 0
    lead = draw(st.sampled_from([0, 0, 1, slack // 2, slack]))
    trail_zero = draw(st.booleans())
    if trail_zero and not circular:
        lead = slack
    if whole_record:
        # a small contig whose areas reach both of its ends: one group as long as the record, one area covering it
        ngroups, widths, inner_gaps, lead = 1, [length], [], 0
    rotation = 0
    offsets = []
    pos = lead
    for index, width in enumerate(widths):
        offsets.append(pos)
        pos += width + (inner_gaps[index] if index < ngroups - 1 else 0)
    if circular and not whole_record and draw(st.integers(0, 2)) > 0:
        # rotate so that one group spans the origin
        which = draw(st.integers(0, ngroups - 1))
        inside = draw(gen.coord(1, widths[which] - 1))
        rotation = length - (offsets[which] + inside)
    protos, subs, area_arcs = [], [], []
    for group, (offset, width) in enumerate(zip(offsets, widths)):
        nproto = draw(st.sampled_from([0, 1, 1, 2, 2, 3]))
        nsub = draw(st.sampled_from([0, 0, 1, 1, 2]))
        if nproto + nsub == 0:
            nproto = 1
        whole = draw(st.integers(0, nproto + nsub))     # this area covers the whole group (== nproto+nsub: none)
        ring_mode = "plain"
        if whole_record:
            whole = draw(st.integers(0, nproto + nsub - 1))
            if circular:
                # the areas cover every base of the circle: the region is [0:L), an area may still span the origin
                ring_mode = draw(st.sampled_from(["plain", "whole_plus_spanning", "two_arcs"]))
                if ring_mode != "plain" and nproto + nsub < 2:
                    nsub += 1
                if ring_mode == "two_arcs":
                    whole = -1
        spanning_index = (whole + 1) % (nproto + nsub) if ring_mode == "whole_plus_spanning" else -1
        for index in range(nproto + nsub):
            if index == whole:
                a, b = 0, width
            elif index == spanning_index:
                # an arc over the origin, in unrolled coordinates: a < L < b
                a = draw(gen.coord(2, length - 1))
                b = a + draw(st.integers(max(3, length - a + 1), length - 1))
            elif ring_mode == "two_arcs" and index == 0:
                # one arc over the origin ...
                a = draw(gen.coord(length // 2, length - 2))
                reach = draw(gen.coord(2, length // 2 - 1))
                b = length + reach
                two_arcs = (a, reach)
            elif ring_mode == "two_arcs" and index == 1:
                # ... and one covering the rest, overlapping the first at both of its ends
                first_start, reach = two_arcs
                a = reach - draw(st.integers(1, reach))
                b = first_start + draw(st.integers(1, length - first_start))
            else:
                a = draw(gen.coord(0, width - 3))
                b = draw(gen.coord(a + 3, width))
            start = (offset + rotation + a) % length
            loc = _arc_loc(start, b - a, length)
            area_arcs.append((start, b - a))
            if index < nproto:
                c1 = draw(gen.coord(a, b - 1))
                c2 = draw(gen.coord(c1 + 1, b))
                core = _arc_loc((offset + rotation + c1) % length, c2 - c1, length)
                protos.append({"loc": loc, "core": core, "product": f"p{len(protos)}",
                               "side": draw(st.integers(0, 5)) == 0})
            else:
                subs.append({"loc": loc, "label": f"s{len(subs)}", "side": draw(st.integers(0, 5)) == 0})

    # genes: the shared layout plus genes anchored at area boundaries
    genes = draw(gen.gene_layout(length, circular, max_genes=8, size_hint=max(9, unit // 3)))
    # two genes never cover the same bases on the same strand (with touching exons the part lists could differ
    # while the bases agree; merged by the shift they would collide in the region file)
    def gene_key(loc: dict) -> tuple:
        return (ring.bases(loc), loc["strand"])
    seen = {gene_key(g["loc"]) for g in genes}
    for start, size in area_arcs:
        if draw(st.integers(0, 2)) > 0:
            continue
        mode = draw(st.sampled_from(["at_start", "at_end", "across_start", "across_end", "inside", "cover"]))
        gsize = 3 * draw(st.integers(1, max(1, min(size, 60) // 3)))
        if mode == "cover":
            # a gene from the first to the last base of the area, optionally with an intron
            strand = draw(st.sampled_from([1, -1]))
            if start + size <= length and size >= 9 and draw(st.booleans()):
                cut1 = draw(st.integers(start + 3, start + size - 5))
                cut2 = draw(st.integers(cut1 + 1, start + size - 3))
                parts = [[start, cut1], [cut2, start + size]]
                if strand == -1:
                    parts.reverse()
                loc = {"parts": parts, "strand": strand, "kind": "multi"}
            else:
                loc = _arc_loc(start, size, length, strand)
            key = gene_key(loc)
            if key not in seen:
                seen.add(key)
                genes.append({"loc": loc})
            continue
        if mode == "at_start":
            gstart = start
        elif mode == "at_end":
            gstart = start + size - gsize
        elif mode == "across_start":
            gstart = start - draw(st.integers(1, 6))
        elif mode == "across_end":
            gstart = start + size - gsize + draw(st.integers(1, 6))
        else:
            gstart = start + draw(st.integers(0, size - gsize))
        gstart %= length
        if not circular and (gstart + gsize > length):
            continue
        loc = _arc_loc(gstart, gsize, length, draw(st.sampled_from([1, -1])))
        key = gene_key(loc)
        if key in seen:
            continue
        seen.add(key)
        genes.append({"loc": loc})
    if circular and rotation and draw(st.integers(0, 5)) == 0:
        # an origin-spanning gene with two exons that touch each other (join(a..L,1..k,k+1..b))
        strand = draw(st.sampled_from([1, -1]))
        pre = draw(st.integers(1, 12))
        mid = draw(st.integers(1, 9))
        post = mid + draw(st.integers(1, 12))
        if draw(st.booleans()):
            parts = [[length - pre, length], [0, mid], [mid, post]]
        else:
            parts = [[length - pre - mid, length - pre], [length - pre, length], [0, post - mid]]
        if sum(e - s for s, e in parts) >= 3:
            if strand == -1:
                parts.reverse()
            loc = {"parts": parts, "strand": strand, "kind": "span"}
            if gene_key(loc) not in seen:
                seen.add(gene_key(loc))
                genes.append({"loc": loc})
    for index, gene in enumerate(genes):
        gene["name"] = f"g{index}"
        if draw(st.integers(0, 2)) == 0:
            gene["gene_feature"] = True
    misc = [{"loc": _maybe_order(draw, draw(gen.any_location(length, allow_span=circular)))}
            for _ in range(draw(st.sampled_from([0, 0, 1, 2])))]
    for start, size in area_arcs[:2]:
        if draw(st.integers(0, 3)) == 0:     # and one tied to an area: inside it, or exactly its extent
            inner = draw(gen.any_location(size, allow_span=False)) if draw(st.booleans()) else \
                {"parts": [[0, size]], "strand": draw(st.sampled_from([1, -1]))}
            if (start + size <= length):
                misc.append({"loc": _maybe_order(draw, {"parts": [[s + start, e + start] for s, e in inner["parts"]],
                                                        "strand": inner["strand"], "kind": "simple"})})
    # "order" features inside an area that spans the origin: before the origin (only sliced by Biopython) and
    # after it (shifted by the writer), and inside plain areas (linear and circular records)
    for start, size in area_arcs[:3]:
        if start + size > length:
            stretches = [(start, length), (0, start + size - length)]
        else:
            stretches = [(start, start + size)]
        for low, high in stretches:
            if high - low >= 3 and draw(st.integers(0, 2)) == 0:
                misc.append({"loc": _order_loc(draw, low, high)})
        if start + size > length and length - start >= 3 and start + size - length >= 3 and draw(st.integers(0, 1)) == 0:
            # an "order" feature with parts on both sides of the origin (an intron, or an exon, over the origin)
            before = _order_loc(draw, start, length)
            after = _order_loc(draw, 0, start + size - length)
            strand = before["strand"]
            first = sorted(before["parts"])[-draw(st.integers(1, 2)):]
            second = sorted(after["parts"])[:draw(st.integers(1, 2))]
            if len(first) + len(second) >= 3 and draw(st.booleans()):
                # the exon itself crosses the origin (the two halves become one part in the file, which still has
                # two parts or more and therefore an operator)
                first[-1] = [first[-1][0], length]
                second[0] = [0, second[0][1]]
            parts = first + second
            if first[-1][1] == length and second[0][0] == 0 and len(parts) < 3:
                continue        # would be a single part in the file: nothing for an operator to join
            misc.append({"loc": {"parts": parts if strand == 1 else list(reversed(parts)), "strand": strand,
                                 "kind": "span", "operator": "order"}})

    # which genes lie wholly inside an area (prepeptide hosts), which cores they sit in (definition genes)
    area_sets = [ring.arc_bases(start, size, length) for start, size in area_arcs]
    annos = []
    for index, gene in enumerate(genes):
        bases = ring.bases(gene["loc"])
        residues = len(bases) // 3
        in_area = any(bases <= area for area in area_sets)
        cores = [p["product"] for p in protos if bases <= ring.bases(p["core"])]
        if cores and draw(st.integers(0, 1)) == 0:
            gene["core_for"] = cores[:2] if draw(st.booleans()) else cores[:1]
        for _ in range(draw(st.sampled_from([0, 0, 1, 1, 2]))):
            kind = draw(st.sampled_from(["pfam", "asdomain", "motif", "prepeptide", "prepeptide"]))
            if kind == "prepeptide":
                # (sequences longer than one GenBank line would test Biopython's line wrapping, C10's subject)
                if not in_area or gen.is_span(gene["loc"]) or residues < 1 or residues > 40:
                    kind = "motif"
                elif any(a["kind"] == "prepeptide" and a["gene"] == index for a in annos):
                    kind = "pfam"
            if kind == "prepeptide":
                leader = draw(st.integers(0, max(0, residues - 1)))
                tail = draw(st.integers(0, max(0, residues - 1 - leader)))
                annos.append({"kind": kind, "gene": index, "a": 0, "b": residues, "leader": leader, "tail": tail})
            else:
                a = draw(st.integers(0, residues - 1))
                b = draw(st.integers(a + 1, residues))
                annos.append({"kind": kind, "gene": index, "a": a, "b": b})
    return {"L": length, "circular": circular, "seed": draw(st.integers(0, 3)), "genes": genes,
            "protos": protos, "subs": subs, "annos": annos, "misc": misc,
            "mode": draw(st.sampled_from(["fresh", "shared", "shared"]))}


def family_cases():
    """ two groups of areas: position of the groups x area pattern of each x topology x writer mode """
    length = 600
    width = 90
    # (protoclusters as (start, end, core start, core end), subregions as (start, end)), relative to the group
    patterns = {
        "one_proto": ([(0, 90, 20, 60)], []),
        "two_interleaved": ([(0, 70, 10, 50), (20, 90, 40, 80)], []),
        "neighbours": ([(0, 50, 10, 30), (40, 90, 60, 80)], []),
        "proto_and_sub": ([(0, 60, 10, 40)], [(30, 90)]),
        "sub_only": ([], [(0, 90)]),
        "two_subs": ([], [(0, 60), (30, 90)]),
        "nested": ([(0, 90, 10, 80), (20, 50, 25, 45)], [(60, 90)]),
    }
    positions = {"interior": (30, 300), "touch_0": (0, 300), "touch_end": (30, length - width),
                 "touching_groups": (30, 30 + width), "span": (100, 550), "span_one_before": (100, length - 1),
                 "span_one_after": (100, length - width + 1), "whole_record": (0,),
                 "whole_circle_spanning_plus_whole": (0,), "whole_circle_two_arcs": (0,)}
    for circular in (False, True):
        for pos_name, offsets in positions.items():
            if pos_name.startswith("span") and not circular:
                continue
            if pos_name.startswith("whole_circle") and not circular:
                continue
            if pos_name.startswith("whole_"):
                # a contig exactly as long as one group: its region touches both record ends
                combos = [(name,) for name in patterns]
                length = width
            else:
                combos = list(itertools.product(patterns, repeat=2))
                length = 600
            for names in combos:
                for mode in ("fresh", "shared"):
                    protos, subs, genes, annos, misc = [], [], [], [], []
                    for offset, name in zip(offsets, names):
                        for a, b, c1, c2 in patterns[name][0]:
                            protos.append({"loc": _arc_loc(offset + a, b - a, length),
                                           "core": _arc_loc(offset + c1, c2 - c1, length),
                                           "product": f"p{len(protos)}", "side": False})
                        for a, b in patterns[name][1]:
                            subs.append({"loc": _arc_loc(offset + a, b - a, length), "label": f"s{len(subs)}",
                                         "side": False})
                        # a gene at the group start, one in the middle (prepeptide host), one at its end
                        for gstart, gsize, strand in ((0, 12, 1), (30, 30, -1), (width - 12, 12, 1)):
                            number = len(genes)
                            loc = _arc_loc(offset + gstart, gsize, length, strand)
                            genes.append({"name": f"g{number}", "loc": loc})
                            if gstart == 30 and not gen.is_span(loc):
                                annos.append({"kind": "prepeptide", "gene": number, "a": 0, "b": 10,
                                              "leader": 3, "tail": 2})
                            elif gstart == 0:
                                annos.append({"kind": "pfam", "gene": number, "a": 1, "b": 4})
                        # two "order" features per group, near its start and near its end (for a group over the
                        # origin: before / after the origin, depending on the placement), none crossing the origin
                        for rel_parts, strand in (([(2, 6), (8, 11)], 1), ([(72, 76), (64, 68)], -1)):
                            parts = []
                            for a, b in rel_parts:
                                begin = (offset + a) % length
                                assert begin + (b - a) <= length
                                parts.append([begin, begin + (b - a)])
                            misc.append({"loc": {"parts": parts, "strand": strand, "kind": "multi",
                                                 "operator": "order"}})
                    # the areas cover every base of a circle and one of them spans the origin: the region is [0:L)
                    extra = {"whole_circle_spanning_plus_whole": [(70, 40), (0, width)],
                             "whole_circle_two_arcs": [(60, 60), (20, 50)]}.get(pos_name, [])
                    for start, size in extra:
                        subs.append({"loc": _arc_loc(start, size, length), "label": f"s{len(subs)}", "side": False})
                    yield {"L": length, "circular": circular, "seed": 1, "genes": genes, "protos": protos,
                           "subs": subs, "annos": annos, "misc": misc, "mode": mode,
                           "family": [pos_name] + list(names)}


def run(ctx) -> None:
    # a deterministic family, not a complete enumeration of anything
    ctx.enum("family_enum", family_cases, shards=ctx.pick(4, 16), exhaustive=False)
    ctx.hyp("files", record_specs(), max_examples=ctx.pick(200, 3200), shards=ctx.pick(4, 16))
    ctx.hyp("beyond_known", record_specs(), max_examples=ctx.pick(500, 14000), shards=ctx.pick(4, 16))
