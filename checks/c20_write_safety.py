""" C20 - a failed or refused write never damages existing results

    Half one (fault enumeration): a conversion failure is injected at every position of the
    per-record, per-module JSON conversion of AntismashResults.write_to_file / dump_records while a
    file with known bytes sits at the target path.
    Half two: prepare_output_directory / _ignore_patterns over generated directory contents and run
    modes; a refusal has to raise and leave the scratch tree (listing + hashes) unchanged.
    A third subcheck drives main.run_antismash with its collaborators stubbed, so that the place where
    the pipeline calls both (prepare_output_directory, then results.write_to_file) is exercised too.

    Everything on disk happens below one tempfile.mkdtemp() per case, removed in `finally`.
"""

from __future__ import annotations

import contextlib
import fnmatch
import hashlib
import itertools
import json as std_json
import os
import shutil
import tempfile
from typing import Any, Optional

from hypothesis import strategies as st

from vlib.build import make_cds, make_protocluster, make_record
from vlib.runner import Violation

PROPERTY_ID = "C20"
LEVEL = "fault_enumeration"
RULE = ("write_enum: every (records R, modules M, fault position over the R*M module conversions in "
        "conversion order, fault kind, target function, pre-existing bytes, plain/rich records), plus "
        "record-level and top-level fault sites and the fault-free control; write: Hypothesis cases with "
        "several simultaneous faults, larger R/M and random old bytes. A write case is non-trivial when "
        "at least one conversion succeeded before the fault (position > 0, or the fault only fires inside "
        "json.dumps after every to_json returned). dir_enum: every subset (up to a size bound) of 16 entry "
        "classes x run mode (fresh / reuse json inside / reuse json elsewhere) x output dir given or "
        "derived from the input name x working directory (scratch / a sub-directory of the output dir), "
        "plus 'absent' and 'is a file'; dir: Hypothesis trees with random names, nesting, bytes and "
        "symlinks. A directory case is non-trivial when the existing directory mixes entries of different "
        "oracle classes (exempt / other / removable region file). pipeline_enum: run_antismash with stubbed "
        "collaborators over mode x directory state x fault. Enumerated cases are distinct by construction; "
        "random ones are counted by sha1 of the canonical spec.")
ASSUMPTIONS = [
    "faults are exceptions raised by (or unserialisable values returned from) a conversion; process death "
    "between open() and write() is not injected",
    "a 'conversion error' is an Exception subclass (KeyboardInterrupt/SystemExit are not injected)",
    "'reported' means an exception reaches the caller (run_antismash: an exception or a non-zero return)",
    "in reuse mode (input path ends with .json) everything already in the directory counts as 'the results "
    "being reused': no refusal is demanded there, only that nothing but top-level *.region???.gbk files "
    "disappears",
    "'its own input copy' is a top-level directory named input; 'log file' is the path in config.logfile",
    "prepare_output_directory receives what run_antismash passes: config.output_dir (absolute or '') and "
    "the sequence file or the --reuse-results path",
    "the pipeline subcheck replaces read_data, module discovery, prerequisite checks, detection, "
    "annotate_records and write_outputs by stubs; only the control flow of run_antismash/_run_antismash, "
    "prepare_output_directory and write_to_file are real there",
]

REGION_GLOB = "*.region???.gbk"


# --------------------------------------------------------------------------- scratch helpers

def _scratch() -> str:
    """ one private directory per case (tempfile.mkdtemp, removed by the caller in `finally`); placed on
        the memory file system when there is one, because a case is dominated by mkdir/rmdir calls """
    base = "/dev/shm"
    if os.path.isdir(base) and os.access(base, os.W_OK | os.X_OK):
        return tempfile.mkdtemp(prefix="verif_c20_", dir=base)
    return tempfile.mkdtemp(prefix="verif_c20_")


def _snapshot(root: str) -> dict:
    """ recursive listing: relative path -> 'dir' | 'file:<sha1>' | 'link:<target>' """
    out = {}
    for dirpath, dirnames, filenames in os.walk(root):
        for name in dirnames + filenames:
            full = os.path.join(dirpath, name)
            rel = os.path.relpath(full, root)
            if os.path.islink(full):
                out[rel] = "link:" + os.readlink(full)
            elif os.path.isdir(full):
                out[rel] = "dir"
            else:
                with open(full, "rb") as handle:
                    out[rel] = "file:" + hashlib.sha1(handle.read()).hexdigest()
    return out


def _diff(before: dict, after: dict) -> dict:
    return {"removed": sorted(set(before) - set(after)),
            "added": sorted(set(after) - set(before)),
            "changed": sorted(k for k in before if k in after and before[k] != after[k])}


def _any_diff(diff: dict) -> bool:
    return bool(diff["removed"] or diff["added"] or diff["changed"])


def _write_bytes(path: str, data: bytes) -> None:
    os.makedirs(os.path.dirname(path), exist_ok=True)
    with open(path, "wb") as handle:
        handle.write(data)


def _describe(err: BaseException) -> dict:
    return {"exception": type(err).__name__, "message": str(err)[:200]}


# --------------------------------------------------------------------------- half one: faulty conversions

RAISING_KINDS = ["raise_ValueError", "raise_TypeError", "raise_RuntimeError", "raise_KeyError"]
RETURNING_KINDS = ["ret_object", "ret_set", "ret_bigint", "ret_surrogate", "ret_tuple_key", "ret_circular",
                   "ret_nested_raiser"]
MODULE_KINDS = RAISING_KINDS + RETURNING_KINDS + ["plain_dict"]
RECORD_KINDS = ["annotation_object", "annotation_surrogate"]
TOP_KINDS = ["short_results", "timings_object"]        # timings only exist for write_to_file

OLD_BYTES = {
    "empty": "",
    "binary": "00ff4f4c4420524553554c54530a80fe",
    "json": b'{"version": "old", "records": [], "schema": 4}\n'.hex(),
}

_FAULT_TYPES: dict = {}


def _fault_types() -> dict:
    """ classes that need antismash imported, created once per process """
    if _FAULT_TYPES:
        return _FAULT_TYPES
    from antismash.common.module_results import ModuleResults

    class Unserialisable:  # pylint: disable=too-few-public-methods
        """ has no to_json/__json__: json.dumps cannot convert it """

    class NestedRaiser:  # pylint: disable=too-few-public-methods
        """ converted lazily by json.dumps through _base_convertor """
        def to_json(self) -> Any:
            raise ValueError("verif: nested conversion failure")

    def bad_value(kind: str) -> Any:
        if kind == "ret_object":
            return Unserialisable()
        if kind == "ret_set":
            return {1, 2}
        if kind == "ret_bigint":
            return 2 ** 70
        if kind == "ret_surrogate":
            return "bad \ud800 text"
        if kind == "ret_nested_raiser":
            return NestedRaiser()
        raise AssertionError(kind)

    class VerifResults(ModuleResults):
        """ module results whose conversion behaves as the spec says """
        __slots__ = ["label", "kind", "log"]

        def __init__(self, record_id: str, label: str, kind: Optional[str], log: list) -> None:
            super().__init__(record_id)
            self.label = label
            self.kind = kind
            self.log = log

        def to_json(self) -> dict:
            self.log.append(self.label)
            kind = self.kind
            good = {"record_id": self.record_id, "label": self.label, "values": [1, 2.5, "x", None, True],
                    "nested": {"k": [{"a": 1}, {"b": [2, 3]}]}}
            if kind is None:
                return good
            if kind.startswith("raise_"):
                exc = {"raise_ValueError": ValueError, "raise_TypeError": TypeError,
                       "raise_RuntimeError": RuntimeError, "raise_KeyError": KeyError}[kind]
                raise exc(f"verif: injected failure in {self.label}")
            if kind == "ret_tuple_key":
                good["deep"] = {"list": [0, {("a", 1): 2}]}
            elif kind == "ret_circular":
                loop: dict = {}
                loop["again"] = loop
                good["deep"] = {"list": [0, loop]}
            else:
                good["deep"] = {"list": [0, {"bad": bad_value(kind)}]}
            return good

        @staticmethod
        def from_json(json: dict, record: Any) -> None:  # pylint: disable=redefined-outer-name
            return None

        def add_to_record(self, record: Any) -> None:
            pass

    _FAULT_TYPES.update({"results": VerifResults, "unserialisable": Unserialisable})
    return _FAULT_TYPES


def _build_results(spec: dict) -> tuple:
    """ -> (records, results list, timings, conversion log, fault labels) """
    types = _fault_types()
    log: list = []
    faults = spec.get("faults") or []
    by_module = {(f["r"], f["m"]): f["kind"] for f in faults if f["where"] == "module"}
    by_record = {f["r"]: f["kind"] for f in faults if f["where"] == "record"}
    top = {f["kind"] for f in faults if f["where"] == "top"}
    records = []
    results = []
    for r in range(spec["R"]):
        record = make_record(60 + 30 * r, circular=False, record_id=f"rec{r}")
        if spec.get("rich"):
            record.add_cds_feature(make_cds({"parts": [[3, 30]], "strand": 1}, f"g{r}a"))
            record.add_cds_feature(make_cds({"parts": [[36, 57]], "strand": -1}, f"g{r}b"))
            record.add_protocluster(make_protocluster({"parts": [[3, 30]], "strand": 1},
                                                      {"parts": [[0, 58]], "strand": 1}))
            record.create_candidate_clusters()
            record.create_regions()
            record.original_id = f"original {r}"
        if r in (spec.get("skipped") or []):
            # a record the run decided to skip still carries the results made before that decision (detection), or
            # the raw results of an earlier run that is being reused
            record.skip = "No regions detected"
        kind = by_record.get(r)
        if kind == "annotation_object":
            record.add_annotation("verif_note", ["fine", types["unserialisable"]()])
        elif kind == "annotation_surrogate":
            record.add_annotation("verif_note", "bad \udc80 comment")
        records.append(record)
        modules: dict = {}
        for m in range(spec["M"]):
            name = f"verif.mod{m}"
            kind = by_module.get((r, m))
            if kind == "plain_dict":
                modules[name] = {"left": "over from a previous run"}
            else:
                modules[name] = types["results"](record.id, f"r{r}m{m}", kind, log)
        if spec.get("none_module"):
            modules["verif.absent"] = None
        results.append(modules)
    if "short_results" in top and results:
        results = results[:-1]
    timings: dict = {rec.id: {"verif.mod0": 0.5} for rec in records}
    if "timings_object" in top and records:
        timings[records[-1].id]["verif.mod0"] = types["unserialisable"]()
    return records, results, timings, log


def _effective_faults(spec: dict) -> list:
    """ faults that can fire for the chosen target """
    out = []
    for fault in spec.get("faults") or []:
        if fault["kind"] == "timings_object" and spec["target"] != "write_to_file":
            continue
        out.append(fault)
    return out


def _call_target(spec: dict, records: list, results: list, timings: dict, path: str) -> None:
    from antismash.common.serialiser import AntismashResults, dump_records
    if spec["target"] == "write_to_file":
        AntismashResults("genome.gbk", records, results, "verif-1", timings=timings).write_to_file(path)
    elif spec["target"] == "dump_records":
        dump_records(results, records, handle=path)
    else:
        raise AssertionError(spec["target"])


def _check_written(spec: dict, data: bytes) -> None:
    """ the control arm: without a fault the new file is the new results """
    try:
        loaded = std_json.loads(data.decode("utf-8"))
    except ValueError as err:
        raise Violation("control_written_json", {"problem": "not JSON after a fault-free write",
                                                 "error": str(err)[:100], "head": data[:60].hex()})
    records = loaded["records"] if spec["target"] == "write_to_file" else loaded
    got = [(rec.get("id"), sorted(rec.get("modules", {}))) for rec in records]
    want = [(f"rec{r}", sorted(f"verif.mod{m}" for m in range(spec["M"]))) for r in range(spec["R"])]
    if got != want:
        raise Violation("control_written_json", {"got": got, "want": want})


def check_write(spec: dict) -> dict:
    """ spec: target, R, M, faults [{where: module|record|top, r, m, kind}], old (hex), rich """
    old = bytes.fromhex(spec["old"])
    faults = _effective_faults(spec)
    scratch = _scratch()
    try:
        path = os.path.join(scratch, "out", "genome.json")
        _write_bytes(path, old)
        _write_bytes(os.path.join(scratch, "out", "neighbour.txt"), b"neighbour")
        records, results, timings, log = _build_results(spec)
        raised: Optional[BaseException] = None
        try:
            _call_target(spec, records, results, timings, path)
        except Exception as err:  # pylint: disable=broad-except
            raised = err
        exists = os.path.isfile(path)
        now = b""
        if exists:
            with open(path, "rb") as handle:
                now = handle.read()
        if faults:
            if not exists:
                raise Violation("existing_file_removed", {"faults": faults,
                                                          "raised": _describe(raised) if raised else None})
            if now != old:
                raise Violation("existing_file_changed", {
                    "faults": faults, "old_len": len(old), "new_len": len(now), "new_head": now[:80].hex(),
                    "raised": _describe(raised) if raised else None})
            if raised is None:
                raise Violation("failure_not_reported", {"faults": faults, "converted": list(log)})
        else:
            if raised is not None:
                raise Violation("control_raised", _describe(raised))
            if not exists:
                raise Violation("control_written_json", {"problem": "no file after a fault-free write"})
            _check_written(spec, now)
    finally:
        shutil.rmtree(scratch, ignore_errors=True)

    classes = [spec["target"], f"R{spec['R']}", f"M{spec['M']}", "rich" if spec.get("rich") else "plain",
               "fault_on_skipped_record" if any(f.get("r") in (spec.get("skipped") or []) for f in faults)
               else ("some_record_skipped" if spec.get("skipped") else "no_record_skipped"),
               f"old_{'empty' if not old else 'bytes'}"]
    if not faults:
        classes.append("no_fault")
        return {"nontrivial": False, "classes": classes}
    first = _first_fault_position(spec, faults)
    classes.extend(f"kind_{f['kind']}" for f in faults)
    classes.append(f"where_{faults[0]['where']}" if len(faults) == 1 else "multi_fault")
    classes.append(f"raised_{type(raised).__name__}")
    classes.append("some_converted_before" if log and first != 0 else "fault_at_first_conversion")
    late = all(_fires_in_dumps(f) for f in faults)
    if late:
        classes.append("fault_inside_json_dumps")
    return {"nontrivial": bool(first != 0 or late), "classes": classes}


def _fires_in_dumps(fault: dict) -> bool:
    return fault["kind"] in RETURNING_KINDS or fault["kind"] in RECORD_KINDS or fault["kind"] == "timings_object"


def _first_fault_position(spec: dict, faults: list) -> int:
    """ index in conversion order (record-major) of the earliest fault; record-level and top-level
        faults sit after the module conversions of the records before them """
    best = None
    for fault in faults:
        if fault["where"] == "module":
            pos = fault["r"] * spec["M"] + fault["m"]
        elif fault["where"] == "record":
            pos = fault["r"] * spec["M"]
        else:
            pos = (spec["R"] - 1) * spec["M"]
        best = pos if best is None else min(best, pos)
    return best or 0


def enum_write(max_r: int, max_m: int):
    def cases():
        for target in ("write_to_file", "dump_records"):
            for rich in (False, True):
                for old_name in sorted(OLD_BYTES):
                    old = OLD_BYTES[old_name]
                    for R in range(1, max_r + 1):
                        for M in range(1, max_m + 1):
                            base = {"target": target, "R": R, "M": M, "rich": rich, "old": old}
                            yield dict(base, faults=[])
                            for r in range(R):
                                for m in range(M):
                                    for kind in MODULE_KINDS:
                                        yield dict(base, faults=[{"where": "module", "r": r, "m": m, "kind": kind}])
                                        # the same with the failing record marked as skipped by the run
                                        yield dict(base, faults=[{"where": "module", "r": r, "m": m, "kind": kind}],
                                                   skipped=[r])
                                for kind in RECORD_KINDS:
                                    yield dict(base, faults=[{"where": "record", "r": r, "kind": kind}])
                                    yield dict(base, faults=[{"where": "record", "r": r, "kind": kind}], skipped=[r])
                            yield dict(base, faults=[], skipped=list(range(R)))
                            for kind in TOP_KINDS:
                                if kind == "timings_object" and target != "write_to_file":
                                    continue
                                yield dict(base, faults=[{"where": "top", "kind": kind}])
                    # M = 0: records without any module results, only record-level and top-level sites
                    for R in range(1, max_r + 1):
                        base = {"target": target, "R": R, "M": 0, "rich": rich, "old": old}
                        yield dict(base, faults=[])
                        for r in range(R):
                            for kind in RECORD_KINDS:
                                yield dict(base, faults=[{"where": "record", "r": r, "kind": kind}])
    return cases


@st.composite
def write_specs(draw):
    R = draw(st.integers(1, 6))
    M = draw(st.integers(1, 8))
    count = draw(st.sampled_from([1, 1, 2, 2, 3, 5]))
    faults = []
    seen = set()
    for _ in range(count):
        where = draw(st.sampled_from(["module"] * 6 + ["record", "top"]))
        if where == "module":
            fault = {"where": "module", "r": draw(st.integers(0, R - 1)), "m": draw(st.integers(0, M - 1)),
                     "kind": draw(st.sampled_from(MODULE_KINDS))}
            key = ("module", fault["r"], fault["m"])
        elif where == "record":
            fault = {"where": "record", "r": draw(st.integers(0, R - 1)), "kind": draw(st.sampled_from(RECORD_KINDS))}
            key = ("record", fault["r"])
        else:
            fault = {"where": "top", "kind": draw(st.sampled_from(TOP_KINDS))}
            key = ("top", fault["kind"])
        if key in seen:
            continue
        seen.add(key)
        faults.append(fault)
    target = draw(st.sampled_from(["write_to_file", "dump_records"]))
    if target == "dump_records" and all(f["kind"] == "timings_object" for f in faults):
        target = "write_to_file"
    old = draw(st.one_of(st.sampled_from(sorted(OLD_BYTES.values())), st.binary(max_size=200).map(bytes.hex)))
    return {"target": target, "R": R, "M": M, "rich": draw(st.booleans()), "old": old, "faults": faults,
            "none_module": draw(st.booleans())}


# --------------------------------------------------------------------------- half two: the output directory

BASE = "genome"             # input files are genome.gbk / genome.json, so a derived output dir is <cwd>/genome
# "if not supplied, set the output directory to be the sequence name": the name without its extension
# (and without a compression suffix)
DERIVED_NAME = {".gbk": "genome", ".fasta": "genome", ".gbk.gz": "genome", ".json.gbk": "genome.json",
                ".json": "genome"}


def _layout(spec: dict, scratch: str) -> dict:
    """ creates the scratch tree for a directory spec, returns the paths """
    work = os.path.join(scratch, "work")
    data = os.path.join(scratch, "data")
    os.makedirs(work)
    os.makedirs(data)
    ext = spec.get("ext") or (".gbk" if spec["mode"] == "fresh" else ".json")
    outdir = os.path.join(work, DERIVED_NAME[ext])
    exists = spec.get("exists", "dir")
    if exists == "dir":
        os.mkdir(outdir)
        for entry in spec["entries"]:
            full = os.path.join(outdir, entry["p"])
            if entry["t"] == "d":
                os.makedirs(full, exist_ok=True)
            elif entry["t"] == "l":
                os.makedirs(os.path.dirname(full), exist_ok=True)
                os.symlink(entry["d"], full)
            else:
                _write_bytes(full, entry.get("d", "x").encode("utf-8", "surrogateescape"))
    elif exists == "file":
        _write_bytes(outdir, b"a plain file where the directory should be\n")
    mode = spec["mode"]
    if mode == "fresh":
        input_file = os.path.join(data, BASE + ext)
        _write_bytes(input_file, b"LOCUS       genome\n//\n")
    elif mode == "reuse_inside":
        input_file = os.path.join(outdir, BASE + ".json")
        if exists == "dir" and not os.path.exists(input_file):
            _write_bytes(input_file, b'{"version": "old", "records": []}')
    else:
        input_file = os.path.join(data, BASE + ".json")
        _write_bytes(input_file, b'{"version": "old", "records": []}')
    logfile = ""
    if spec.get("logfile"):
        where, name = spec["logfile"].split(":", 1)
        logfile = os.path.join(outdir if where == "in" else data, name)
        if where == "out":
            _write_bytes(logfile, b"log elsewhere\n")
    cwd = work
    if spec.get("cwd"):
        cwd = os.path.join(outdir, spec["cwd"])
    return {"work": work, "outdir": outdir, "input_file": input_file, "logfile": logfile, "cwd": cwd}


def _top_level(spec: dict) -> dict:
    """ name -> 'd' | 'f' | 'l' of the top-level entries the spec creates """
    tops: dict = {}
    for entry in spec["entries"]:
        parts = entry["p"].split("/")
        if len(parts) > 1:
            tops[parts[0]] = "d"
        else:
            tops.setdefault(parts[0], entry["t"])
    if spec["mode"] == "reuse_inside":
        tops.setdefault(BASE + ".json", "f")
    return tops


def _classify(spec: dict) -> dict:
    """ the oracle's view of the existing directory: exempt / other / removable (reuse only) """
    exempt, other, removable = [], [], []
    logname = None
    if spec.get("logfile") and spec["logfile"].startswith("in:"):
        logname = spec["logfile"].split(":", 1)[1]
    reuse = spec["mode"] != "fresh"
    for name, kind in sorted(_top_level(spec).items()):
        if reuse:
            if kind in ("f", "l") and fnmatch.fnmatchcase(name, REGION_GLOB):
                removable.append(name)
            else:
                exempt.append(name)
        elif name == "input" and kind == "d":
            exempt.append(name)
        elif logname is not None and name == logname:
            exempt.append(name)
        else:
            other.append(name)
    return {"exempt": exempt, "other": other, "removable": removable}


_PARSER: list = []


def _configure(args: list) -> Any:
    """ a fresh Config from command line arguments, as __main__ builds it (the argument parser itself is
        built once per process: constructing it costs more than the code under test) """
    from antismash.config import build_config, destroy_config
    from antismash.config.args import build_parser
    if not _PARSER:
        _PARSER.append(build_parser(from_config_file=True))
    destroy_config()
    return build_config(args, parser=_PARSER[0], isolated=True)


def check_dir(spec: dict) -> dict:
    """ spec: mode fresh|reuse_inside|reuse_elsewhere, outdir given|derived, exists dir|absent|file,
        entries [{p, t: f|d|l, d}], logfile None|'in:NAME'|'out:NAME', cwd None|<top-level dir>, ext """
    from antismash.config import destroy_config
    from antismash.main import prepare_output_directory
    scratch = _scratch()
    previous_cwd = os.getcwd()
    views = _classify(spec) if spec.get("exists", "dir") == "dir" else {"exempt": [], "other": [], "removable": []}
    try:
        paths = _layout(spec, scratch)
        args = []
        if spec["outdir"] == "given":
            args += ["--output-dir", paths["outdir"]]
        if paths["logfile"]:
            args += ["--logfile", paths["logfile"]]
        os.chdir(paths["cwd"])
        options = _configure(args)
        before = _snapshot(scratch)
        raised: Optional[BaseException] = None
        try:
            prepare_output_directory(options.output_dir, paths["input_file"])
        except Exception as err:  # pylint: disable=broad-except
            raised = err
        os.chdir(previous_cwd)
        after = _snapshot(scratch)
        diff = _diff(before, after)
        exists = spec.get("exists", "dir")
        detail = {"views": views, "raised": _describe(raised) if raised else None, "diff": diff}

        # a refusal (any exception) leaves everything as it was
        if raised is not None and _any_diff(diff):
            raise Violation("refusal_changed_tree", detail)
        if exists == "file":
            if raised is None:
                raise Violation("file_not_refused", detail)
        elif exists == "dir" and spec["mode"] == "fresh" and views["other"]:
            if raised is None:
                raise Violation("fresh_not_refused", detail)
        elif raised is not None:
            # only exempt content (or nothing, or reuse mode): the run has to be allowed to start
            raise Violation("exempt_refused", detail)
        if raised is None:
            # accepted: nothing that was there may be lost or altered, except (reuse) top-level region files;
            # creating the missing directory is the only addition that is expected
            rel_out = os.path.relpath(paths["outdir"], scratch)
            allowed_removed = {os.path.join(rel_out, name) for name in views["removable"]}
            added = [p for p in diff["added"] if not (exists == "absent" and after[p] == "dir")]
            if set(diff["removed"]) - allowed_removed or added or diff["changed"]:
                raise Violation("accepted_damage", detail)
    finally:
        os.chdir(previous_cwd)
        try:
            destroy_config()
        finally:
            shutil.rmtree(scratch, ignore_errors=True)

    groups = [g for g in ("exempt", "other", "removable") if views[g]]
    classes = [spec["mode"], f"outdir_{spec['outdir']}", f"exists_{spec.get('exists', 'dir')}",
               "refused" if raised is not None else "accepted",
               f"logfile_{(spec.get('logfile') or 'none').split(':')[0]}",
               "cwd_inside" if spec.get("cwd") else "cwd_scratch"]
    classes.extend(f"has_{g}" for g in groups)
    classes.extend(f"entry_{c}" for c in spec.get("classes", []))
    if raised is not None:
        classes.append(f"raised_{type(raised).__name__}")
    return {"nontrivial": len(groups) >= 2, "classes": classes}


ENTRY_CLASSES = {
    "input_dir": [{"p": "input", "t": "d"}, {"p": "input/genome.gbk", "t": "f", "d": "LOCUS copy"}],
    "input_file": [{"p": "input", "t": "f", "d": "a file called input"}],
    "logfile": [{"p": "antismash.log", "t": "f", "d": "INFO started"}],
    "log_twin": [{"p": "run.log", "t": "f", "d": "somebody else's log"}],
    "log_sibling": [{"p": "antismash.log.1", "t": "f", "d": "rotated"}],
    "other_file": [{"p": "notes.txt", "t": "f", "d": "precious"}],
    "other_dir": [{"p": "stuff", "t": "d"}, {"p": "stuff/data.bin", "t": "f", "d": "\x00\x01"}],
    "region_gbk": [{"p": "genome.region001.gbk", "t": "f", "d": "LOCUS region"}],
    "near_region": [{"p": "genome.region0001.gbk", "t": "f", "d": "four digits"},
                    {"p": "genome.region001.gbk.bak", "t": "f", "d": "backup"}],
    "nested_region": [{"p": "old/c1.region001.gbk", "t": "f", "d": "LOCUS nested"}],
    "prev_json": [{"p": "genome.json", "t": "f", "d": "{\"version\": \"previous\"}"}],
    "html": [{"p": "index.html", "t": "f", "d": "<html>"}, {"p": "css/style.css", "t": "f", "d": "body{}"}],
    "dotfile": [{"p": ".hidden", "t": "f", "d": "secret"}],
    "dotdir": [{"p": ".git", "t": "d"}, {"p": ".git/config", "t": "f", "d": "[core]"}],
    "suffix_input": [{"p": "myinput", "t": "d"}, {"p": "myinput/a.fa", "t": "f", "d": ">a"}],
    "empty_dir": [{"p": "tmp", "t": "d"}],
    # entries whose path is a string prefix of the log file's path without being the log file or holding it
    "log_prefix_dir": [{"p": "antismash", "t": "d"}, {"p": "antismash/old.txt", "t": "f", "d": "older run"}],
    "log_prefix_empty_dir": [{"p": "antismash.lo", "t": "d"}],
    "log_prefix_file": [{"p": "anti", "t": "f", "d": "a file whose name starts the log's name"}],
}
EXCLUSIVE = [{"input_dir", "input_file"}, {"logfile", "log_twin"}]


def _dir_spec(classes: tuple, mode: str, outdir: str, cwd: Optional[str]) -> dict:
    entries = []
    for cls in classes:
        entries.extend(ENTRY_CLASSES[cls])
    logfile = None
    if "logfile" in classes:
        logfile = "in:antismash.log"
    elif "log_twin" in classes:
        logfile = "out:run.log"
    return {"mode": mode, "outdir": outdir, "exists": "dir", "entries": entries, "logfile": logfile,
            "cwd": cwd, "classes": list(classes)}


def enum_dir(max_size: int):
    names = sorted(ENTRY_CLASSES)

    def cases():
        for mode in ("fresh", "reuse_inside", "reuse_elsewhere"):
            for outdir in ("given", "derived"):
                for exists in ("absent", "file"):
                    yield {"mode": mode, "outdir": outdir, "exists": exists, "entries": [], "logfile": None,
                           "cwd": None, "classes": []}
                for logfile in ("in:antismash.log", "out:run.log"):     # configured, nothing there yet
                    yield {"mode": mode, "outdir": outdir, "exists": "dir", "entries": [], "logfile": logfile,
                           "cwd": None, "classes": []}
        # input names: the run mode is decided by the name ending in ".json", nothing else
        for ext in (".fasta", ".gbk.gz", ".json.gbk"):
            for outdir in ("given", "derived"):
                for classes in ((), ("other_file",), ("input_dir",), ("input_dir", "prev_json")):
                    yield dict(_dir_spec(classes, "fresh", outdir, None), ext=ext)
        for size in range(0, max_size + 1):
            for classes in itertools.combinations(names, size):
                chosen = set(classes)
                if any(len(chosen & group) > 1 for group in EXCLUSIVE):
                    continue
                for mode in ("fresh", "reuse_inside", "reuse_elsewhere"):
                    if mode == "reuse_inside" and "prev_json" in chosen:
                        continue        # the reused file is genome.json itself
                    for outdir in ("given", "derived"):
                        yield _dir_spec(classes, mode, outdir, None)
                    # started from a sub-directory of the output directory (only with an explicit --output-dir)
                    for cls, sub in (("other_dir", "stuff"), ("empty_dir", "tmp"), ("dotdir", ".git")):
                        if cls in chosen:
                            yield _dir_spec(classes, mode, "given", sub)
    return cases


_NAMES = ["input", "Input", "input.txt", "xinput", ".input", "a", "b.txt", ".a", ".cache", "genome.json",
          "genome.gbk", "genome.region001.gbk", "c.region012.gbk", "c.region12.gbk", "x.region001.gbk~",
          "region001.gbk", ".region001.gbk", "antismash.log", "antismash.log.1", "run.log", "index.html", "svg", "knownclusterblast",
          "genome.zip", "regions.js", "sub", "tmp", "é.txt", "with space", "-dash"]


@st.composite
def dir_specs(draw):
    mode = draw(st.sampled_from(["fresh", "fresh", "reuse_inside", "reuse_elsewhere"]))
    outdir = draw(st.sampled_from(["given", "derived"]))
    count = draw(st.integers(0, 6))
    entries = []
    used: dict = {}
    log_choice = draw(st.sampled_from([None, None, "in", "in", "out", "nested"]))
    logfile = None
    forced = []
    if log_choice == "in":
        logname = draw(st.sampled_from(["antismash.log", "run.log", "a", ".a"]))
        logfile = "in:" + logname
        if draw(st.integers(0, 3)) > 0:       # usually the log file is already there (logging starts first)
            forced.append((logname, "f"))
    elif log_choice == "out":
        logfile = "out:" + draw(st.sampled_from(["antismash.log", "run.log", "a"]))
    elif log_choice == "nested":
        logfile = "in:sub/antismash.log"
    if draw(st.booleans()):
        forced.append(("input", "d"))
    for index in range(count + len(forced)):
        if index < len(forced):
            name, forced_kind = forced[index]
        else:
            name, forced_kind = draw(st.sampled_from(_NAMES)), None
        if name in used:
            continue
        kind = forced_kind or draw(st.sampled_from(["f", "f", "d", "d", "l"]))
        if name == "input" and kind == "l":
            kind = "d"
        if mode != "fresh" and kind == "d" and fnmatch.fnmatchcase(name, REGION_GLOB):
            kind = "f"       # a directory with a region file's name makes os.remove fail: not a refusal, not judged
        if mode == "reuse_inside" and name == "genome.json":
            kind = "f"
        used[name] = kind
        if kind == "f":
            entries.append({"p": name, "t": "f", "d": draw(st.text(alphabet="ab{}\n\x00", max_size=12))})
        elif kind == "l":
            entries.append({"p": name, "t": "l", "d": draw(st.sampled_from(["../../data", "nowhere", "/dev/null"]))})
        else:
            entries.append({"p": name, "t": "d"})
            for _ in range(draw(st.integers(0, 2))):
                child = draw(st.sampled_from(_NAMES))
                if draw(st.booleans()):
                    entries.append({"p": f"{name}/{child}", "t": "f", "d": draw(st.text(alphabet="xyz", max_size=6))})
                else:
                    entries.append({"p": f"{name}/{child}/deep.txt", "t": "f", "d": "deep"})
    # dedupe paths: a file cannot also be a directory prefix
    cleaned = []
    files = {e["p"] for e in entries if e["t"] != "d"}
    seen = set()
    for entry in entries:
        if entry["p"] in seen:
            continue
        prefixes = {"/".join(entry["p"].split("/")[:i]) for i in range(1, entry["p"].count("/") + 1)}
        if prefixes & files:
            continue
        seen.add(entry["p"])
        cleaned.append(entry)
    cwd = None
    top_dirs = sorted(n for n, k in used.items() if k == "d")
    if outdir == "given" and top_dirs and draw(st.integers(0, 3)) == 0:
        cwd = draw(st.sampled_from(top_dirs))
    ext = draw(st.sampled_from([".gbk", ".fasta", ".gbk.gz", ".json.gbk"])) if mode == "fresh" else ".json"
    return {"mode": mode, "outdir": outdir, "exists": "dir", "entries": cleaned, "logfile": logfile, "cwd": cwd,
            "ext": ext, "classes": []}


# --------------------------------------------------------------------------- the pipeline with stubs

def check_pipeline(spec: dict) -> dict:
    """ spec: mode fresh|reuse_inside|reuse_elsewhere, state absent|empty|prev_json|foreign|input_only,
        R, M, fault None | {where, r, m, kind}, logfile bool """
    from unittest import mock
    from antismash import main
    from antismash.common.serialiser import AntismashResults
    from antismash.config import destroy_config

    state = spec["state"]
    mode = spec["mode"]
    entries = []
    if state in ("prev_json", "foreign"):
        entries.append({"p": "genome.json", "t": "f", "d": "{\"version\": \"previous run\"}"})
    if state == "foreign":
        entries.extend(ENTRY_CLASSES["other_file"] + ENTRY_CLASSES["region_gbk"])
    if state == "input_only":
        entries.extend(ENTRY_CLASSES["input_dir"])
    log_inside = spec.get("logfile") == "in" and state != "absent"
    if log_inside:
        # the log of an earlier run lies in the output directory and this run logs to the same file
        entries.extend(ENTRY_CLASSES["logfile"])
    dspec = {"mode": mode, "outdir": "given", "exists": "absent" if state == "absent" else "dir",
             "entries": entries, "cwd": None,
             "logfile": "in:antismash.log" if log_inside else ("out:run.log" if spec.get("logfile") else None)}
    fault = spec.get("fault")
    wspec = {"target": "write_to_file", "R": spec["R"], "M": spec["M"], "rich": False,
             "faults": [fault] if fault else []}
    views = _classify(dspec) if dspec["exists"] == "dir" else {"exempt": [], "other": [], "removable": []}
    must_refuse = mode == "fresh" and bool(views["other"])

    scratch = _scratch()
    previous_cwd = os.getcwd()
    calls: list = []
    try:
        paths = _layout(dspec, scratch)
        json_path = os.path.join(paths["outdir"], BASE + ".json")
        args = ["--output-dir", paths["outdir"]]
        if paths["logfile"]:
            args += ["--logfile", paths["logfile"]]
        sequence = ""
        if mode == "fresh":
            sequence = paths["input_file"]
        else:
            args += ["--reuse-results", paths["input_file"]]
        os.chdir(paths["work"])
        options = _configure(args)
        options.version = "verif"
        records, results, timings, log = _build_results(wspec)
        prepared = AntismashResults(os.path.basename(paths["input_file"]), records, results, "verif-1",
                                    timings=timings)

        class StubModule:  # pylint: disable=too-few-public-methods
            """ stands for 'some module is enabled' """
            __name__ = "verif.stub"

            @staticmethod
            def is_enabled(_options: Any) -> bool:
                return True

        def stub_outputs(_results: Any, opts: Any) -> None:
            calls.append("write_outputs")
            with open(os.path.join(opts.output_dir, "index.html"), "w", encoding="utf-8") as handle:
                handle.write("<html>new</html>")

        patches = {
            "_log_found_executables": lambda _options: None,
            "get_all_modules": lambda: [StubModule],
            "check_prerequisites": lambda _modules, _options: None,
            "verify_options": lambda _options, _modules: True,
            "read_data": lambda _sequence, _options: prepared,
            "run_detection": lambda _record, _options, _results: {},
            "annotate_records": lambda _results: calls.append("annotate_records"),
            "write_outputs": stub_outputs,
        }
        before = _snapshot(scratch)
        old_json = None
        if os.path.isfile(json_path):
            with open(json_path, "rb") as handle:
                old_json = handle.read()
        raised: Optional[BaseException] = None
        returned = None
        with contextlib.ExitStack() as stack:
            for name, replacement in patches.items():
                stack.enter_context(mock.patch.object(main, name, replacement))
            stack.enter_context(mock.patch.object(main.record_processing, "pre_process_sequences",
                                                  lambda recs, _options, _genefinding: recs))
            try:
                returned = main.run_antismash(sequence, options)
            except Exception as err:  # pylint: disable=broad-except
                raised = err
        os.chdir(previous_cwd)
        after = _snapshot(scratch)
        diff = _diff(before, after)
        # the log file is antiSMASH's own and is written to by the logging context
        rel_log = os.path.relpath(paths["logfile"], scratch) if paths["logfile"] else None
        for key in diff:
            diff[key] = [p for p in diff[key] if p != rel_log]
        detail = {"views": views, "raised": _describe(raised) if raised else None, "returned": returned,
                  "diff": diff, "calls": list(calls)}
        reported = raised is not None or (returned not in (0, None))
        if log_inside and (must_refuse or fault):
            # a run that refuses the directory or fails leaves what the earlier run logged in place (it may add to it)
            earlier = ENTRY_CLASSES["logfile"][0]["d"].encode("utf-8")
            now_log = b""
            if os.path.isfile(paths["logfile"]):
                with open(paths["logfile"], "rb") as handle:
                    now_log = handle.read()
            if not now_log.startswith(earlier):
                raise Violation("pipeline_earlier_log_lost", dict(detail, log_now=now_log[:80].decode("utf-8", "replace")))
        if must_refuse:
            if not reported:
                raise Violation("pipeline_not_refused", detail)
            if _any_diff(diff):
                raise Violation("pipeline_refusal_changed_tree", detail)
        elif fault:
            if old_json is not None:
                now = None
                if os.path.isfile(json_path):
                    with open(json_path, "rb") as handle:
                        now = handle.read()
                if now != old_json:
                    raise Violation("pipeline_existing_json_damaged", detail)
            if not reported:
                raise Violation("pipeline_failure_not_reported", detail)
        else:
            if reported:
                raise Violation("pipeline_control_failed", detail)
            if not os.path.isfile(json_path):
                raise Violation("pipeline_control_failed", dict(detail, problem="no results json"))
            with open(json_path, "rb") as handle:
                _check_written(wspec, handle.read())
    finally:
        os.chdir(previous_cwd)
        try:
            destroy_config()
        finally:
            shutil.rmtree(scratch, ignore_errors=True)
    classes = [mode, f"state_{state}", "refusal" if must_refuse else ("fault" if fault else "control"),
               ("logfile_in_output_dir" if spec.get("logfile") == "in" else "logfile") if spec.get("logfile") else "no_logfile"]
    if fault:
        classes.append(f"kind_{fault['kind']}")
    if "write_outputs" in calls and (fault or must_refuse):
        classes.append("outputs_written_despite_failure")
    nontrivial = must_refuse or bool(fault and old_json is not None)
    return {"nontrivial": nontrivial, "classes": classes}


def enum_pipeline(max_r: int, max_m: int):
    kinds = ["raise_ValueError", "raise_TypeError", "ret_object", "ret_nested_raiser", "plain_dict"]

    def cases():
        for mode in ("fresh", "reuse_inside", "reuse_elsewhere"):
            for state in ("absent", "empty", "input_only", "prev_json", "foreign"):
                if mode == "reuse_inside" and state in ("absent", "empty", "input_only"):
                    continue            # the reused json lives in the directory
                for logfile in (False, True, "in"):
                    for R in range(1, max_r + 1):
                        for M in range(1, max_m + 1):
                            base = {"mode": mode, "state": state, "R": R, "M": M, "logfile": logfile}
                            yield dict(base, fault=None)
                            for r in range(R):
                                for m in range(M):
                                    for kind in kinds:
                                        yield dict(base, fault={"where": "module", "r": r, "m": m, "kind": kind})
                            # (timings are reset by the pipeline before the write, so no timings fault here)
                            yield dict(base, fault={"where": "record", "r": R - 1, "kind": "annotation_object"})
    return cases


SUBCHECKS = {
    "write_enum": check_write,
    "write": check_write,
    "dir_enum": check_dir,
    "dir": check_dir,
    "pipeline_enum": check_pipeline,
}


# --------------------------------------------------------------------------- known findings

def _unexplained(spec: dict, detail: dict) -> Optional[dict]:
    """ splits the non-exempt entries of an accepted fresh-mode directory by the reason the emptiness
        test cannot see them; None when some entry has no such reason """
    if spec.get("mode") != "fresh" or spec.get("exists", "dir") != "dir":
        return None
    if not isinstance(detail, dict) or detail.get("raised") is not None:
        return None
    others = (detail.get("views") or {}).get("other") or []
    if not others:
        return None
    dot, cwd = [], []
    for name in others:
        if name.startswith("."):
            dot.append(name)
        elif not spec.get("logfile") and spec.get("cwd") == name:
            cwd.append(name)
        else:
            return None
    return {"dot": dot, "cwd": cwd}


def sig_dot_entries(sub: str, spec: dict, clause: str, detail: Any) -> bool:
    """ fresh mode, accepted although it should not be, and every non-exempt top-level entry is invisible
        to the emptiness test (dot-names; possibly together with the working directory case) """
    if sub not in ("dir", "dir_enum") or clause != "fresh_not_refused":
        return False
    split = _unexplained(spec, detail)
    return bool(split and split["dot"])


def sig_cwd_no_logfile(sub: str, spec: dict, clause: str, detail: Any) -> bool:
    """ fresh mode, no log file configured, accepted, and the only visible non-exempt entry is the directory
        antiSMASH was started from """
    if sub not in ("dir", "dir_enum") or clause != "fresh_not_refused":
        return False
    split = _unexplained(spec, detail)
    return bool(split and split["cwd"] and not split["dot"])


SIGNATURES = {
    "dot_entries_only": sig_dot_entries,
    "cwd_entry_without_logfile": sig_cwd_no_logfile,
}


def run(ctx) -> None:
    shards = ctx.pick(8, 16)
    max_r, max_m = ctx.pick((2, 3), (4, 5))
    ctx.extra["bounds"] = {"write_enum": {"R_max": max_r, "M_max": max_m},
                           "dir_enum": {"subset_size_max": ctx.pick(3, 16), "entry_classes": len(ENTRY_CLASSES)},
                           "pipeline_enum": {"R_max": ctx.pick(2, 3), "M_max": ctx.pick(2, 3)}}
    ctx.enum("write_enum", enum_write(max_r, max_m), shards=shards)
    ctx.enum("dir_enum", enum_dir(ctx.pick(3, 16)), shards=shards)
    ctx.enum("pipeline_enum", enum_pipeline(ctx.pick(2, 3), ctx.pick(2, 3)), shards=shards)
    rand_shards = ctx.pick(4, 16)
    ctx.hyp("write", write_specs(), max_examples=ctx.pick(2000, 60000), shards=rand_shards)
    ctx.hyp("dir", dir_specs(), max_examples=ctx.pick(1500, 40000), shards=rand_shards)
