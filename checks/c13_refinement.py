""" C13 - HMM hit refinement keeps the best non-overlapping hits, order-independently

    Subchecks
      refine / refine_enum   refine_hmmscan_results, both modes (list mode: merge -> overlap -> incomplete,
                             neighbour mode: overlap -> merge neighbours -> incomplete)
      hmmer / hmmer_enum     hmmer.remove_overlapping
      filter                 filter_results followed by filter_result_multiple
      compose                find_hmmer_hits (filter_results then filter_result_multiple as composed there;
                             only run_hmmsearch is replaced)
      docking                filter_nonterminal_docking_domains

    Every body collects *all* clause failures of a case and raises the first one that matches no
    signature in SIGNATURES (else the first one), so a case that shows a known finding is still
    judged on every other clause.
"""

from __future__ import annotations

import itertools
import traceback
from fractions import Fraction

from hypothesis import strategies as st

from vlib.runner import Violation

PROPERTY_ID = "C13"
LEVEL = "exploration"
RULE = ("Random: 1-7 hits on one or two proteins from a pool of 2-5 profiles (lengths 10/20/30/50/100, one of them a "
        "'regulator'), coordinates built relative to earlier hits (equal start, start at previous end minus the "
        "margin -1/0/+1, nested, chained, same-profile fragments around the 1.5x span rule, lengths around the "
        "1/3 and 1/2 completeness thresholds), scores from a 3-value set so that ties are common; the same "
        "construction shaped as HmmerHits (cutoffs, overlap_limit 1/10/100), as HSPs with equivalence groups "
        "(overlaps of 19-22 around the >20 rule, object hashes that collide in small sets) and as docking-domain "
        "hits around the 50-residue terminal zone; the HSP specs plus per-profile cutoffs are also fed to the real "
        "find_hmmer_hits through a replaced run_hmmsearch. Enumeration: every set of <= 2 (quick) / <= 3 (thorough) "
        "distinct hits over a 6-point coordinate grid, 2 profiles, 2 scores, both modes, plus every 11th set of 3 "
        "(quick) / every 37th set of 4 (thorough); the same for remove_overlapping. Every case is evaluated for "
        "all input orders (all n! for n <= 4, a fixed family plus all arrangements of the equal-start groups "
        "above that). A case is non-trivial when two hits tie on start or score, or some hits form a chain A-B-C "
        "with A and C disjoint, or two hits of one profile are present (filter: a tie, a group of >= 3 or a "
        "removal; docking: a docking-type hit); distinct = sha1 of the canonical spec. Cases that show an open "
        "known finding are counted in excluded_known, not in the class counters.")
ASSUMPTIONS = [
    "hits have start < end and every profile has a length (the callers build both from HMMER/BLAST output)",
    "refinement margin = 20% of the longer of the two profiles (docstring of _remove_overlapping); kept hits are "
    "judged on shared residues, a drop is explained by a kept hit (or a fragment merged into it) when the later of "
    "the two starts more than the margin before the earlier one ends (equal to shared residues unless nested)",
    "'close enough to be one domain' = every merged fragment ends less than 1.5 profile lengths after the first "
    "one starts (the rule in _merge_domain_list/_merge_immediate_neigbours); the oracle only asks for the "
    "existence of such a set of same-profile inputs",
    "'incomplete' = at most half the profile length; fragments of at most a third of the profile length may "
    "vanish without an alternative (docstring of remove_incomplete, pinned by test_incomplete_removal)",
    "a hit that ranks 'at least as high' explains a drop (score >=); the tie direction is not asserted",
    "two results are 'the same' when the same hits survive for the same proteins; the mutual order of hits that "
    "start at the same residue is not compared (ordering by position is judged by its own clause)",
    "hmmer.remove_overlapping: overlap_limit >= 1 (callers use the default 10, tests 10 and 100), scores and "
    "cutoffs positive, e-value a function of profile and score",
    "refine_hmmscan_results puts the hits into a set; the orders a set can present equal-start hits in are "
    "emulated by handing the real function an order-preserving gather_by_query (sub-clauses *_ties), next to "
    "the unmodified public call on every permutation (sub-clauses *_public)",
    "filter_results: HSP objects hash by identity in Biopython; the fake HSPs carry an explicit hash from the "
    "spec so that set order is a function of the spec",
]

DOCKING = ("NRPS-COM_Nterm", "NRPS-COM_Cterm", "PKS_Docking_Cterm", "PKS_Docking_Nterm")


# --------------------------------------------------------------------------- generic helpers

def _raise_first(sub: str, spec: dict, failures: list) -> None:
    """ raises the first failure no signature explains, else the first one """
    if not failures:
        return
    for clause, detail in failures:
        if not any(sig(sub, spec, clause, detail) for sig in SIGNATURES.values()):
            raise Violation(clause, detail)
    raise Violation(*failures[0])


class _InputModified(Exception):
    """ the code under test changed the objects it was given """


def _guard(clause: str, failures: list, func, *args, **kwargs):
    """ calls the code under test; an exception raised inside antismash is a failure of `clause` (totality),
        anything else is a defect of this harness and passes through (exit 2) """
    try:
        return True, func(*args, **kwargs)
    except Exception as err:  # pylint: disable=broad-except
        where = ""
        for frame in reversed(traceback.extract_tb(err.__traceback__)):
            if "/antismash/" in frame.filename:
                where = f"{frame.filename.split('/antismash/', 1)[1]}:{frame.name}"
                break
        if not where and not isinstance(err, _InputModified):
            raise
        failures.append((clause, {"exception": type(err).__name__, "message": str(err)[:200], "where": where}))
        return False, None


def _orders(count: int, tie_groups: list, full_upto: int) -> list:
    """ index orders to try: all of them for small inputs, else a fixed family plus every
        rearrangement inside the tie groups (bounded) """
    base = list(range(count))
    if count <= full_upto:
        return [list(p) for p in itertools.permutations(base)]
    orders = [base, base[::-1]]
    for shift in range(1, count):
        orders.append(base[shift:] + base[:shift])
    orders.append(base[::2] + base[1::2])
    orders.append(base[1::2] + base[::2])
    tie_orders = _tie_orders(count, tie_groups, limit=48)
    seen = set()
    out = []
    for order in orders + tie_orders:
        key = tuple(order)
        if key not in seen:
            seen.add(key)
            out.append(order)
    return out


def _tie_orders(count: int, tie_groups: list, limit: int = 200) -> list:
    """ orders that differ only inside groups of tied items (first `limit` of the product) """
    groups = [g for g in tie_groups if len(g) > 1]
    if not groups:
        return []
    out = []
    for choice in itertools.islice(itertools.product(*[itertools.permutations(g) for g in groups]), limit):
        order = list(range(count))
        for group, perm in zip(groups, choice):
            for slot, item in zip(sorted(group), perm):
                order[slot] = item
        out.append(order)
    return out


# =========================================================================== refine_hmmscan_results

class _Hsp:  # the attributes gather_by_query reads from Bio's HSP
    __slots__ = ("query_id", "hit_id", "query_start", "query_end", "evalue", "bitscore")

    def __init__(self, query_id, hit_id, start, end, evalue, bitscore):
        self.query_id = query_id
        self.hit_id = hit_id
        self.query_start = start
        self.query_end = end
        self.evalue = evalue
        self.bitscore = bitscore


class _QueryResult:
    def __init__(self, hsps):
        self.hsps = list(hsps)


def _evalue(exponent: int) -> float:
    return float(f"1e-{exponent}")


def _hit_tuple(raw: list) -> tuple:
    """ spec hit [profile, start, end, score, evalue exponent, cds index] -> (profile, start, end, score, evalue) """
    return (raw[0], int(raw[1]), int(raw[2]), float(raw[3]), _evalue(raw[4]))


def _as_tuple(result) -> tuple:
    return (result.hit_id, result.query_start, result.query_end, result.bitscore, result.evalue)


def _same_result(one: dict, two: dict) -> bool:
    """ the same hits for the same proteins; the mutual order of hits that start at the same residue is not
        part of 'ordered by position' (the order itself is judged by the clause refine_sorted) """
    return {k: sorted(v) for k, v in one.items()} == {k: sorted(v) for k, v in two.items()}


def _run_refine(raw_hits: list, lengths: dict, neighbour: bool, ordered: bool) -> dict:
    """ runs the real refine_hmmscan_results; with ordered=True equal-start hits reach the
        start-only sort in input order instead of set order """
    from antismash.common import hmmscan_refinement as module
    hsps = [_Hsp(f"cds{raw[5]}", raw[0], int(raw[1]), int(raw[2]), _evalue(raw[4]), float(raw[3])) for raw in raw_hits]
    results = [_QueryResult(hsps)]
    if not ordered:
        refined = module.refine_hmmscan_results(results, lengths, neighbour_mode=neighbour)
    else:
        original = module.gather_by_query

        def in_input_order(query_results):
            gathered = original(query_results)
            out = {}
            for key, hits in gathered.items():
                seen = []
                for query_result in query_results:
                    for hsp in query_result.hsps:
                        if hsp.query_id != key:
                            continue
                        hit = module.HMMResult(hsp.hit_id, hsp.query_start, hsp.query_end, hsp.evalue, hsp.bitscore)
                        if hit in hits and hit not in seen:
                            seen.append(hit)
                out[key] = seen
            return out

        module.gather_by_query = in_input_order
        try:
            refined = module.refine_hmmscan_results(results, lengths, neighbour_mode=neighbour)
        finally:
            module.gather_by_query = original
    return {key: [_as_tuple(hit) for hit in hits] for key, hits in refined.items()}


def _ov(one: tuple, two: tuple) -> int:
    return min(one[2], two[2]) - max(one[1], two[1])


def _beyond_margin(one: tuple, two: tuple, lengths: dict) -> bool:
    """ overlap > 20% of the longer profile, in exact arithmetic """
    return 5 * _ov(one, two) > max(lengths[one[0]], lengths[two[0]])


def _frac(hit: tuple, lengths: dict) -> Fraction:
    return Fraction(hit[2] - hit[1], lengths[hit[0]])


def _mergeable_after(first: tuple, other: tuple, lengths: dict) -> bool:
    """ `other` may join a merged domain that starts with `first` """
    return other is first or other == first or 2 * (other[2] - first[1]) < 3 * lengths[first[0]]


def _legal_output(out: tuple, inputs: list, lengths: dict) -> bool:
    """ an input hit, or the span / best score / best e-value of >= 2 same-profile inputs obeying the span rule """
    if out in inputs:
        return True
    pool = [x for x in inputs if x[0] == out[0] and out[1] <= x[1] and x[2] <= out[2]
            and x[3] <= out[3] and x[4] >= out[4]]
    for first in pool:
        if first[1] != out[1]:
            continue
        members = [x for x in pool if _mergeable_after(first, x, lengths)]
        if len(members) < 2:
            continue
        if (any(x[2] == out[2] for x in members) and any(x[3] == out[3] for x in members)
                and any(x[4] == out[4] for x in members)):
            return True
    return False


def _represented(hit: tuple, output: list) -> bool:
    return any(o[0] == hit[0] and o[1] <= hit[1] and hit[2] <= o[2] and o[3] >= hit[3] for o in output)


def _clash(one: tuple, two: tuple, lengths: dict) -> bool:
    """ 'overlapping' as _remove_overlapping documents it: the later hit starts more than 20% of the longer
        profile before the earlier one ends (for hits that are not nested this is the number of shared residues) """
    if one[1] == two[1]:
        extent = max(one[2], two[2]) - one[1]
    else:
        first, second = (one, two) if one[1] < two[1] else (two, one)
        extent = first[2] - second[1]
    return 5 * extent > max(lengths[one[0]], lengths[two[0]])


def _explanation(hit: tuple, inputs: list, output: list, lengths: dict, mode: str):
    """ why the statement allows `hit` to be absent, or None """
    for out in output:
        if out[3] < hit[3]:
            continue
        # the kept hit itself, or a fragment that was merged into it, lies over the hit beyond the margin
        parts = [out] + [x for x in inputs if x[0] == out[0] and out[1] <= x[1] and x[2] <= out[2]]
        if any(_clash(part, hit, lengths) for part in parts):
            return "displaced"
    if mode == "list":
        same = [x for x in inputs if x[0] == hit[0]]
        for first in same:
            if first[1] > hit[1] or not _mergeable_after(first, hit, lengths):
                continue
            for last in same:
                if last[1] < first[1] or not _mergeable_after(first, last, lengths):
                    continue
                hull = (hit[0], first[1], max(first[2], last[2], hit[2]))
                for out in output:
                    if out[3] >= hit[3] and _clash(out, hull, lengths):
                        return "displaced_as_merged"
    size, full = hit[2] - hit[1], lengths[hit[0]]
    if 2 * size <= full:
        if 3 * size <= full:
            return "below_fallback"
        for out in output:
            if _frac(out, lengths) >= _frac(hit, lengths):
                return "incomplete_with_alternative"
    return None


def _units(inputs: list, lengths: dict, mode: str) -> list:
    """ what can take part in overlap removal: every input hit and, in list mode (merge first), every hull
        of same-profile inputs that obeys the span rule.  (profile, start, end, best score, members) """
    units = [(x[0], x[1], x[2], x[3], [x]) for x in inputs]
    if mode != "list":
        return units
    for first in inputs:
        group = [x for x in inputs if x[0] == first[0] and x[1] >= first[1] and _mergeable_after(first, x, lengths)]
        for end in sorted({x[2] for x in group if x[2] >= first[2]}):
            members = [x for x in group if x[2] <= end]
            if len(members) >= 2 and first in members:
                units.append((first[0], first[1], end, max(x[3] for x in members), members))
    return units


def _unit_kept(unit: tuple, output: list) -> bool:
    return any(o[0] == unit[0] and o[1] <= unit[1] and unit[2] <= o[2] and o[3] >= unit[3] for o in output)


def _drop_facts(hit: tuple, inputs: list, output: list, lengths: dict, mode: str) -> dict:
    """ facts about an unexplained drop that the signatures use (facts, not verdicts) """
    units = _units(inputs, lengths, mode)
    extents = [u for u in units if hit in u[4]]
    displacers = []
    for unit in units:
        if hit in unit[4] or unit[3] < hit[3] or not any(_clash(unit, ext, lengths) for ext in extents):
            continue
        own = [u for u in units if any(x in u[4] for x in unit[4])]
        rivals = [v for v in units if v[3] >= unit[3] and not any(x in unit[4] or x == hit for x in v[4])
                  and any(_clash(v, ext, lengths) for ext in own)]
        nested = any(a != b and a[0] == b[0] and ((a[1] <= b[1] and b[2] <= a[2]) or (b[1] <= a[1] and a[2] <= b[2]))
                     for a in unit[4] for b in inputs)
        displacers.append({"unit": list(unit[:4]), "kept": _unit_kept(unit, output), "nested_fragments": nested,
                           "incomplete": 2 * (unit[2] - unit[1]) <= lengths[unit[0]],
                           "has_rival_at_least_as_good": bool(rivals)})
    same = [x for x in inputs if x[0] == hit[0] and x != hit]
    full = lengths[hit[0]]
    later_unmergeable = [x for x in same if (x[1], x[2]) >= (hit[1], hit[2]) and any(
        y[1] <= hit[1] and 2 * (x[2] - y[1]) >= 3 * full for y in same + [hit])]
    nested_same = [x for x in same if (x[1] <= hit[1] and hit[2] <= x[2]) or (hit[1] <= x[1] and x[2] <= hit[2])]
    return {
        "hit": list(hit), "mode": mode, "output": [list(o) for o in output],
        "complete": 2 * (hit[2] - hit[1]) > full,
        "displacers": displacers[:12],
        "later_unmergeable_same_profile": [list(x) for x in later_unmergeable],
        "nested_same_profile": [list(x) for x in nested_same],
    }


def _judge_refine(inputs: list, output: list, lengths: dict, mode: str, label: str) -> list:
    """ the per-clause oracle on one result; `label` names the call that produced it """
    failures = []
    starts = [o[1] for o in output]
    if starts != sorted(starts):
        failures.append(("refine_sorted", {"call": label, "output": output}))
    for out in sorted(set(output)):
        if output.count(out) > 1:
            same = [x for x in inputs if x[0] == out[0] and _ov(x, out) >= 1]
            failures.append(("refine_invented_hit", {
                "call": label, "mode": mode, "hit": list(out), "output": [list(o) for o in output],
                "problem": "returned twice",
                "nested_same_profile_pairs": [[list(a), list(b)] for a in same for b in same
                                              if a != b and a[1] <= b[1] and b[2] <= a[2]][:6]}))
    invented = []
    for out in output:
        if not _legal_output(out, inputs, lengths):
            invented.append(out)
            same = [x for x in inputs if x[0] == out[0] and _ov(x, out) >= 1]
            nested_pairs = [[list(a), list(b)] for a in same for b in same
                            if a != b and a[1] <= b[1] and b[2] <= a[2]]
            failures.append(("refine_invented_hit", {
                "call": label, "mode": mode, "hit": list(out), "output": [list(o) for o in output],
                "same_profile_inputs_under_it": [list(x) for x in same],
                "nested_same_profile_pairs": nested_pairs[:6]}))
    for i, one in enumerate(output):
        for two in output[i + 1:]:
            if one != two and _beyond_margin(one, two, lengths):   # a repeated hit is reported on its own
                between = [x for x in inputs if not _represented(x, [one, two])
                           and min(one[1], two[1]) <= x[1] <= max(one[1], two[1])]
                failures.append(("refine_overlap_beyond_margin", {
                    "call": label, "mode": mode, "pair": [list(one), list(two)], "overlap": _ov(one, two),
                    "margin": 0.2 * max(lengths[one[0]], lengths[two[0]]),
                    "adjacent_in_output": output.index(two) == output.index(one) + 1,
                    "pair_are_inputs": one in inputs and two in inputs,
                    "inputs_sorted_between": [list(x) for x in between]}))
    for hit in inputs:
        if _represented(hit, output):
            continue
        if _explanation(hit, inputs, output, lengths, mode) is None:
            facts = _drop_facts(hit, inputs, output, lengths, mode)
            facts["call"] = label
            facts["under_invented_hit"] = any(o[0] == hit[0] and _ov(o, hit) >= 1 for o in invented)
            failures.append(("refine_unexplained_drop", facts))
    return failures


def _refine_failures(spec: dict) -> tuple:
    mode = spec["mode"]
    neighbour = mode == "neighbour"
    lengths = {key: int(val) for key, val in spec["lengths"].items()}
    raw_hits = [list(raw) for raw in spec["hits"]]
    failures: list = []
    info = {"classes": [f"mode_{mode}", f"n_{min(len(raw_hits), 7)}"]}
    cds_names = sorted({f"cds{raw[5]}" for raw in raw_hits})
    by_cds = {name: [] for name in cds_names}
    for raw in raw_hits:
        hit = _hit_tuple(raw)
        if hit not in by_cds[f"cds{raw[5]}"]:
            by_cds[f"cds{raw[5]}"].append(hit)

    ok, base = _guard("refine_total", failures, _run_refine, raw_hits, lengths, neighbour, False)
    if not ok:
        return failures, info
    if set(base) - set(cds_names):
        failures.append(("refine_invented_hit", {"problem": "unknown protein in the result", "keys": sorted(base)}))
    for name in cds_names:
        if name in base and not base[name]:
            failures.append(("refine_total", {"problem": "empty list kept for a protein", "cds": name}))
        failures.extend(_judge_refine(by_cds[name], base.get(name, []), lengths, mode, "public"))

    # proteins do not influence each other
    if len(cds_names) > 1:
        for name in cds_names:
            solo = [raw for raw in raw_hits if f"cds{raw[5]}" == name]
            ok, alone = _guard("refine_total", failures, _run_refine, solo, lengths, neighbour, False)
            if ok and sorted(alone.get(name, [])) != sorted(base.get(name, [])) and not _has_start_tie(by_cds[name]):
                failures.append(("refine_cds_independent", {"cds": name, "together": base.get(name, []),
                                                            "alone": alone.get(name, [])}))

    # every ordering of the input: the unmodified function on permutations of the list ...
    count = len(raw_hits)
    tie_groups = _start_tie_groups(raw_hits)
    seen_results = {repr(base): "public"}
    for order in _orders(count, tie_groups, full_upto=4):
        permuted = [raw_hits[i] for i in order]
        ok, other = _guard("refine_total", failures, _run_refine, permuted, lengths, neighbour, False)
        if ok and not _same_result(other, base):
            failures.append(("refine_order_public", {"mode": mode, "order": order, "first": base, "permuted": other,
                                                     "equal_start_pairs": _equal_start_pairs(by_cds, base, other)}))
            break
    # ... and every order in which the set could hand equal-start hits to the start-only sort
    ordered_results = []
    for order in [list(range(count))] + _tie_orders(count, tie_groups):
        permuted = [raw_hits[i] for i in order]
        ok, other = _guard("refine_total", failures, _run_refine, permuted, lengths, neighbour, True)
        if not ok:
            break
        ordered_results.append((order, other))
        key = repr(other)
        if key not in seen_results:
            seen_results[key] = f"ties{order}"
            for name in cds_names:
                failures.extend(_judge_refine(by_cds[name], other.get(name, []), lengths, mode, f"ties{order}"))
    if ordered_results:
        first_order, first = ordered_results[0]
        for order, other in ordered_results[1:]:
            if not _same_result(other, first):
                failures.append(("refine_order_ties", {"mode": mode, "orders": [first_order, order], "first": first,
                                                       "other": other,
                                                       "equal_start_pairs": _equal_start_pairs(by_cds, first, other)}))
                break
        if not _same_result(base, first) and not tie_groups_exist(tie_groups):
            failures.append(("refine_order_public", {"mode": mode, "order": "set versus list", "first": base,
                                                     "permuted": first, "equal_start_pairs": []}))

    info["nontrivial"] = _refine_nontrivial(by_cds)
    info["classes"].extend(_refine_classes(by_cds, base, lengths, len(seen_results)))
    info["classes"].append(f"cds_{len(cds_names)}")
    info["classes"].append("some_output" if any(base.values()) else "empty_output")
    return failures, info


def tie_groups_exist(groups: list) -> bool:
    return any(len(g) > 1 for g in groups)


def _start_tie_groups(raw_hits: list) -> list:
    groups: dict = {}
    for index, raw in enumerate(raw_hits):
        groups.setdefault((raw[5], raw[1]), []).append(index)
    return [g for g in groups.values()]


def _has_start_tie(hits: list) -> bool:
    starts = [h[1] for h in hits]
    return len(set(starts)) != len(starts)


def _equal_start_pairs(by_cds: dict, one: dict, two: dict) -> list:
    """ pairs of hits with the same start on the proteins whose results differ """
    pairs = []
    for name, hits in by_cds.items():
        if sorted(one.get(name, [])) == sorted(two.get(name, [])):
            continue
        for hit_a, hit_b in itertools.combinations(hits, 2):
            if hit_a[1] == hit_b[1]:
                pairs.append([list(hit_a), list(hit_b)])
    return pairs[:6]


def _chain(hits: list) -> bool:
    for a, b, c in itertools.permutations(hits, 3):
        if _ov(a, b) >= 1 and _ov(b, c) >= 1 and _ov(a, c) < 1:
            return True
    return False


def _refine_nontrivial(by_cds: dict) -> bool:
    for hits in by_cds.values():
        starts = [h[1] for h in hits]
        scores = [h[3] for h in hits]
        profiles = [h[0] for h in hits]
        if len(set(starts)) < len(starts) or len(set(scores)) < len(scores) or len(set(profiles)) < len(profiles):
            return True
        if len(hits) <= 7 and _chain(hits):
            return True
    return False


def _refine_classes(by_cds: dict, base: dict, lengths: dict, outcomes: int) -> list:
    classes = set()
    for name, hits in by_cds.items():
        out = base.get(name, [])
        if _has_start_tie(hits):
            classes.add("start_tie")
        if len({h[3] for h in hits}) < len(hits):
            classes.add("score_tie")
        if len(hits) <= 7 and _chain(hits):
            classes.add("chain")
        if any(a != b and a[1] <= b[1] and b[2] <= a[2] for a in hits for b in hits):
            classes.add("nested")
        if any(a != b and a[0] == b[0] for a in hits for b in hits):
            classes.add("same_profile_pair")
        if any(o not in hits for o in out):
            classes.add("merged_output")
        if any(not _represented(h, out) for h in hits):
            classes.add("some_dropped")
        if any(2 * (h[2] - h[1]) <= lengths[h[0]] for h in hits):
            classes.add("incomplete_input")
        if any(5 * _ov(a, b) == max(lengths[a[0]], lengths[b[0]]) for a in hits for b in hits if a != b):
            classes.add("overlap_exactly_margin")
        if len(out) >= 2:
            classes.add("two_or_more_kept")
    if outcomes > 1:
        classes.add("several_outcomes_over_orders")
    return sorted(classes)


def check_refine(spec: dict) -> dict:
    failures, info = _refine_failures(spec)
    _raise_first("refine", spec, failures)
    return info


# =========================================================================== hmmer.remove_overlapping

def _hmmer_evalue(identifier: str, score: float) -> float:
    return float(f"1e-{int(score * 2) % 60 + len(identifier)}")


def _make_hmmer_hit(raw: list):
    from antismash.common.hmmer import HmmerHit
    identifier, start, end, score = raw[0], int(raw[1]), int(raw[2]), float(raw[3])
    return HmmerHit(location=f"[{start * 3}:{end * 3}](+)", label="cds0", locus_tag="cds0",
                    domain=f"name_{identifier}", evalue=_hmmer_evalue(identifier, score), score=score,
                    identifier=identifier, description=f"desc {identifier}", protein_start=start,
                    protein_end=end, translation="A" * (end - start))


def _hmmer_key(hit) -> tuple:
    return (hit.identifier, hit.protein_start, hit.protein_end, hit.score)


def _hmmer_rank(key: tuple, cutoffs: dict) -> tuple:
    """ the documented ranking: normalised score, then length, start, identifier (smaller = better) """
    identifier, start, end, score = key
    return (Fraction(cutoffs[identifier]) / Fraction(score), Fraction(1, end - start), start, identifier)


def _hmmer_overlapping(one: tuple, two: tuple, limit: int) -> bool:
    """ at least `limit` shared residues, or one hit inside the other """
    shared = min(one[2], two[2]) - max(one[1], two[1])
    nested = (one[1] <= two[1] and two[2] <= one[2]) or (two[1] <= one[1] and one[2] <= two[2])
    return shared >= limit or (nested and shared >= 1)


def _hmmer_failures(spec: dict) -> tuple:
    from antismash.common.hmmer import remove_overlapping
    limit = int(spec["limit"])
    cutoffs = {key: float(val) for key, val in spec["cutoffs"].items()}
    raw_hits = [list(raw) for raw in spec["hits"]]
    keys = []
    for raw in raw_hits:
        key = (raw[0], int(raw[1]), int(raw[2]), float(raw[3]))
        if key not in keys:
            keys.append(key)
    failures: list = []
    info = {"classes": [f"limit_{limit}", f"n_{min(len(raw_hits), 7)}"]}

    def run(order):
        hits = [_make_hmmer_hit(raw_hits[i]) for i in order]
        before = list(hits)
        result = remove_overlapping(hits, dict(cutoffs), overlap_limit=limit)
        if hits != before:
            raise _InputModified("the input list was modified")
        return [_hmmer_key(hit) for hit in result]

    ok, base = _guard("hmmer_total", failures, run, list(range(len(raw_hits))))
    if not ok:
        return failures, info
    starts = [k[1] for k in base]
    if starts != sorted(starts):
        failures.append(("hmmer_sorted", {"output": base}))
    given = [(raw[0], int(raw[1]), int(raw[2]), float(raw[3])) for raw in raw_hits]
    first_start = min(k[1] for k in given)

    def duplicates(result, order):
        """ hits returned more often than they were given """
        found = []
        for key in sorted(set(result)):
            if result.count(key) > given.count(key):
                leading = [given[i] for i in order if given[i][1] == first_start][0]
                found.append(("hmmer_invented_hit", {
                    "problem": "duplicate", "hit": key, "output": result, "order": order, "limit": limit,
                    "is_first_hit_after_sorting": key == leading, "hit_length": key[2] - key[1]}))
        return found

    def unique(result):
        out = []
        for key in result:
            if key not in out:
                out.append(key)
        return out

    failures.extend(duplicates(base, list(range(len(raw_hits)))))
    for out in base:
        if out not in keys:
            failures.append(("hmmer_invented_hit", {"hit": out, "output": base}))
    for i, one in enumerate(unique(base)):
        for two in unique(base)[i + 1:]:
            overlap = min(one[2], two[2]) - max(one[1], two[1])
            if overlap > limit:
                failures.append(("hmmer_overlap_beyond_limit", {"pair": [one, two], "overlap": overlap,
                                                                "limit": limit}))
    for key in keys:
        if key in base:
            continue
        rank = _hmmer_rank(key, cutoffs)
        displacers = [o for o in base if _hmmer_rank(o, cutoffs) < rank and _hmmer_overlapping(o, key, limit)]
        if not displacers:
            failures.append(("hmmer_unexplained_drop", {"hit": key, "output": base, "limit": limit}))
    tie_groups = [[i for i, raw in enumerate(raw_hits) if raw[1] == start]
                  for start in sorted({raw[1] for raw in raw_hits})]
    seen_duplicate = any(clause == "hmmer_invented_hit" for clause, _ in failures)
    for order in _orders(len(raw_hits), tie_groups, full_upto=5):
        ok, other = _guard("hmmer_total", failures, run, order)
        if not ok:
            break
        if not seen_duplicate:
            found = duplicates(other, order)
            failures.extend(found)
            seen_duplicate = bool(found)
        # the same hits must survive; repeats are reported on their own and the order of hits that
        # start at the same residue is not part of "ordered by position"
        if sorted(set(other)) != sorted(set(base)):
            failures.append(("hmmer_order", {"order": order, "first": base, "permuted": other}))
            break
    ranks = [_hmmer_rank(k, cutoffs)[0] for k in keys]
    info["nontrivial"] = (len(set(ranks)) < len(ranks) or len({k[1] for k in keys}) < len(keys)
                          or (len(keys) <= 7 and _chain([("", k[1], k[2]) for k in keys])))
    classes = info["classes"]
    if len(set(ranks)) < len(ranks):
        classes.append("normalised_score_tie")
    if len({k[1] for k in keys}) < len(keys):
        classes.append("start_tie")
    if len(keys) <= 7 and _chain([("", k[1], k[2]) for k in keys]):
        classes.append("chain")
    if len(base) < len(keys):
        classes.append("some_dropped")
    if len(base) >= 2:
        classes.append("two_or_more_kept")
    if any(min(a[2], b[2]) - max(a[1], b[1]) in (limit - 1, limit, limit + 1)
           for a, b in itertools.combinations(keys, 2)):
        classes.append("overlap_at_limit")
    return failures, info


def check_hmmer(spec: dict) -> dict:
    failures, info = _hmmer_failures(spec)
    _raise_first("hmmer", spec, failures)
    return info


# =========================================================================== filter_results / filter_result_multiple

class _FakeHSP:
    """ the attributes the filters read; hashes like an object at a spec-given address """
    def __init__(self, query_id, hit_id, hit_start, hit_end, bitscore, address):
        self.query_id = query_id
        self.hit_id = hit_id
        self.hit_start = hit_start
        self.hit_end = hit_end
        self.bitscore = bitscore
        self.evalue = float(f"1e-{int(bitscore)}")
        self._address = address

    def __hash__(self) -> int:
        return self._address

    def key(self) -> tuple:
        return (self.hit_id, self.query_id, self.hit_start, self.hit_end, self.bitscore)


def _filter_components(hits: list) -> list:
    """ connected components of the 'overlap by more than 20' graph over one gene's hits (indices) """
    parent = list(range(len(hits)))

    def find(i):
        while parent[i] != i:
            parent[i] = parent[parent[i]]
            i = parent[i]
        return i

    for i, j in itertools.combinations(range(len(hits)), 2):
        if min(hits[i][3], hits[j][3]) - max(hits[i][2], hits[j][2]) > 20:
            parent[find(i)] = find(j)
    comps: dict = {}
    for i in range(len(hits)):
        comps.setdefault(find(i), []).append(i)
    return list(comps.values())


def _run_filters(raw_hits: list, groups: list, order: list, addresses: list) -> dict:
    from antismash.common.hmm_rule_parser.cluster_prediction import filter_result_multiple, filter_results
    hsps = []
    for index in order:
        raw = raw_hits[index]
        hsps.append(_FakeHSP(raw[1], f"cds{raw[0]}", int(raw[2]), int(raw[3]), float(raw[4]), addresses[index]))
    results = list(hsps)
    by_id: dict = {}
    for hsp in results:
        by_id.setdefault(hsp.hit_id, []).append(hsp)
    stage1, stage1_by_id = filter_results(results, by_id, [set(group) for group in groups])
    first = {"results": [h.key() for h in stage1],
             "by_id": {cds: [h.key() for h in hits] for cds, hits in stage1_by_id.items()}}
    stage2, stage2_by_id = filter_result_multiple(stage1, stage1_by_id)
    second = {"results": [h.key() for h in stage2],
              "by_id": {cds: [h.key() for h in hits] for cds, hits in stage2_by_id.items()}}
    return {"first": first, "second": second}


def _filter_failures(spec: dict) -> tuple:
    groups = [list(group) for group in spec["groups"]]
    raw_hits = [list(raw) for raw in spec["hits"]]
    count = len(raw_hits)
    addresses = list(spec.get("addresses") or range(count))
    failures: list = []
    info = {"classes": [f"n_{min(count, 8)}"]}
    keys = [(f"cds{raw[0]}", raw[1], int(raw[2]), int(raw[3]), float(raw[4])) for raw in raw_hits]
    distinct = len(set(keys)) == len(keys)
    by_cds: dict = {}
    for key in keys:
        by_cds.setdefault(key[0], []).append(key)

    ok, base = _guard("filter_total", failures, _run_filters, raw_hits, groups, list(range(count)), addresses)
    if not ok:
        return failures, info
    first, second = base["first"], base["second"]

    # stage 1: competition between equivalent profiles
    for stage, label in ((first, "filter_results"), (second, "filter_result_multiple")):
        flat = sorted(key for hits in stage["by_id"].values() for key in hits)
        if sorted(stage["results"]) != flat:
            failures.append(("filter_inconsistent", {"stage": label, "results": stage["results"],
                                                     "by_id": stage["by_id"]}))
        for key in stage["results"]:
            if key not in keys:
                failures.append(("filter_invented_hit", {"stage": label, "hit": key}))
        if len(stage["results"]) > len(set(stage["results"])) and distinct:
            failures.append(("filter_invented_hit", {"stage": label, "problem": "duplicate",
                                                     "results": stage["results"]}))
    if distinct:
        kept_order = [key for key in keys if key in first["results"]]
        if kept_order != first["results"]:
            failures.append(("filter_order_changed", {"input": keys, "results": first["results"]}))
    tied_somewhere = False
    for cds, hits in by_cds.items():
        kept = first["by_id"].get(cds, [])
        profiles = {h[1] for h in hits}
        competing = any(len(profiles & set(group)) >= 2 for group in groups)
        comps = _filter_components(hits)
        if competing:
            for one, two in itertools.combinations(kept, 2):
                if min(one[3], two[3]) - max(one[2], two[2]) > 20:
                    failures.append(("filter_survivors_overlap", {"cds": cds, "pair": [one, two], "kept": kept}))
        for comp in comps:
            members = [hits[i] for i in comp]
            best = max(h[4] for h in members)
            top = [h for h in members if h[4] == best]
            if len(top) > 1 and len(comp) > 1:
                tied_somewhere = True
            if not any(h in kept for h in top):
                failures.append(("filter_best_of_group_lost", {
                    "cds": cds, "group": members, "kept": kept, "tied_best": len(top) > 1,
                    "competing_profiles_present": competing}))
            for hit in members:
                if hit in kept:
                    continue
                if not competing:
                    failures.append(("filter_dropped_without_competition", {"cds": cds, "hit": hit, "kept": kept}))
                elif len(comp) == 1:
                    failures.append(("filter_dropped_without_overlap", {"cds": cds, "hit": hit, "kept": kept}))
    # stage 2: one hit per profile and gene, the best-scoring one
    starts = [key[2] for key in second["results"]]
    if starts != sorted(starts):
        failures.append(("filter_sorted", {"results": second["results"]}))
    for cds, hits in first["by_id"].items():
        final = second["by_id"].get(cds, [])
        for profile in sorted({h[1] for h in hits}):
            candidates = [h for h in hits if h[1] == profile]
            survivors = [h for h in final if h[1] == profile]
            best = max(h[4] for h in candidates)
            if len([h for h in candidates if h[4] == best]) > 1:
                tied_somewhere = True
            if len(survivors) != 1 or survivors[0][4] != best or survivors[0] not in candidates:
                failures.append(("filter_best_of_profile", {"cds": cds, "profile": profile,
                                                            "candidates": candidates, "survivors": survivors}))
    for cds in second["by_id"]:
        if cds not in first["by_id"]:
            failures.append(("filter_invented_hit", {"stage": "filter_result_multiple", "cds": cds}))

    # every ordering of the input list (same objects, same addresses) and every placing in memory
    def outcome(result):
        return (sorted(result["first"]["results"]), sorted(result["second"]["results"]))

    def difference(one, two):
        """ which stage differs, which hits, and whether each of them has an equal-scoring rival """
        changed1 = sorted(set(one[0]) ^ set(two[0]))
        changed2 = sorted(set(one[1]) ^ set(two[1]))
        facts = {"first": one, "other": two, "stage1_differs": bool(changed1), "changed_stage1": changed1,
                 "changed_stage2": changed2}
        rivals1 = []
        for hit in changed1:
            hits = by_cds[hit[0]]
            comp = [c for c in _filter_components(hits) if hits.index(hit) in c][0]
            rivals1.append(any(hits[i] != hit and hits[i][4] == hit[4] for i in comp))
        facts["stage1_changed_hits_all_tied_in_their_group"] = all(rivals1)
        chains1 = []
        for hit in changed1:
            hits = by_cds[hit[0]]
            comp = [c for c in _filter_components(hits) if hits.index(hit) in c][0]
            clique = all(min(hits[i][3], hits[j][3]) - max(hits[i][2], hits[j][2]) > 20
                         for i, j in itertools.combinations(comp, 2))
            chains1.append(len(comp) >= 5 and not clique)
        facts["stage1_changed_hits_all_in_chained_group_of_5"] = all(chains1)
        facts["stage2_changed_hits_all_tied_in_their_profile"] = all(
            any(o != hit and o[0] == hit[0] and o[1] == hit[1] and o[4] == hit[4] for o in keys)
            for hit in changed2)
        return facts

    tie_groups = [list(range(count))]
    for order in _orders(count, tie_groups, full_upto=4):
        ok, other = _guard("filter_total", failures, _run_filters, raw_hits, groups, order, addresses)
        if ok and outcome(other) != outcome(base):
            facts = difference(outcome(base), outcome(other))
            facts["order"] = order
            failures.append(("filter_order", facts))
            break
    for shuffled in spec.get("other_addresses") or []:
        ok, other = _guard("filter_total", failures, _run_filters, raw_hits, groups, list(range(count)),
                           list(shuffled))
        if ok and outcome(other) != outcome(base):
            facts = difference(outcome(base), outcome(other))
            facts["addresses"] = [addresses, list(shuffled)]
            failures.append(("filter_order_addresses", facts))
            break
    info["nontrivial"] = tied_somewhere or any(len(c) > 2 for hits in by_cds.values()
                                               for c in _filter_components(hits)) or \
        len(first["results"]) < count
    classes = info["classes"]
    if tied_somewhere:
        classes.append("score_tie")
    if len(first["results"]) < count:
        classes.append("stage1_dropped")
    if len(second["results"]) < len(first["results"]):
        classes.append("stage2_dropped")
    if any(len(c) > 2 for hits in by_cds.values() for c in _filter_components(hits)):
        classes.append("group_of_three_or_more")
    if any(_chain([("", h[2], h[3]) for h in hits]) for hits in by_cds.values() if len(hits) <= 7):
        classes.append("chain")
    if any(min(a[3], b[3]) - max(a[2], b[2]) in (20, 21) for hits in by_cds.values()
           for a, b in itertools.combinations(hits, 2)):
        classes.append("overlap_20_or_21")
    classes.append(f"cds_{len(by_cds)}")
    return failures, info


def check_filter(spec: dict) -> dict:
    failures, info = _filter_failures(spec)
    _raise_first("filter", spec, failures)
    return info


# =========================================================================== find_hmmer_hits (composition)

def _run_find_hmmer_hits(raw_hits: list, groups: list, cutoffs: dict, order: list, addresses: list) -> dict:
    """ the real find_hmmer_hits; only the external hmmsearch runner is replaced and delivers the generated
        hits as hmmsearch does: one result per profile, the proteins as hits.  query_start carries the index of
        the hit in the spec, so that returned hits are identified exactly """
    import types
    from antismash.common.hmm_rule_parser import cluster_prediction
    from antismash.common.signature import HmmSignature
    from vlib.build import make_cds, make_record
    genes = sorted({raw[0] for raw in raw_hits})
    record = make_record(60 + 70 * len(genes), False)
    for number, gene in enumerate(genes):
        record.add_cds_feature(make_cds({"parts": [[9 + 70 * number, 69 + 70 * number]], "strand": 1}, f"cds{gene}"))
    by_profile: dict = {}
    for index in order:
        raw = raw_hits[index]
        hsp = _FakeHSP(raw[1], f"cds{raw[0]}", int(raw[2]), int(raw[3]), float(raw[4]), addresses[index])
        hsp.query_start = index
        hsp.query_end = index + 1
        by_profile.setdefault(raw[1], []).append(hsp)
    run_results = [types.SimpleNamespace(id=profile, accession=f"{profile}.1", hsps=hsps)
                   for profile, hsps in by_profile.items()]
    signatures = {profile: HmmSignature(profile, "generated", int(cutoff), "generated.hmm", seed_count=3)
                  for profile, cutoff in cutoffs.items()}
    original = cluster_prediction.run_hmmsearch
    cluster_prediction.run_hmmsearch = lambda *args, **kwargs: run_results
    try:
        found = cluster_prediction.find_hmmer_hits(record, signatures, "generated.hmm",
                                                   [frozenset(group) for group in groups])
    finally:
        cluster_prediction.run_hmmsearch = original
    return {gene: [(hit.query_id, hit.query_start, hit.bitscore) for hit in hits] for gene, hits in found.items()}


def _compose_failures(spec: dict) -> tuple:
    groups = [list(group) for group in spec["groups"]]
    cutoffs = {key: int(val) for key, val in spec["cutoffs"].items()}
    raw_hits = [list(raw) for raw in spec["hits"]]
    count = len(raw_hits)
    addresses = list(spec.get("addresses") or range(count))
    failures: list = []
    # (gene, profile, start, end, score, index) of the hits above their profile's cutoff
    inputs = [(f"cds{raw[0]}", raw[1], int(raw[2]), int(raw[3]), float(raw[4]), index)
              for index, raw in enumerate(raw_hits) if float(raw[4]) > cutoffs[raw[1]]]
    by_gene: dict = {}
    for hit in inputs:
        by_gene.setdefault(hit[0], []).append(hit)
    info = {"classes": [f"n_{min(count, 8)}", f"genes_{len(by_gene)}"]}

    ok, base = _guard("compose_total", failures, _run_find_hmmer_hits, raw_hits, groups, cutoffs,
                      list(range(count)), addresses)
    if not ok:
        return failures, info
    by_index = {hit[5]: hit for hit in inputs}
    kept_by_gene: dict = {}
    for gene, hits in base.items():
        if not hits:
            failures.append(("compose_total", {"problem": "empty list kept", "gene": gene}))
        kept = []
        for profile, index, score in hits:
            hit = by_index.get(index)
            if hit is None or hit[0] != gene or hit[1] != profile or hit[4] != score or hit in kept:
                failures.append(("compose_invented_hit", {"gene": gene, "returned": [profile, index, score],
                                                          "problem": "not a hit above the cutoff on this gene, "
                                                                     "or returned twice"}))
            else:
                kept.append(hit)
        kept_by_gene[gene] = kept
        starts = [hit[2] for hit in kept]
        if starts != sorted(starts):
            failures.append(("compose_sorted", {"gene": gene, "kept": kept}))

    lost_a_profile = False
    competing_somewhere = False
    for gene, hits in by_gene.items():
        kept = kept_by_gene.get(gene, [])
        profiles = {hit[1] for hit in hits}
        competing = any(len(profiles & set(group)) >= 2 for group in groups)
        competing_somewhere = competing_somewhere or competing
        comps = _filter_components([(h[0], h[1], h[2], h[3], h[4]) for h in hits])
        comp_of = {}
        for comp in comps:
            for i in comp:
                comp_of[hits[i]] = [hits[j] for j in comp]
        for profile in sorted(profiles):
            survivors = [hit for hit in kept if hit[1] == profile]
            if len(survivors) > 1:
                failures.append(("compose_one_per_profile", {"gene": gene, "profile": profile, "kept": survivors}))
            # hits of the profile that nothing can take out of the competition between equivalent profiles:
            # the gene has no competition, or every other hit of their overlapping group scores strictly lower
            winners = [hit for hit in hits if hit[1] == profile and (
                not competing or all(other[4] < hit[4] for other in comp_of[hit] if other != hit))]
            if winners:
                need = max(hit[4] for hit in winners)
                if not any(hit[4] >= need for hit in survivors):
                    lost_a_profile = True
                    failures.append(("compose_best_of_profile_lost", {
                        "gene": gene, "profile": profile, "competing_profiles_present": competing,
                        "unbeaten_hits_of_profile": winners, "kept_of_profile": survivors, "kept": kept,
                        "hits": hits}))
        if competing:
            for one, two in itertools.combinations(kept, 2):
                if min(one[3], two[3]) - max(one[2], two[2]) > 20:
                    failures.append(("compose_survivors_overlap", {"gene": gene, "pair": [one, two]}))
        for hit in hits:
            if hit in kept:
                continue
            # explained by a kept hit of its own profile scoring at least as high, or - where equivalent profiles
            # compete - by a KEPT hit of its overlapping group scoring at least as high
            own = any(k[1] == hit[1] and k[4] >= hit[4] for k in kept)
            rival = competing and any(other != hit and other in kept and other[4] >= hit[4]
                                      for other in comp_of[hit])
            if not own and not rival:
                top = max(other[4] for other in comp_of[hit])
                displacers = []
                for other in comp_of[hit]:
                    if other == hit or other in kept or other[4] < hit[4]:
                        continue
                    favoured = [k for k in kept if k[1] == other[1] and k[4] >= other[4] and k not in comp_of[hit]]
                    displacers.append({
                        "hit": other, "best_of_the_overlapping_group": other[4] == top,
                        "profile_equivalent_to_dropped": any(other[1] in group and hit[1] in group
                                                             for group in groups),
                        "kept_own_profile_hits_outside_the_group": favoured})
                failures.append(("compose_unexplained_drop", {"gene": gene, "hit": hit, "kept": kept,
                                                              "competing_profiles_present": competing,
                                                              "dropped_displacers": displacers}))
    for gene in base:
        if gene not in by_gene:
            failures.append(("compose_invented_hit", {"gene": gene, "problem": "gene without hits above cutoff"}))

    def outcome(result):
        # by content: two generated hits with the same gene, profile, position and score are the same hit
        return {gene: sorted((profile, raw_hits[index][2], raw_hits[index][3], score)
                             for profile, index, score in hits if 0 <= index < count)
                for gene, hits in result.items()}

    for order in _orders(count, [list(range(count))], full_upto=4):
        ok, other = _guard("compose_total", failures, _run_find_hmmer_hits, raw_hits, groups, cutoffs, order,
                           addresses)
        if ok and outcome(other) != outcome(base):
            failures.append(("compose_order", {"order": order, "first": outcome(base), "permuted": outcome(other)}))
            break
    for shuffled in spec.get("other_addresses") or []:
        ok, other = _guard("compose_total", failures, _run_find_hmmer_hits, raw_hits, groups, cutoffs,
                           list(range(count)), list(shuffled))
        if ok and outcome(other) != outcome(base):
            failures.append(("compose_order", {"addresses": list(shuffled), "first": outcome(base),
                                               "permuted": outcome(other)}))
            break
    several = any(len([h for h in hits if h[1] == p]) > 1 for hits in by_gene.values() for p in {h[1] for h in hits})
    beaten_best = False
    for gene, hits in by_gene.items():
        for profile in {h[1] for h in hits}:
            own = [h for h in hits if h[1] == profile]
            best = max(own, key=lambda h: h[4])
            if len(own) > 1 and best not in kept_by_gene.get(gene, []):
                beaten_best = True
    info["nontrivial"] = competing_somewhere and several
    classes = info["classes"]
    if competing_somewhere:
        classes.append("competition")
    if several:
        classes.append("several_hits_of_a_profile")
    if beaten_best:
        classes.append("best_of_profile_beaten_second_hit_present")
    if len(inputs) < count:
        classes.append("hit_below_cutoff")
    if sum(len(v) for v in kept_by_gene.values()) < len(inputs):
        classes.append("some_dropped")
    del lost_a_profile
    return failures, info


def check_compose(spec: dict) -> dict:
    failures, info = _compose_failures(spec)
    _raise_first("compose", spec, failures)
    return info


# =========================================================================== docking domains

def _docking_failures(spec: dict) -> tuple:
    from antismash.common.hmmscan_refinement import HMMResult
    from antismash.detection.nrps_pks_domains.domain_identification import filter_nonterminal_docking_domains
    from vlib.build import make_cds, make_record
    failures: list = []
    proteins = spec["proteins"]      # [{"length": n, "hits": [[profile, start, end], ...]}, ...]
    total = sum(3 * p["length"] + 30 for p in proteins) + 30
    record = make_record(total, False)
    position = 9
    names = []
    for index, protein in enumerate(proteins):
        name = f"cds{index}"
        names.append(name)
        size = 3 * protein["length"]
        record.add_cds_feature(make_cds({"parts": [[position, position + size]], "strand": 1}, name,
                                        translation="M" + "A" * (protein["length"] - 1)))
        position += size + 30

    def run(order_by_protein):
        domains = {}
        for name, protein, order in zip(names, proteins, order_by_protein):
            if not protein["hits"]:
                continue
            domains[name] = [HMMResult(protein["hits"][i][0], protein["hits"][i][1], protein["hits"][i][2],
                                       1e-10, 25.0) for i in order]
        before = {name: list(hits) for name, hits in domains.items()}
        result = filter_nonterminal_docking_domains(record, domains)
        if {name: list(hits) for name, hits in domains.items()} != before:
            raise _InputModified("the input was modified")
        return {name: [(h.hit_id, h.query_start, h.query_end) for h in hits] for name, hits in result.items()}

    identity = [list(range(len(p["hits"]))) for p in proteins]
    ok, base = _guard("docking_total", failures, run, identity)
    classes = [f"proteins_{len(proteins)}"]
    nontrivial = False
    if not ok:
        return failures, {"classes": classes, "nontrivial": False}
    for name, protein in zip(names, proteins):
        length = protein["length"]
        hits = [(h[0], h[1], h[2]) for h in protein["hits"]]
        got = base.get(name)
        if got is not None and not got:
            failures.append(("docking_total", {"problem": "empty list kept", "cds": name}))
        got = got or []
        want = []
        for hit in hits:
            terminal = hit[1] < 50 or hit[2] > length - 50
            if hit[0] not in DOCKING or terminal:
                want.append(hit)
            if hit[0] in DOCKING:
                nontrivial = True
                classes.append("docking_terminal" if terminal else "docking_internal")
                if hit[1] in (49, 50) or length - hit[2] in (49, 50):
                    classes.append("docking_at_boundary")
        for hit in got:
            if hit not in hits:
                failures.append(("docking_invented_hit", {"cds": name, "hit": hit}))
        kept_in_order = [hit for hit in hits if hit in got]
        if len(set(hits)) == len(hits) and kept_in_order != got:
            failures.append(("docking_order_changed", {"cds": name, "input": hits, "output": got}))
        for hit in hits:
            if hit not in got and hit[0] not in DOCKING:
                failures.append(("docking_dropped_other_domain", {"cds": name, "hit": hit, "output": got}))
            elif hit not in got and hit in want:
                failures.append(("docking_dropped_terminal", {"cds": name, "hit": hit, "length": length}))
            elif hit in got and hit not in want:
                failures.append(("docking_kept_internal", {"cds": name, "hit": hit, "length": length}))
    for name in base:
        if name not in names:
            failures.append(("docking_invented_hit", {"cds": name}))
    reverse = [list(reversed(order)) for order in identity]
    rotated = [order[1:] + order[:1] for order in identity]
    for orders in (reverse, rotated):
        ok, other = _guard("docking_total", failures, run, orders)
        if ok and {k: sorted(v) for k, v in other.items()} != {k: sorted(v) for k, v in base.items()}:
            failures.append(("docking_order", {"orders": orders, "first": base, "permuted": other}))
    return failures, {"classes": sorted(set(classes)), "nontrivial": nontrivial}


def check_docking(spec: dict) -> dict:
    failures, info = _docking_failures(spec)
    _raise_first("docking", spec, failures)
    return info


SUBCHECKS = {
    "refine": check_refine,
    "refine_enum": check_refine,
    "refine_enum_sampled": check_refine,
    "hmmer": check_hmmer,
    "hmmer_enum": check_hmmer,
    "filter": check_filter,
    "compose": check_compose,
    "docking": check_docking,
}

SIGNATURES: dict = {}


def _sig(func):
    SIGNATURES[func.__name__.lstrip("_")] = func
    return func


def _is_refine(sub: str) -> bool:
    return sub in ("refine", "refine_enum", "refine_enum_sampled")


@_sig
def _refine_equal_start_order(sub, spec, clause, detail) -> bool:
    """ (a) results differ between two input orders AND two hits of one protein start at the same residue """
    return (_is_refine(sub) and clause in ("refine_order_public", "refine_order_ties")
            and bool(detail.get("equal_start_pairs")))


@_sig
def _refine_overlap_not_adjacent(sub, spec, clause, detail) -> bool:
    """ (b) two kept hits overlap beyond the margin AND another input hit sorts between them, so that the
        single pass never compared the two """
    return (_is_refine(sub) and clause == "refine_overlap_beyond_margin"
            and bool(detail.get("inputs_sorted_between")))


@_sig
def _refine_displacer_displaced(sub, spec, clause, detail) -> bool:
    """ (c) an unexplained drop whose displacer (a hit or merged domain that ranks at least as high and lies
        over it) was not kept itself and has a rival ranking at least as high lying over it """
    return (_is_refine(sub) and clause == "refine_unexplained_drop"
            and any(not d["kept"] and d["has_rival_at_least_as_good"] for d in detail.get("displacers", [])))


@_sig
def _refine_displacer_incomplete(sub, spec, clause, detail) -> bool:
    """ (c') an unexplained drop whose displacer is an incomplete fragment that was removed afterwards """
    return (_is_refine(sub) and clause == "refine_unexplained_drop"
            and any(not d["kept"] and d["incomplete"] for d in detail.get("displacers", [])))


@_sig
def _refine_list_mode_earlier_domain_lost(sub, spec, clause, detail) -> bool:
    """ list mode: an unexplained drop of a hit that is followed by a same-profile hit too far away to be merged """
    return (_is_refine(sub) and clause == "refine_unexplained_drop" and detail.get("mode") == "list"
            and bool(detail.get("later_unmergeable_same_profile")))


@_sig
def _refine_merge_of_nested_fragments(sub, spec, clause, detail) -> bool:
    """ a same-profile pair with one hit inside the other (or both starting together) is merged to something
        that does not span them: an output hit that is no input and no legal merge, or the lost outer hit """
    if not _is_refine(sub):
        return False
    if clause == "refine_invented_hit":
        return bool(detail.get("nested_same_profile_pairs"))
    if clause == "refine_unexplained_drop":
        return bool(detail.get("nested_same_profile")) or any(
            not d["kept"] and d["nested_fragments"] for d in detail.get("displacers", []))
    return False


@_sig
def _hmmer_short_first_hit_repeated(sub, spec, clause, detail) -> bool:
    """ the first hit (by start) is shorter than overlap_limit and is returned twice """
    if sub not in ("hmmer", "hmmer_enum"):
        return False
    if clause == "hmmer_invented_hit":
        return (detail.get("problem") == "duplicate" and detail.get("is_first_hit_after_sorting") is True
                and detail.get("hit_length", 10 ** 9) < detail.get("limit", 0))
    return False


def _spec_has_tied_best_group(spec: dict) -> bool:
    by_cds: dict = {}
    for raw in spec["hits"]:
        by_cds.setdefault(raw[0], []).append((f"cds{raw[0]}", raw[1], int(raw[2]), int(raw[3]), float(raw[4])))
    for hits in by_cds.values():
        for comp in _filter_components(hits):
            scores = [hits[i][4] for i in comp]
            if len(comp) > 1 and scores.count(max(scores)) > 1:
                return True
    return False


@_sig
def _filter_equal_scores_in_group(sub, spec, clause, detail) -> bool:
    """ filter_results decides equal best scores inside an overlapping group by set order: the survivors
        differ between two orders / memory placings and every hit that changed has an equal-scoring rival in
        its group; or two overlapping 'groups' elect different winners, every tied best hit is removed and the
        function stops on its own `assert results_by_id[cds]` """
    if sub != "filter":
        return False
    if clause in ("filter_order", "filter_order_addresses"):
        return (detail.get("stage1_differs") is True
                and detail.get("stage1_changed_hits_all_tied_in_their_group") is True)
    if clause == "filter_best_of_group_lost":
        return detail.get("tied_best") is True
    if clause == "filter_total":
        return (detail.get("exception") == "AssertionError" and detail.get("where", "").endswith("filter_results")
                and _spec_has_tied_best_group(spec))
    return False


@_sig
def _filter_groups_not_merged(sub, spec, clause, detail) -> bool:
    """ filter_results adds a pair to every group it touches but never joins two groups that a pair connects:
        the survivors differ between two input orders AND every hit that changed sits in an overlapping group of
        at least five hits that is a chain (some two of its members do not overlap each other directly) """
    return (sub == "filter" and clause in ("filter_order", "filter_order_addresses")
            and detail.get("stage1_differs") is True
            and detail.get("stage1_changed_hits_all_in_chained_group_of_5") is True)


@_sig
def _compose_displacer_dropped_by_profile_stage(sub, spec, clause, detail) -> bool:
    """ find_hmmer_hits: an unexplained drop on a gene with competing equivalent profiles AND the best hit of the
        dropped hit's overlapping group (scoring at least as high) is itself not kept while a hit of that winner's
        own profile, scoring at least as high and lying outside the group, is kept: the winner of the competition
        was removed afterwards by the one-hit-per-profile stage and its losers were not reconsidered """
    return (sub == "compose" and clause == "compose_unexplained_drop"
            and detail.get("competing_profiles_present") is True
            and any(d["best_of_the_overlapping_group"] and d["kept_own_profile_hits_outside_the_group"]
                    for d in detail.get("dropped_displacers", [])))


@_sig
def _filter_equal_scores_in_profile(sub, spec, clause, detail) -> bool:
    """ filter_result_multiple: after an identical first stage the survivors differ between two input orders
        AND every hit that changed has an equal-scoring hit of the same profile on the same gene """
    return (sub == "filter" and clause == "filter_order" and detail.get("stage1_differs") is False
            and bool(detail.get("changed_stage2"))
            and detail.get("stage2_changed_hits_all_tied_in_their_profile") is True)


# =========================================================================== generators

PROFILE_POOL = [("pA", 10), ("pB", 50), ("pC", 100), ("pD_regulator", 20), ("pE", 10), ("pF", 100)]
SCORES = [10.0, 20.0, 30.0]


@st.composite
def _profiles(draw, low: int = 2, high: int = 5) -> dict:
    count = draw(st.integers(low, high))
    start = draw(st.integers(0, len(PROFILE_POOL) - 1))
    picked = [PROFILE_POOL[(start + i) % len(PROFILE_POOL)] for i in range(count)]
    lengths = {}
    for name, size in picked:
        lengths[name] = draw(st.sampled_from([size, size, size, 10, 50, 100, 30]))
    return lengths


def _size_choices(full: int) -> list:
    third, half, span = full // 3, full // 2, (3 * full) // 2
    sizes = {1, 2, third - 1, third, third + 1, half - 1, half, half + 1, (6 * full) // 10, full - 1, full,
             full + 1, span - 1, span, span + 1, full // 5, full // 5 + 1}
    return sorted(s for s in sizes if s >= 1)


@st.composite
def _one_hit(draw, lengths: dict, earlier: list) -> list:
    """ [profile, start, end, score, evalue exponent] built relative to earlier hits """
    names = sorted(lengths)
    kind = draw(st.sampled_from(["free", "rel", "rel", "rel", "rel", "frag", "copy"])) if earlier else "free"
    if kind == "copy":
        ref = draw(st.sampled_from(earlier))
        hit = list(ref[:5])
        change = draw(st.sampled_from(["none", "score", "profile", "end", "evalue"]))
        if change == "score":
            hit[3] = draw(st.sampled_from(SCORES))
        elif change == "profile":
            hit[0] = draw(st.sampled_from(names))
        elif change == "end":
            hit[2] = max(hit[1] + 1, hit[2] + draw(st.integers(-3, 3)))
        elif change == "evalue":
            hit[4] = draw(st.integers(1, 40))
        return hit
    if kind == "frag":
        ref = draw(st.sampled_from(earlier))
        profile = ref[0]
    else:
        profile = draw(st.sampled_from(names))
    full = lengths[profile]
    whole = sorted({full // 2 + 1, (6 * full) // 10, full - 1, full, full + 1})
    size = draw(st.one_of(st.sampled_from(whole), st.sampled_from(whole), st.sampled_from(_size_choices(full)),
                          st.integers(1, max(2, (3 * full) // 2))))
    if kind == "free":
        start = draw(st.integers(0, 300))
    elif kind == "rel":
        ref = draw(st.sampled_from(earlier))
        margin = max(full, lengths[ref[0]]) // 5
        anchor = draw(st.sampled_from([ref[1], ref[1] + 1, ref[1] - 1, ref[2] - margin - 1, ref[2] - margin,
                                       ref[2] - margin + 1, ref[2], ref[2] - 1, ref[1] + (ref[2] - ref[1]) // 2,
                                       ref[1] - size + margin, ref[1] - size + margin + 1, ref[1] - size,
                                       ref[2] - size]))
        start = max(0, anchor)
    else:  # frag: same profile, end placed around the span rule measured from the reference start
        span = (3 * full) // 2
        end = ref[1] + draw(st.sampled_from([span - 1, span, span + 1, span + 20, span // 2, size]))
        direction = draw(st.booleans())
        if direction:
            start = max(ref[1], end - size)
            size = max(1, end - start)
        else:  # the new fragment comes first
            start = max(0, ref[2] - draw(st.sampled_from([span - 1, span, span + 1, span // 2])))
            size = max(1, min(size, max(1, ref[1] - start + draw(st.integers(-2, 5)))))
    score = draw(st.one_of(st.sampled_from(SCORES), st.sampled_from(SCORES), st.integers(1, 400).map(lambda v: v / 10)))
    exponent = draw(st.one_of(st.just(int(score)), st.integers(1, 40)))
    return [profile, int(start), int(start + size), float(score), int(exponent)]


@st.composite
def refine_specs(draw) -> dict:
    lengths = draw(_profiles())
    count = draw(st.sampled_from([1, 2, 2, 3, 3, 3, 4, 4, 4, 5, 5, 6, 7]))
    two_proteins = draw(st.integers(0, 9)) == 0
    hits: list = []
    for _ in range(count):
        hit = draw(_one_hit(lengths, hits))
        hit.append(draw(st.integers(0, 1)) if two_proteins else 0)
        hits.append(hit)
    order = draw(st.permutations(list(range(count))))
    return {"mode": draw(st.sampled_from(["list", "neighbour"])), "lengths": lengths,
            "hits": [hits[i] for i in order]}


GRID = [0, 4, 6, 10, 12, 18]   # pA: 2 noise, 4 incomplete, >= 6 complete, margin 2; pB: <= 6 noise, 8 incomplete, >= 12 complete, margin 4


def _grid_hits() -> list:
    hits = []
    for profile in ("pA", "pB"):
        for start, end in itertools.combinations(GRID, 2):
            for score in (10.0, 20.0):
                hits.append([profile, start, end, score, int(score), 0])
    return hits


def enum_refine(max_hits: int, modes=("list", "neighbour")):
    """ every set of <= max_hits distinct hits over the grid; pA is 10 long (margin 2), pB 20 (margin 4) """
    def cases():
        pool = _grid_hits()
        for size in range(1, max_hits + 1):
            for combo in itertools.combinations(pool, size):
                for mode in modes:
                    yield {"mode": mode, "lengths": {"pA": 10, "pB": 20}, "hits": [list(h) for h in combo]}
    return cases


def enum_refine_sampled(max_hits: int, stride: int, offset: int):
    """ sets of exactly max_hits hits over the grid, every stride-th one """
    def cases():
        pool = _grid_hits()
        for index, combo in enumerate(itertools.combinations(pool, max_hits)):
            if index % stride != offset:
                continue
            mode = "list" if (index // stride) % 2 == 0 else "neighbour"
            yield {"mode": mode, "lengths": {"pA": 10, "pB": 20}, "hits": [list(h) for h in combo]}
    return cases


@st.composite
def hmmer_specs(draw) -> dict:
    limit = draw(st.sampled_from([1, 10, 10, 10, 100]))
    names = ["PF001", "PF002", "PF003", "PF004"][:draw(st.integers(1, 4))]
    cutoffs = {name: draw(st.sampled_from([10.0, 20.0, 25.0, 40.0])) for name in names}
    count = draw(st.sampled_from([1, 2, 3, 3, 4, 4, 5, 5, 6, 7]))
    hits: list = []
    for _ in range(count):
        identifier = draw(st.sampled_from(names))
        size = draw(st.one_of(st.sampled_from([limit - 1, limit, limit + 1, 2 * limit, 50, 100]),
                              st.integers(limit, 150), st.integers(1, 150)))
        size = max(1, size)
        if hits and draw(st.integers(0, 3)) > 0:
            ref = draw(st.sampled_from(hits))
            anchor = draw(st.sampled_from([ref[1], ref[2] - limit - 1, ref[2] - limit, ref[2] - limit + 1, ref[2],
                                           ref[1] + limit - size, ref[1] + limit - size + 1,
                                           ref[1] + limit - size - 1, ref[1] + 1, ref[2] - size, ref[1] - size]))
            start = max(0, anchor)
        else:
            start = draw(st.integers(0, 400))
        # scores chosen so that equal normalised scores across profiles are common
        score = cutoffs[identifier] * draw(st.sampled_from([1.0, 1.5, 2.0, 2.0, 3.0])) \
            if draw(st.integers(0, 3)) > 0 else float(draw(st.integers(5, 200)))
        hits.append([identifier, int(start), int(start + size), float(score)])
    return {"limit": limit, "cutoffs": cutoffs, "hits": hits}


def enum_hmmer(max_hits: int):
    """ every set of <= max_hits hits over a grid around overlap_limit 3 """
    def cases():
        grid = [0, 3, 5, 6, 8, 12]
        pool = []
        for identifier in ("PF001", "PF002"):
            for start, end in itertools.combinations(grid, 2):
                for score in (10.0, 20.0):
                    pool.append([identifier, start, end, score])
        for size in range(1, max_hits + 1):
            for combo in itertools.combinations(pool, size):
                yield {"limit": 3, "cutoffs": {"PF001": 10.0, "PF002": 20.0}, "hits": [list(h) for h in combo]}
    return cases


@st.composite
def filter_specs(draw) -> dict:
    groups = [["K1", "K2", "K3"], ["A1", "A2"]]
    profiles = ["K1", "K2", "K3", "A1", "A2", "X1"]
    count = draw(st.sampled_from([1, 2, 3, 3, 4, 4, 5, 5, 6, 7, 8]))
    two = draw(st.integers(0, 3)) == 0
    hits: list = []
    for _ in range(count):
        profile = draw(st.sampled_from(profiles))
        cds = draw(st.integers(0, 1)) if two else 0
        size = draw(st.one_of(st.sampled_from([10, 21, 22, 40, 60, 100]), st.integers(1, 120)))
        same_cds = [h for h in hits if h[0] == cds]
        if same_cds and draw(st.integers(0, 4)) > 0:
            ref = draw(st.sampled_from(same_cds))
            anchor = draw(st.sampled_from([ref[3] - 19, ref[3] - 20, ref[3] - 21, ref[3] - 22, ref[2],
                                           ref[2] + 20 - size, ref[2] + 21 - size, ref[2] + 22 - size,
                                           ref[3], ref[2] + 5]))
            start = max(0, anchor)
        else:
            start = draw(st.integers(0, 300))
        score = draw(st.one_of(st.sampled_from([10.0, 20.0, 30.0]), st.integers(1, 300).map(lambda v: v / 10)))
        hits.append([cds, profile, int(start), int(start + size), float(score)])
    # hashes of the HSP objects: distinct "addresses", often equal modulo the size of a small set's table
    placing = st.lists(st.integers(0, 63), min_size=count, max_size=count, unique=True)
    addresses = draw(placing)
    others = [draw(placing), draw(st.permutations(addresses)), list(reversed(addresses))]
    return {"groups": groups, "hits": hits, "addresses": list(addresses), "other_addresses": [list(o) for o in others]}


@st.composite
def compose_specs(draw) -> dict:
    """ the filter generator with cutoffs: some hits fall below their profile's cutoff """
    spec = draw(filter_specs())
    spec["cutoffs"] = {profile: draw(st.sampled_from([0, 5, 5, 10])) for profile in
                       ["K1", "K2", "K3", "A1", "A2", "X1"]}
    return spec


@st.composite
def docking_specs(draw) -> dict:
    proteins = []
    names = list(DOCKING) + ["PKS_KS", "AMP-binding", "PCP"]
    for _ in range(draw(st.integers(1, 2))):
        length = draw(st.sampled_from([30, 60, 99, 100, 101, 150, 300]))
        hits = []
        for _ in range(draw(st.integers(0, 5))):
            size = draw(st.integers(1, min(40, length)))
            anchor = draw(st.sampled_from([0, 48, 49, 50, 51, length - 50 - size - 1, length - 50 - size,
                                           length - 50 - size + 1, length - size, length // 2]))
            start = min(max(0, anchor if draw(st.booleans()) else draw(st.integers(0, length - size))),
                        length - size)
            hits.append([draw(st.sampled_from(names)), int(start), int(start + size)])
        hits.sort(key=lambda h: h[1])
        proteins.append({"length": length, "hits": hits})
    return {"proteins": proteins}


def run(ctx) -> None:
    shards = ctx.pick(8, 16)
    rand_shards = ctx.pick(8, 16)
    # complete for <= 2 (quick) / <= 3 (thorough) hits; beyond that every k-th set, the offset moves with the seed
    ctx.enum("refine_enum", enum_refine(ctx.pick(2, 3)), shards=shards)
    if ctx.thorough:
        ctx.enum("refine_enum_sampled", enum_refine_sampled(4, 37, ctx.seed % 37), shards=shards, exhaustive=False)
    else:
        ctx.enum("refine_enum_sampled", enum_refine_sampled(3, 11, ctx.seed % 11), shards=shards, exhaustive=False)
    ctx.enum("hmmer_enum", enum_hmmer(ctx.pick(2, 3)), shards=shards)
    ctx.hyp("refine", refine_specs(), max_examples=ctx.pick(6000, 100000), shards=rand_shards)
    ctx.hyp("hmmer", hmmer_specs(), max_examples=ctx.pick(2400, 32000), shards=rand_shards)
    ctx.hyp("filter", filter_specs(), max_examples=ctx.pick(2400, 40000), shards=rand_shards)
    ctx.hyp("compose", compose_specs(), max_examples=ctx.pick(1600, 24000), shards=rand_shards)
    ctx.hyp("docking", docking_specs(), max_examples=ctx.pick(800, 8000), shards=rand_shards)
    ctx.extra["bounds"] = {
        "refine_enum": f"all sets of <= {ctx.pick(2, 3)} distinct hits over grid {GRID}, profiles pA (10) and pB (20), "
                       "scores 10/20, both modes, all input orders",
        "refine_enum_sampled": ("every 37th set of 4 hits" if ctx.thorough else "every 11th set of 3 hits")
                               + " of the same grid (offset = seed), modes alternating",
        "hmmer_enum": f"all sets of <= {ctx.pick(2, 3)} hits over grid [0, 3, 5, 6, 8, 12], 2 profiles, 2 scores, "
                      "overlap_limit 3, all input orders",
        "orders": "all n! input orders for n <= 4 (refine, filter) / n <= 5 (hmmer); above that reversal, rotations, "
                  "two interleavings and up to 48 rearrangements inside equal-start groups; refine additionally every "
                  "arrangement (<= 200) of the equal-start groups through the order-preserving gather",
    }
