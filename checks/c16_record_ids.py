""" C16 - sanitised record identifiers are unique, short and filesystem-safe;
    gene identifiers are made unique within a record or the record is rejected """

from __future__ import annotations

import re
import unicodedata
import zlib

from hypothesis import strategies as st

from vlib import gen
from vlib.build import to_loc
from vlib.runner import Violation

PROPERTY_ID = "C16"
LEVEL = "exploration"
RULE = ("Record ids: Hypothesis lists of 1-12 (id, name) pairs built by construction from a few stems and then "
        "shuffled (2 of 5 cases may contain illegal characters, 1 of 4 contig numbers of six or more digits): "
        "fresh short ids, exact duplicates, the same id with illegal characters inserted or removed, "
        "ids equal to another record's de-duplicated form (x_0), ids longer than 16 sharing the first 7/12/16 "
        "characters, ids equal to another record's shortened form (cNNNNN_xxxxxxx.. / first 12 chars + _0), "
        "versioned accessions and their unversioned prefix, contig/scaffold/' cN ' numbers with 1-8 digits, ids "
        "made only of illegal characters, both settings of allow_long_headers; every case runs the real "
        "pre_process_sequences on real Records (one CDS each, cpus=1). Non-trivial = at least two records whose "
        "ids coincide under one of the rewrite stages (equal, equal after stripping illegal characters, equal "
        "without a _N suffix, same first 7/12 characters when both are long, same accession prefix, or one is "
        "the other's shortened form, equal after NFKC normalisation + stripping); for the length subcheck = some id "
        "or name longer than 16. In 1 case of 3 a duplicated id plus an over-long id whose shortened form is the "
        "de-duplicated form; in 1 of 4 ids with non-ASCII look-alike characters (no-break/ideographic space, "
        "fullwidth punctuation, ligatures, combining marks) plus their cleaned twins. crowd_enum: constructed "
        "families of 11-1003 ids that all collide (same contig number and first 12 characters, literal "
        "<prefix>_<n> names taken, identical ids, identical versioned accessions) so that generated counters "
        "cross 9/10, 99/100, 999/1000; unique_id(_enum): generate_unique_id called directly with taken ranges "
        "around those boundaries x start x max_length at/one below/one above the boundary width. Gene ids: 1-9 "
        "CDS (and gene) features with names drawn from a small pool (duplicates, names differing only in "
        "characters that are sanitised, names equal to another CDS's renamed form tag_<crc32>), duplicate "
        "locations, added through Record.add_cds_feature or Record.from_biopython; non-trivial = two features "
        "with the same sanitised name or the same location. distinct = sha1 of the canonical spec.")
ASSUMPTIONS = [
    "the characters 'unusable in file names or GenBank headers' are the set documented in fix_record_name_id "
    "(for genes: the set in _sanitise_id_value); characters outside those sets are not judged",
    "AntismashInputError('record has no name') is the documented rejection of a record whose identifier is empty "
    "after sanitisation; it is accepted only when an input id (or its accession prefix) consists of illegal "
    "characters only",
    "record names (LOCUS) are judged for characters and length like ids (docstring of fix_record_name_id), but not "
    "for uniqueness",
    "a gene set without duplicate sanitised names and without duplicate locations must be accepted; with a duplicate "
    "either unique names or SecmetInvalidInputError is accepted",
    "records are matched between input and output through a marker in the description field",
    "RuntimeError('Could not generate unique id ...') from generate_unique_id (pinned by test_overlong) is an "
    "accepted refusal of the whole input only with long headers refused and >= 1000 ids sharing the first 12 "
    "characters; called directly it is accepted only if the smallest free candidate does not fit max_length",
    "non-ASCII characters are legal in ids and are not judged themselves (only the documented ASCII set is)",
]

ILLEGAL_RECORD = frozenset('''!"#$%&()*+,:;=>?@[]^`'{|}/ ''')
ILLEGAL_GENE = frozenset("!\"#$%&()*+,:; \r\n\t=>?@[]^`'{|}/ ")
MAX_LEN = 16

_STATE: dict = {}


# --------------------------------------------------------------------------- helpers (pure)

def strip_illegal(text: str) -> str:
    return "".join(ch for ch in text if ch not in ILLEGAL_RECORD)


def has_illegal(text: str) -> bool:
    return any(ch in ILLEGAL_RECORD for ch in text)


_CONTIG_PATTERNS = (r"onti?g?(\d+)\b", r"caff?o?l?d?(\d+)\b", r"\bc(\d+)\b")


def contig_number(text: str):
    """ the number the documented 'use the contig number' convention would pick, or None
        (used for class labels, the generator and the known-finding signature, never as an oracle) """
    for pattern in _CONTIG_PATTERNS:
        match = re.search(pattern, text)
        if match:
            return int(match.group(1))
    return None


def nfkc_clean(text: str) -> str:
    """ compatibility-normalised and stripped until stable: the form under which ids written with look-alike
        characters (no-break/ideographic space, fullwidth punctuation, ligatures) would coincide.
        Used for labels, the generator and the non-trivial rule only - never as an oracle. """
    for _ in range(4):
        new = strip_illegal(unicodedata.normalize("NFKC", text))
        if new == text:
            break
        text = new
    return text


def _rewrite_keys(identifier: str) -> set:
    """ keys under which two ids may run into each other in one of the rewrite stages """
    stripped = strip_illegal(identifier)
    keys = {"=" + identifier, "=" + stripped, "=" + re.sub(r"(_\d+)+$", "", stripped),
            "=" + re.sub(r"(_\d+)+$", "", identifier), "=" + nfkc_clean(identifier)}
    if len(identifier) > MAX_LEN:
        keys.add("7" + identifier[:7])
        keys.add("7" + strip_illegal(identifier[:7]))
        keys.add("=" + identifier[:12])
        keys.add("=" + identifier.partition(".")[0])
    match = re.fullmatch(r"c\d{5,}_(.{0,7})\.\.", identifier)
    if match:
        keys.add("7" + match.group(1))
    return keys


def records_nontrivial(entries: list) -> bool:
    keys = [_rewrite_keys(entry["id"]) for entry in entries]
    for i, first in enumerate(keys):
        for second in keys[i + 1:]:
            if first & second:
                return True
    return False


def _config(allow_long: bool, cpus: int = 1):
    """ a fresh Config for every case (the parser is built once per process) """
    from antismash.config import build_config, destroy_config
    if "parser" not in _STATE:
        from antismash.config.args import build_parser
        from antismash.main import get_all_modules
        _STATE["parser"] = build_parser(from_config_file=True, modules=get_all_modules())
    destroy_config()
    args = ["--cpus", str(int(cpus)), "--minlength", "0", "--genefinding-tool", "none",
            "--allow-long-headers" if allow_long else "--no-allow-long-headers"]
    return build_config(args, parser=_STATE["parser"], isolated=True)


def _make_input_record(index: int, entry: dict):
    """ the way main.py gets its records: a Biopython SeqRecord converted by Record.from_biopython """
    from Bio.Seq import Seq
    from Bio.SeqFeature import FeatureLocation, SeqFeature
    from Bio.SeqRecord import SeqRecord
    from antismash.common.secmet import Record
    feature = SeqFeature(FeatureLocation(3, 12, 1), type="CDS")
    feature.qualifiers["locus_tag"] = [f"gene{index}"]
    feature.qualifiers["translation"] = ["MAA"]
    bio = SeqRecord(Seq("ATGACGTTGCAAGCTTCGATAA" * 2), id=entry["id"], name=entry["name"],
                    description=f"marker{index}", annotations={"molecule_type": "DNA"}, features=[feature])
    return Record.from_biopython(bio, taxon="bacteria")


def _preprocess(spec: dict):
    """ runs the sanitisation; returns (list of per-input dicts or None, rejection message or None) """
    from antismash.common import record_processing
    from antismash.common.errors import AntismashInputError
    from antismash.config import destroy_config
    from antismash.support import genefinding
    entries = spec["records"]
    cpus = int(spec.get("cpus") or 1)
    options = _config(bool(spec["long"]), cpus)
    try:
        records = [_make_input_record(i, entry) for i, entry in enumerate(entries)]
        try:
            processed = record_processing.pre_process_sequences(records, options, genefinding)
        except AntismashInputError as err:
            if str(err) == "record has no name":
                return None, str(err)
            raise Violation("preprocess_total", {"exception": "AntismashInputError", "message": str(err)[:300]})
        except RuntimeError as err:
            # generate_unique_id's documented (and pinned, test_overlong) refusal when no name fits max_length
            if str(err).startswith("Could not generate unique id"):
                return None, "unique_id_overflow"
            raise Violation("preprocess_total", {"exception": "RuntimeError", "message": str(err)[:300]})
        except Exception as err:  # pylint: disable=broad-except
            raise Violation("preprocess_total", {"exception": type(err).__name__, "message": str(err)[:300]})
    finally:
        destroy_config()
    if cpus > 1:
        # the code under test forks its own worker pool (antismash.common.subprocessing.parallel_function);
        # nothing may be left running after the case.  (Such cases run in the runner's main process only:
        # a daemonic shard worker cannot have children.)
        import multiprocessing
        left = multiprocessing.active_children()
        if left:
            for child in left:
                child.terminate()
            raise RuntimeError(f"{len(left)} worker processes outlived pre_process_sequences")
    by_marker = {}
    for record in processed:
        by_marker.setdefault(record.description, []).append(record)
    results = []
    for index, entry in enumerate(entries):
        found = by_marker.get(f"marker{index}", [])
        if len(found) != 1 or len(processed) != len(entries):
            raise Violation("records_lost", {"input": len(entries), "output": len(processed), "index": index})
        record = found[0]
        results.append({"index": index, "input_id": entry["id"], "input_name": entry["name"],
                        "id": record.id, "name": record.name, "original_id": record.original_id,
                        "skip": record.skip})
    return results, None


def _only_illegal_possible(entries: list) -> bool:
    """ can some record end up without any legal character in its id? """
    for entry in entries:
        identifier = entry["id"]
        if not strip_illegal(identifier):
            return True
        if len(identifier) > MAX_LEN and not strip_illegal(identifier.partition(".")[0]):
            return True
    return False


def _dedup_form_overlong(ids: list) -> bool:
    """ a duplicated id X together with an over-long id whose shortened form would be X's de-duplicated form X_<n>:
        a versioned X_<n>.<v>, or an id starting with the 12 characters of X (fallback <first 12>_<n>) """
    clean = [strip_illegal(i) for i in ids]
    duplicated = {i for i in clean if clean.count(i) > 1}
    for identifier in clean:
        if len(identifier) <= MAX_LEN:
            continue
        head = identifier.partition(".")[0]
        for dup in duplicated:
            if re.fullmatch(re.escape(dup) + r"_\d+", head) or (len(dup) == 12 and identifier[:12] == dup):
                return True
    return False


def _judge_rejection(spec: dict, rejection: str) -> str:
    """ a refusal of the whole input is accepted only when the input justifies it; returns a class label """
    entries = spec["records"]
    if rejection == "record has no name":
        if not _only_illegal_possible(entries):
            raise Violation("no_name_error_unjustified", {"message": rejection})
        return "out_rejected_no_name"
    # no <first 12 characters>_<n> of at most 16 characters is left only if 1000 of them are taken:
    # needs at least 1000 ids starting with the same 12 characters, and long headers refused
    heads: dict = {}
    for entry in entries:
        head = strip_illegal(entry["id"])[:12]
        heads[head] = heads.get(head, 0) + 1
    if spec["long"] or max(heads.values()) < 1000:
        raise Violation("preprocess_total", {"exception": "RuntimeError", "message": "Could not generate unique id",
                                             "largest_group_sharing_12": max(heads.values())})
    return "out_refused_unique_id_overflow"


def _record_classes(spec: dict, results, rejected: bool) -> list:
    entries = spec["records"]
    ids = [entry["id"] for entry in entries]
    classes = [f"n_{len(entries)}", "long_allowed" if spec["long"] else "long_refused"]
    if len(set(ids)) < len(ids):
        classes.append("in_duplicates")
    if any(has_illegal(i) for i in ids):
        classes.append("in_illegal_chars")
    if len({strip_illegal(i) for i in ids}) < len(set(ids)):
        classes.append("in_differ_only_in_illegal")
    if any(len(i) > MAX_LEN for i in ids):
        classes.append("in_long_id")
    if any(len(entry["name"]) > MAX_LEN for entry in entries):
        classes.append("in_long_name")
    if any(entry["name"] != entry["id"] for entry in entries):
        classes.append("in_name_differs")
    if any(len(i) > MAX_LEN and i[-2] == "." for i in ids):
        classes.append("in_versioned_long")
    numbers = [contig_number(i) for i in ids if len(i) > MAX_LEN]
    if any(n is not None for n in numbers):
        classes.append("in_contig_number")
    if any(n is not None and n >= 100000 for n in numbers):
        classes.append("in_contig_number_6plus_digits")
    if any(re.fullmatch(r"c\d{5}_.{0,7}\.\.", i) for i in ids):
        classes.append("in_looks_shortened")
    if _dedup_form_overlong(ids):
        classes.append("in_dedup_form_made_overlong")
    if any(ord(ch) > 127 for i in ids for ch in i):
        classes.append("in_non_ascii")
        if any(nfkc_clean(i) != strip_illegal(i) for i in ids):
            classes.append("in_nfkc_changes_id")
        cleaned = [nfkc_clean(i) for i in ids]
        if any(cleaned.count(c) > 1 and len({i for i in ids if nfkc_clean(i) == c}) > 1 for c in cleaned):
            classes.append("in_nfkc_twins")
    if results is not None:
        changed = sum(1 for res in results if res["id"] != res["input_id"])
        classes.append("out_changed_" + ("0" if changed == 0 else "1" if changed == 1 else "2plus"))
        if any(res["id"].startswith("c") and res["id"].endswith("..") and res["id"] != res["input_id"]
               for res in results):
            classes.append("out_shortened_cN")
        if any(re.search(r"_\d+$", res["id"]) and res["id"] != res["input_id"] for res in results):
            classes.append("out_numbered")
    return classes


# --------------------------------------------------------------------------- record ids

def _judge_records(spec: dict, results: list) -> None:
    forgotten = [res for res in results if res["id"] != res["input_id"] and res["original_id"] != res["input_id"]]
    if forgotten:
        raise Violation("original_id", {"records": forgotten})
    bad = [res for res in results if has_illegal(res["id"])]
    if bad:
        raise Violation("id_illegal", {"records": bad})
    bad = [res for res in results if has_illegal(res["name"])]
    if bad:
        raise Violation("name_illegal", {"records": bad})
    empty = [res for res in results if not res["id"]]
    if empty:
        raise Violation("id_empty", {"records": empty})
    groups: dict = {}
    for res in results:
        groups.setdefault(res["id"], []).append(res)
    collisions = [{"id": key, "inputs": [res["input_id"] for res in group],
                   "indices": [res["index"] for res in group]}
                  for key, group in sorted(groups.items()) if len(group) > 1]
    if collisions:
        raise Violation("ids_distinct", {"collisions": collisions, "long": bool(spec["long"])})


def _judge_length(spec: dict, results: list) -> None:
    if spec["long"]:
        return
    too_long = [res for res in results if len(res["id"]) > MAX_LEN]
    if too_long:
        raise Violation("id_length", {"records": too_long})
    too_long = [res for res in results if len(res["name"]) > MAX_LEN]
    if too_long:
        raise Violation("name_length", {"records": too_long})


def check_records(spec: dict) -> dict:
    """ distinct, legal, non-empty, original remembered (length is judged by check_length) """
    entries = spec["records"]
    results, rejection = _preprocess(spec)
    if results is None:
        label = _judge_rejection(spec, rejection)
        return {"nontrivial": records_nontrivial(entries), "classes": _record_classes(spec, None, True) + [label]}
    _judge_records(spec, results)
    return {"nontrivial": records_nontrivial(entries), "classes": _record_classes(spec, results, False)}


def check_length(spec: dict) -> dict:
    """ at most 16 characters unless long headers were allowed """
    entries = spec["records"]
    results, rejection = _preprocess(spec)
    long_input = any(len(entry["id"]) > MAX_LEN or len(entry["name"]) > MAX_LEN for entry in entries)
    if results is None:
        label = _judge_rejection(spec, rejection)
        return {"nontrivial": long_input, "classes": _record_classes(spec, None, True) + [label]}
    _judge_length(spec, results)
    return {"nontrivial": long_input, "classes": _record_classes(spec, results, False)}


# --------------------------------------------------------------------------- crowds (1000+ colliding ids)

def check_parallel(spec: dict) -> dict:
    """ the same clauses with options.cpus > 1: pre_process_sequences then sends the records through its own
        process pool, so the returned records are copies; all record clauses and the length clauses are judged
        on one run.  The statement does not fix the number of CPUs. """
    entries = spec["records"]
    results, rejection = _preprocess(spec)
    cpus_label = f"cpus_{int(spec.get('cpus') or 1)}"
    if results is None:
        label = _judge_rejection(spec, rejection)
        return {"nontrivial": records_nontrivial(entries),
                "classes": _record_classes(spec, None, True) + [label, cpus_label]}
    _judge_records(spec, results)
    _judge_length(spec, results)
    return {"nontrivial": records_nontrivial(entries), "classes": _record_classes(spec, results, False) + [cpus_label]}


def expand_crowd(spec: dict) -> dict:
    """ compact spec -> ordinary record-list spec.  {"blocks": [{"template": "x{:04d}", "first": 0, "count": n}
        or {"ids": [...]}], "long": bool}; a template without a field is repeated verbatim """
    ids: list = []
    for block in spec["blocks"]:
        if "ids" in block:
            ids.extend(block["ids"])
            continue
        for number in range(block.get("first", 0), block.get("first", 0) + block["count"]):
            ids.append(block["template"].format(number))
    return {"records": [{"id": identifier, "name": f"n{index}"} for index, identifier in enumerate(ids)],
            "long": bool(spec["long"]), "cpus": int(spec.get("cpus") or 1)}


def _shorten_detail(detail):
    if isinstance(detail, dict):
        return {key: _shorten_detail(value) for key, value in detail.items()}
    if isinstance(detail, list):
        return [_shorten_detail(value) for value in detail[:4]] + ([f"... {len(detail) - 4} more"] if len(detail) > 4 else [])
    return detail


def check_crowd(spec: dict) -> dict:
    """ constructed families of 10..1003 ids that all run into each other: every record clause and the length
        clause on one run of the pipeline; the documented refusal (RuntimeError of generate_unique_id) passes """
    full = expand_crowd(spec)
    try:
        results, rejection = _preprocess(full)
        if results is None:
            label = _judge_rejection(full, rejection)
            return {"nontrivial": True, "classes": [label, f"n_{len(full['records'])}"]}
        _judge_records(full, results)
        _judge_length(full, results)
    except Violation as vio:
        raise Violation(vio.clause, _shorten_detail(vio.detail)) from None
    longest = max(len(res["id"]) for res in results)
    numbered = sum(1 for res in results if res["id"] != res["input_id"] and re.search(r"_\d+$", res["id"]))
    classes = ["out_accepted", f"n_{len(results)}", f"longest_id_{longest}",
               "numbered_" + ("0" if not numbered else "1-9" if numbered < 10 else "10-99" if numbered < 100 else
                              "100-999" if numbered < 1000 else "1000plus")]
    return {"nontrivial": True, "classes": classes}


# --------------------------------------------------------------------------- generate_unique_id directly

def check_unique_id(spec: dict) -> dict:
    """ generate_unique_id(prefix, existing, start, max_length): the returned name is prefix_<counter>, is not in
        `existing`, the counter is not below start, and the name is within max_length (when positive) - or the
        documented RuntimeError """
    from antismash.common.record_processing import generate_unique_id
    prefix = spec["prefix"]
    existing = {f"{prefix}_{number}" for first, count in spec["taken_ranges"] for number in range(first, first + count)}
    existing.update(spec.get("others") or [])
    before = set(existing)
    start = spec["start"]
    max_length = spec["max_length"]
    kwargs = {}
    if start is not None:
        kwargs["start"] = start
    if max_length is not None:
        kwargs["max_length"] = max_length
    try:
        name, counter = generate_unique_id(prefix, existing, **kwargs)
    except RuntimeError:
        # refusing is only right if the smallest free candidate really does not fit
        number = start or 0
        while f"{prefix}_{number}" in before:
            number += 1
        if max_length is None or max_length < 1 or len(f"{prefix}_{number}") <= max_length:
            raise Violation("unique_id_refused_without_need", {"free": f"{prefix}_{number}", "max_length": max_length})
        return {"nontrivial": True, "classes": ["refused"]}
    except Exception as err:  # pylint: disable=broad-except
        raise Violation("unique_id_total", {"exception": type(err).__name__, "message": str(err)[:200]})
    if existing != before:
        raise Violation("unique_id_mutated_input", {"added": sorted(existing - before)[:5]})
    if name in before:
        raise Violation("unique_id_not_unique", {"name": name})
    if name != f"{prefix}_{counter}" or counter < (start or 0):
        raise Violation("unique_id_form", {"name": name, "counter": counter, "start": start})
    if max_length is not None and max_length > 0 and len(name) > max_length:
        raise Violation("unique_id_length", {"name": name, "max_length": max_length})
    crossed = len(str(counter)) > len(str(start or 0))
    return {"nontrivial": counter != (start or 0),
            "classes": ["returned", "digit_boundary_crossed" if crossed else "same_width",
                        "at_limit" if max_length and len(name) == max_length else "below_limit_or_unlimited"]}


# --------------------------------------------------------------------------- gene ids

def _gene_loc(loc: dict):
    """ like vlib.build.to_loc, plus "fuzzy": [start_is_partial, end_is_partial] -> BeforePosition on the lowest
        start / AfterPosition on the highest end (GenBank's <12..48 / 12..>48) """
    from Bio.SeqFeature import AfterPosition, BeforePosition
    from antismash.common.secmet.locations import CompoundLocation, FeatureLocation
    fuzzy = loc.get("fuzzy") or [False, False]
    low = min(p[0] for p in loc["parts"])
    high = max(p[1] for p in loc["parts"])
    parts = []
    for start, end in loc["parts"]:
        first = BeforePosition(start) if fuzzy[0] and start == low else start
        last = AfterPosition(end) if fuzzy[1] and end == high else end
        parts.append(FeatureLocation(first, last, loc["strand"]))
    if len(parts) == 1:
        return parts[0]
    return CompoundLocation(parts, operator=loc.get("operator", "join"))


def _resolve_features(spec: dict) -> list:
    """ fills in names that refer to another feature's location checksum (tag_<crc32 of str(location)>),
        the form add_cds_feature documents for renamed splice variants """
    resolved = []
    for feature in spec["features"]:
        item = dict(feature)
        target = feature.get("crc_of")
        if target is not None and feature.get("locus_tag"):
            other = spec["features"][target % len(spec["features"])]
            checksum = zlib.crc32(str(_gene_loc(other["loc"])).encode("utf-8"))
            item["locus_tag"] = f"{feature['locus_tag']}_{checksum:x}"
        resolved.append(item)
    return resolved


def _input_name(feature: dict, via: str) -> str:
    """ the identifier a CDS has before it meets the record: taken from a stand-alone CDSFeature, so the
        character replacement is the code's own (only its result is judged, by gene_illegal) """
    from antismash.common.secmet.features import CDSFeature
    locus = feature.get("locus_tag")
    gene = feature.get("gene")
    protein_id = feature.get("protein_id")
    if via in ("biopython", "parse"):
        # documented: line-break spaces are removed from locus tags when a feature is read; since /repo f15eaedf the
        # same holds for /gene and /protein_id (a long value is wrapped by the writer and re-joined with a blank)
        locus = (locus or "").replace(" ", "") or None
        gene = (gene or "").replace(" ", "") or None
        protein_id = (protein_id or "").replace(" ", "") or None
    if not (locus or gene or protein_id):
        start = min(p[0] for p in feature["loc"]["parts"])
        end = max(p[1] for p in feature["loc"]["parts"])
        return f"cds{start}_{end}"
    lone = CDSFeature(_gene_loc(feature["loc"]), translation=_translation(feature), locus_tag=locus,
                      gene=gene, protein_id=protein_id)
    return lone.get_name()


def _loc_key(feature: dict) -> tuple:
    """ what the record treats as "the same location": coordinates, strand and the partial-boundary markers """
    return (tuple(map(tuple, feature["loc"]["parts"])), feature["loc"]["strand"],
            tuple(bool(x) for x in (feature["loc"].get("fuzzy") or [False, False])))


def _translation(feature: dict) -> str:
    size = sum(p[1] - p[0] for p in feature["loc"]["parts"])
    return "M" + "A" * max(0, size // 3 - 1)


def _checksum_name_taken(cds_specs: list, via: str) -> bool:
    """ is some CDS's documented renamed form (tag_<crc32 of its location>) itself the name of a CDS of the input?
        Only then can the renaming not produce a fresh name; the code guards this with an assertion. """
    names = {_input_name(f, via) for f in cds_specs}
    for feature in cds_specs:
        if not feature.get("locus_tag"):
            continue
        checksum = zlib.crc32(str(_gene_loc(feature["loc"])).encode("utf-8"))
        if f"{_input_name(feature, via)}_{checksum:x}" in names:
            return True
    return False


def _judge_final_genes(record, accepted_count: int, label: str) -> None:
    features = list(record.get_cds_features())
    names = [cds.get_name() for cds in features]
    if len(features) != accepted_count:
        raise Violation("gene_lost", {"accepted": accepted_count, "present": len(features), "via": label})
    duplicated = sorted({name for name in names if names.count(name) > 1})
    if duplicated:
        raise Violation("gene_names_distinct", {"duplicated": duplicated, "names": names, "via": label})
    mapping = record.get_cds_name_mapping()
    if sorted(mapping) != sorted(names):
        raise Violation("gene_mapping", {"mapping": sorted(mapping), "names": sorted(names), "via": label})
    for cds in features:
        if record.get_cds_by_name(cds.get_name()) is not cds:
            raise Violation("gene_mapping", {"name": cds.get_name(), "via": label})
    bad = [name for name in names if any(ch in ILLEGAL_GENE for ch in name)]
    if bad:
        raise Violation("gene_illegal", {"names": bad, "via": label})


def check_genes(spec: dict) -> dict:
    via = spec["via"]
    features = _resolve_features(spec)
    cds_specs = [f for f in features if f["type"] == "CDS"]
    model_names = [_input_name(f, via) for f in cds_specs]
    dup_name = len(set(model_names)) < len(model_names)
    dup_loc = len({_loc_key(f) for f in cds_specs}) < len(cds_specs)
    classes = [f"via_{via}", f"cds_{min(len(cds_specs), 6)}"]
    if dup_name:
        classes.append("dup_name")
    if dup_loc:
        classes.append("dup_location")
    raw_names = [next((v for v in (f.get("locus_tag"), f.get("gene"), f.get("protein_id")) if v), "") for f in cds_specs]
    if len(set(raw_names)) == len(raw_names) and dup_name:
        classes.append("dup_only_after_sanitising")
    if any(f.get("crc_of") is not None for f in cds_specs):
        classes.append("checksum_named")
    nontrivial = dup_name or dup_loc
    largest_group = max((model_names.count(name) for name in model_names), default=0)
    if largest_group >= 3:
        classes.append("same_name_group_3plus")
    if any(any(f["loc"].get("fuzzy") or []) for f in cds_specs):
        classes.append("partial_boundary")
    plain_keys = [(_loc_key(f)[:2], name) for f, name in zip(cds_specs, model_names)]
    if len(set(plain_keys)) < len({(_loc_key(f), name) for f, name in zip(cds_specs, model_names)}):
        classes.append("same_name_differs_only_in_partial_marker")

    guard_possible = dup_name and _checksum_name_taken(cds_specs, via)
    if guard_possible:
        classes.append("renamed_form_taken")
    if via == "add":
        outcome = _genes_by_adding(spec, features, classes, guard_possible)
    elif via == "parse":
        outcome = _genes_by_parsing(spec, features, dup_name or dup_loc, classes, guard_possible)
    else:
        outcome = _genes_by_conversion(spec, features, dup_name or dup_loc, classes, guard_possible)
    classes.append(outcome)
    return {"nontrivial": nontrivial, "classes": classes}


def _genes_by_adding(spec: dict, features: list, classes: list, guard_possible: bool) -> str:
    from antismash.common.secmet.errors import SecmetInvalidInputError
    from antismash.common.secmet.features import CDSFeature, Gene
    from vlib.build import make_record
    record = make_record(spec["L"], False)
    accepted: list = []            # (model name at the time, location key)
    seen_names: set = set()
    seen_locs: set = set()
    rejected = renamed = 0
    for feature in features:
        location = _gene_loc(feature["loc"])
        if feature["type"] == "gene":
            record.add_gene(Gene(location, locus_tag=feature.get("locus_tag"), gene_name=feature.get("gene")))
            continue
        cds = CDSFeature(location, translation=_translation(feature), locus_tag=feature.get("locus_tag"),
                         gene=feature.get("gene"), protein_id=feature.get("protein_id"))
        name_before = cds.get_name()
        is_dup = name_before in seen_names or _loc_key(feature) in seen_locs
        try:
            record.add_cds_feature(cds)
        except SecmetInvalidInputError as err:
            if not is_dup:
                raise Violation("gene_reject_without_duplicate", {"feature": feature, "message": str(err)[:200]})
            rejected += 1
            _judge_final_genes(record, len(accepted), "add(after rejection)")
            continue
        except AssertionError:
            # the renamed form tag_<crc32> is already another CDS's name: refused by an assertion, record unchanged
            if not (is_dup and guard_possible):
                raise Violation("gene_total", {"exception": "AssertionError", "feature": feature, "duplicate": is_dup})
            rejected += 1
            classes.append("refused_by_assertion")
            _judge_final_genes(record, len(accepted), "add(after assertion)")
            continue
        except Exception as err:  # pylint: disable=broad-except
            raise Violation("gene_total", {"exception": type(err).__name__, "message": str(err)[:200],
                                           "feature": feature, "duplicate": is_dup})
        accepted.append(cds)
        if cds.get_name() != name_before:
            renamed += 1
            if not is_dup:
                classes.append("renamed_without_duplicate")     # measured, not asserted by the statement
        seen_names.add(cds.get_name())
        seen_locs.add(_loc_key(feature))
        _judge_final_genes(record, len(accepted), "add")
    for cds in accepted:
        if cds not in record.get_cds_features():
            raise Violation("gene_lost", {"name": cds.get_name()})
    if renamed:
        classes.append("some_renamed")
    if rejected:
        classes.append("some_rejected")
    return "out_rejected" if rejected else ("out_renamed" if renamed else "out_plain")


def _bio_record(length: int, features: list, identifier: str = "rec1"):
    from Bio.Seq import Seq
    from Bio.SeqFeature import SeqFeature
    from Bio.SeqRecord import SeqRecord
    unit = "ACGTTGCAAGCTTCGA"
    seq = (unit * (length // len(unit) + 1))[:length]
    bio_features = []
    for feature in features:
        bio = SeqFeature(_gene_loc(feature["loc"]), type=feature["type"])
        for key in ("locus_tag", "gene", "protein_id"):
            if feature.get(key) and not (feature["type"] == "gene" and key == "protein_id"):
                bio.qualifiers[key] = [feature[key]]
        if feature["type"] == "CDS":
            bio.qualifiers["translation"] = [_translation(feature)]
        bio_features.append(bio)
    return SeqRecord(Seq(seq), id=identifier, name=identifier, description="verif",
                     annotations={"molecule_type": "DNA", "topology": "linear"}, features=bio_features)


def _genes_by_parsing(spec: dict, features: list, duplicate: bool, classes: list, guard_possible: bool) -> str:
    """ the record is written as GenBank next to a valid bystander record and read with the real
        parse_input_sequence(); a rejection must be the documented one and must not take the bystander along
        when invalid records are to be ignored """
    import os
    import tempfile
    from Bio import SeqIO
    from antismash.common import record_processing
    from antismash.common.errors import AntismashInputError
    ignore = bool(spec.get("ignore_invalid"))
    classes.append("ignore_invalid" if ignore else "strict")
    bystander = _bio_record(60, [{"type": "CDS", "loc": {"parts": [[3, 30]], "strand": 1}, "locus_tag": "other1"}],
                            "bystander")
    target = _bio_record(spec["L"], features, "target")
    records = [target, bystander] if spec.get("target_first", True) else [bystander, target]
    handle = tempfile.NamedTemporaryFile(mode="w", suffix=".gbk", prefix="verif_c16_", delete=False)
    try:
        with handle:
            SeqIO.write(records, handle, "genbank")
        try:
            parsed = record_processing.parse_input_sequence(handle.name, taxon="bacteria",
                                                            ignore_invalid_records=ignore)
        except AntismashInputError as err:
            if ignore:
                raise Violation("gene_rejection_not_clean", {"message": str(err)[:200], "ignore_invalid_records": True,
                                                             "problem": "the valid other record was lost as well"})
            if not duplicate:
                raise Violation("gene_reject_without_duplicate", {"message": str(err)[:200]})
            return "out_rejected"
        except AssertionError:
            if not guard_possible:
                raise Violation("gene_total", {"exception": "AssertionError", "duplicate": duplicate, "via": "parse"})
            classes.append("refused_by_assertion")
            return "out_rejected"
        except Exception as err:  # pylint: disable=broad-except
            raise Violation("gene_total", {"exception": type(err).__name__, "message": str(err)[:200],
                                           "duplicate": duplicate, "via": "parse"})
    finally:
        os.unlink(handle.name)
    by_id = {record.id: record for record in parsed}
    if "bystander" not in by_id or len(parsed) != len(by_id):
        raise Violation("gene_rejection_not_clean", {"returned": [record.id for record in parsed]})
    if "target" not in by_id:
        if not ignore:
            raise Violation("gene_lost", {"problem": "record dropped without an error", "returned": sorted(by_id)})
        if not duplicate:
            raise Violation("gene_reject_without_duplicate", {"message": "record skipped"})
        return "out_rejected"
    record = by_id["target"]
    count = sum(1 for f in features if f["type"] == "CDS")
    _judge_final_genes(record, count, "parse")
    names = sorted(cds.get_name() for cds in record.get_cds_features())
    model = sorted(_input_name(f, "parse") for f in features if f["type"] == "CDS")
    return "out_plain" if names == model else "out_renamed"


def _genes_by_conversion(spec: dict, features: list, duplicate: bool, classes: list,
                         guard_possible: bool) -> str:
    from antismash.common.secmet import Record
    from antismash.common.secmet.errors import SecmetInvalidInputError
    seq_record = _bio_record(spec["L"], features)
    try:
        record = Record.from_biopython(seq_record, taxon="bacteria")
    except SecmetInvalidInputError as err:
        if not duplicate:
            raise Violation("gene_reject_without_duplicate", {"message": str(err)[:200]})
        return "out_rejected"
    except AssertionError:
        if not guard_possible:
            raise Violation("gene_total", {"exception": "AssertionError", "duplicate": duplicate})
        classes.append("refused_by_assertion")
        return "out_rejected"
    except Exception as err:  # pylint: disable=broad-except
        raise Violation("gene_total", {"exception": type(err).__name__, "message": str(err)[:200],
                                       "duplicate": duplicate})
    count = sum(1 for f in features if f["type"] == "CDS")
    _judge_final_genes(record, count, "biopython")
    names = sorted(cds.get_name() for cds in record.get_cds_features())
    model = sorted(_input_name(f, "biopython") for f in features if f["type"] == "CDS")
    if names != model:
        if not duplicate:
            classes.append("renamed_without_duplicate")         # measured, not asserted by the statement
        return "out_renamed"
    return "out_plain"


SUBCHECKS = {
    "records": check_records,
    "length": check_length,
    "genes": check_genes,
    "genes_enum": check_genes,
    "records_enum": check_records,
    "length_enum": check_length,
    "crowd_enum": check_crowd,
    "parallel_enum": check_parallel,
    "parallel": check_parallel,
    "parallel_crowd_enum": check_crowd,
    "unique_id_enum": check_unique_id,
    "unique_id": check_unique_id,
}


# --------------------------------------------------------------------------- known-finding signatures

def _sig_strip_after_uniqueness(sub, spec, clause, detail) -> bool:
    """ final ids collide, and in every colliding group the *input* ids are pairwise different and all but at
        most one of them contain an illegal character (which is removed only after the uniqueness bookkeeping) """
    if sub not in ("records", "records_enum") or clause != "ids_distinct":
        return False
    collisions = detail.get("collisions") or []
    if not collisions:
        return False
    for group in collisions:
        inputs = group["inputs"]
        if len(set(inputs)) != len(inputs):        # equal inputs ending up equal: not this defect
            return False
        if sum(1 for i in inputs if not has_illegal(i)) > 1:   # two ids with nothing to strip: not this defect
            return False
        if has_illegal(group["id"]):
            return False
    return True


def _sig_contig_number_width(sub, spec, clause, detail) -> bool:
    """ shortened form c<N>_xxxxxxx.. with a contig number of six or more digits """
    if sub not in ("length", "length_enum") or clause not in ("id_length", "name_length") or spec.get("long"):
        return False
    field, source = ("id", "input_id") if clause == "id_length" else ("name", "input_name")
    records = detail.get("records") or []
    if not records:
        return False
    for res in records:
        number = contig_number(res[source])
        if number is None or number < 100000:
            return False
        if not res[field].startswith(f"c{number}_") or not res[field].endswith(".."):
            return False
        if len(res[field]) != len(f"c{number}_") + len(strip_illegal(res[source][:7])) + 2:
            return False
    return True


SIGNATURES = {
    "strip_after_uniqueness": _sig_strip_after_uniqueness,
    "contig_number_width": _sig_contig_number_width,
}


# --------------------------------------------------------------------------- generators

_SAFE = "abcdxyzABXY0189_-."
_ILLEGAL_LIST = sorted(ILLEGAL_RECORD)
# characters that compatibility normalisation (NFKC) turns into *illegal* ASCII characters, then some that it
# turns into legal ones (ligature, fullwidth letter/digit, halfwidth katakana, combining tilde) or leaves alone
_LOOKALIKE_ILLEGAL = ["\u00a0", "\u3000", "\u2003", "\uff1a", "\uff0f", "\uff08", "\uff5c", "\uff1b", "\uff1d"]
_OTHER_NON_ASCII = ["\ufb01", "\uff21", "\uff11", "\uff71", "n\u0303", "\u00e9", "\u00df", "\u03a9", "\u00b5"]
_WORDS = ["contig", "Contig", "ctg", "cont", "contg", "scaffold", "Scaffold", "scaf", "scaffol"]


def _safe_text(min_size: int, max_size: int):
    return st.text(alphabet=_SAFE, min_size=min_size, max_size=max_size)


@st.composite
def _insert_illegal(draw, text: str) -> str:
    count = draw(st.integers(1, 2))
    for _ in range(count):
        pos = draw(st.integers(0, len(text)))
        text = text[:pos] + draw(st.sampled_from(_ILLEGAL_LIST)) + text[pos:]
    return text


@st.composite
def _digits(draw, big: bool) -> str:
    width = draw(st.sampled_from([1, 2, 3, 4, 5, 5, 6, 6, 7, 8] if big else [1, 2, 3, 4, 4, 5, 5, 5]))
    first = draw(st.sampled_from("0123456789" if draw(st.integers(0, 4)) == 0 else "123456789"))
    rest = draw(st.text(alphabet="0123456789", min_size=width - 1, max_size=width - 1))
    return first + rest


@st.composite
def _contig_id(draw, stem: str, big: bool = True, dirty: bool = True) -> str:
    """ ids with a parsable contig/scaffold/cN number; usually longer than 16 """
    form = draw(st.sampled_from(["word", "word", "word_tail", "c_number"]))
    digits = draw(_digits(big))
    lead = draw(st.sampled_from([stem, stem[:3], draw(_safe_text(0, 12)), "NODE_12_length_4000_"]))
    if form == "c_number":
        sep = draw(st.sampled_from([" ", "-", ".", "|"] if dirty else ["-", "."]))
        tail = draw(st.sampled_from(["", sep + draw(_safe_text(1, 10))]))
        return f"{lead}{sep}c{digits}{tail}"
    word = draw(st.sampled_from(_WORDS))
    glue = draw(st.sampled_from(["", "_", "-", "."]))
    text = f"{lead}{glue}{word}{digits}"
    if form == "word_tail":
        text += draw(st.sampled_from(["-", ".", " ", "|", ":"] if dirty else ["-", "."])) + draw(_safe_text(1, 10))
    return text


def _shortened_guess(identifier: str, index: int) -> str:
    """ the documented shortened form of a long id (used only to build adversarial ids) """
    number = contig_number(identifier)
    if number is None:
        number = index
    return f"c{number:05d}_{identifier[:7]}.."


@st.composite
def _new_id(draw, ids: list, stems: list, emphasis: str, dirty: bool, big: bool) -> str:
    kinds = ["fresh", "fresh", "dup", "suffix", "long_ext", "long_ext", "shortened_form", "trunc12_form",
             "versioned", "version_prefix", "other_version", "contig", "stem", "tail_variant"]
    if dirty:
        kinds += ["illegal_variant", "illegal_variant", "stripped_variant", "only_illegal"]
    if emphasis == "length":
        kinds += ["long_ext", "contig", "contig", "contig", "versioned", "long_fresh", "long_fresh"]
    kind = draw(st.sampled_from(kinds))
    base = draw(st.sampled_from(ids)) if ids else draw(st.sampled_from(stems))
    stem = draw(st.sampled_from(stems))
    if kind == "stem":
        return stem
    if kind == "fresh":
        text = draw(_safe_text(1, 16))
        if dirty and draw(st.integers(0, 5)) == 0:
            text = draw(_insert_illegal(text))
        return text
    if kind == "long_fresh":
        return draw(_safe_text(17, 30))
    if kind == "dup":
        return base
    if kind == "illegal_variant":
        return draw(_insert_illegal(base))
    if kind == "stripped_variant":
        return strip_illegal(base) if has_illegal(base) else draw(_insert_illegal(base))
    if kind == "suffix":
        return f"{base}_{draw(st.integers(0, 2))}"
    if kind == "tail_variant":     # keeps a contig number and the first characters of the base
        return base + draw(st.sampled_from(["-", "."])) + draw(_safe_text(1, 8))
    if kind == "long_ext":
        keep = draw(st.sampled_from([7, 7, 12, 12, 16, len(base)]))
        head = base[:keep]
        pad_to = draw(st.integers(17, 30))
        filler = draw(st.text(alphabet=_SAFE, min_size=max(1, pad_to - len(head)), max_size=max(1, pad_to - len(head))))
        if len(head) < keep:   # the base is shorter than the prefix wanted: extend deterministically first
            head = (head + "q" * keep)[:keep]
        return head + filler
    if kind == "shortened_form":
        index = draw(st.integers(1, 8))
        return _shortened_guess(base if len(base) > MAX_LEN else (base + "q" * 17)[:20], index)
    if kind == "trunc12_form":
        source = base if len(base) > MAX_LEN else (base + "q" * 17)[:20]
        return f"{source[:12]}_{draw(st.integers(0, 1))}"
    if kind == "versioned":
        form = draw(st.integers(0, 3 if dirty else 2))
        if form == 0:
            body = "NZ_" + draw(st.text(alphabet="ABCDN0123456789", min_size=12, max_size=13))
        elif form == 1:
            body = (stem + draw(_safe_text(16, 16)))[:draw(st.sampled_from([15, 16, 17]))].replace(".", "x")
        elif form == 2:
            body = (base + "v" * 17)[:draw(st.sampled_from([15, 16]))].replace(".", "x")
        else:
            body = draw(st.text(alphabet=_ILLEGAL_LIST, min_size=15, max_size=16))
        return f"{body}.{draw(st.sampled_from('1239'))}"
    if kind == "other_version":    # the same accession with another version (or a first version for a plain id)
        if re.search(r"\.\d$", base):
            return base[:-1] + draw(st.sampled_from([d for d in "1239" if d != base[-1]]))
        return f"{(base.replace('.', 'x') + 'v' * 16)[:draw(st.sampled_from([15, 16]))]}.{draw(st.sampled_from('12'))}"
    if kind == "version_prefix":
        return base.partition(".")[0] or stem
    if kind == "contig":
        return draw(_contig_id(stem, big, dirty))
    if kind == "only_illegal":
        size = draw(st.sampled_from([0, 1, 2, 3, 16, 17, 20]))
        return draw(st.text(alphabet=_ILLEGAL_LIST, min_size=size, max_size=size))
    raise AssertionError(kind)


@st.composite
def id_list_specs(draw, emphasis: str = "collide", cpus_choices: tuple = ()):
    allow_long = False if emphasis == "length" else draw(st.sampled_from([True, False]))
    if cpus_choices:
        allow_long = draw(st.sampled_from([False, False, False, True]))
    cpus = draw(st.sampled_from(list(cpus_choices))) if cpus_choices else None
    count = draw(st.sampled_from([1, 2, 2, 2, 3, 3, 3, 4, 4, 5, 6, 8, 12]))
    stems = draw(st.lists(_safe_text(1, 9), min_size=1, max_size=2))
    # case-level themes, so that the two known defects cannot hide everything else:
    # ids with characters to strip in 2 of 5 cases, contig numbers of six or more digits in 1 of 4
    dirty = draw(st.integers(0, 4)) < 2
    big = draw(st.integers(0, 3)) == 0
    ids: list = []
    for _ in range(count):
        ids.append(draw(_new_id(ids, stems, emphasis, dirty, big)))
    # 1 case in 3: a duplicated id X plus an over-long id whose shortened form is X's de-duplicated form X_<n>
    # (versioned accession X_<n>.<v>, or first-12-characters fallback when the cNNNNN_ form is taken)
    blocker_for = None
    if draw(st.integers(0, 2)) == 0:
        source = strip_illegal(draw(st.sampled_from(ids + stems))).replace(".", "x").partition("_")[0]
        shape = draw(st.sampled_from(["versioned", "versioned", "fallback_contig", "fallback_index"]))
        copies = draw(st.sampled_from([2, 2, 3]))
        if shape == "versioned":
            dup = (source + "q" * 14)[:draw(st.sampled_from([13, 14]))]
            number = draw(st.integers(0, copies - 2))
            ids += [dup] * copies + [f"{dup}_{number}.{draw(st.sampled_from('129'))}"]
        else:
            dup = (source + "q" * 12)[:12]
            if shape == "fallback_contig":
                number = draw(st.integers(0, 99999))
                long_id = f"{dup}{draw(st.sampled_from(['.', '-']))}contig{number}"
                long_id += draw(st.sampled_from(["", "-" + draw(_safe_text(1, 5))]))
                ids += [dup] * copies + [long_id, f"c{number:05d}_{dup[:7]}.."]
            else:
                long_id = dup + draw(st.text(alphabet="abcxyz019", min_size=5, max_size=12))
                ids += [dup] * copies + [long_id]
                blocker_for = long_id
    # 1 case in 4: ids written with non-ASCII characters, together with their "cleaned twins" (the id with the
    # look-alike characters normalised and/or removed), which must stay different records
    if draw(st.integers(0, 3)) == 0:
        for _ in range(draw(st.integers(1, 2))):
            base = draw(st.sampled_from(ids + stems)) or "id"
            base = base[:draw(st.sampled_from([6, 12, 14, 16, 30]))]
            pos = draw(st.integers(0, len(base)))
            char = draw(st.sampled_from(_LOOKALIKE_ILLEGAL + _LOOKALIKE_ILLEGAL + _OTHER_NON_ASCII))
            exotic = base[:pos] + char + base[pos:]
            twins = [exotic, nfkc_clean(exotic), strip_illegal(unicodedata.normalize("NFKC", exotic)),
                     unicodedata.normalize("NFKC", exotic), base, nfkc_clean(exotic) + "_0"]
            chosen = draw(st.lists(st.sampled_from(twins[1:]), min_size=0, max_size=2))
            ids += [exotic] + [twin for twin in chosen if twin]
    ids = list(draw(st.permutations(ids)))
    if blocker_for is not None:      # the literal cNNNNN_ form of that id at its final position, appended last
        ids.append(f"c{ids.index(blocker_for) + 1:05d}_{blocker_for[:7]}..")
    records = []
    for identifier in ids:
        name_kind = draw(st.sampled_from(["same", "same", "same", "locus", "other_id", "contig", "illegal"]))
        if name_kind == "same":
            name = identifier
        elif name_kind == "locus":
            name = identifier.partition(".")[0] or "locus"
        elif name_kind == "other_id":
            name = draw(st.sampled_from(ids))
        elif name_kind == "contig":
            name = draw(_contig_id(stems[0], big, True))
        else:
            name = draw(_insert_illegal(draw(_safe_text(1, 20))))
        records.append({"id": identifier, "name": name})
    if cpus:
        return {"records": records, "long": allow_long, "cpus": cpus}
    return {"records": records, "long": allow_long}


def enum_record_lists(with_quadruples: bool = False):
    """ all ordered lists of 1-3 ids from a pool of 20 mutually colliding forms, both settings; all ordered lists
        of 4 from a focused pool of 8 (long headers refused); thorough: also all 4-lists from a pool of 10 """
    pool = ["ab", "a:b", "a b", "ab_0", "a:b_0", ":",
            "abcdefghijklmnopq", "abcdefghijklmnopr", "abcdefg:hijklmnopq", "abcdefghijkl_0", "c00001_abcdefg..",
            "c00002_abcdefg..", "NZ_AMZN01000079.1", "NZ_AMZN01000079", "NZ_AMZN:01000079.1",
            "abcdefghij_contig2-x", "abcdefghij_contig2-y",
            "abcdefghijklmn", "abcdefghijklmn_0.1",      # X twice + X_0.1: the de-duplicated form made over-long
            "NZ_AMZN01000079.2"]                         # two versions of one accession
    small = ["x", "x_0", "x_0_0", "x:", "abcdefghijklmnopq", "abcdefghijkl_0", "abcdefghijkl_1", "c00001_abcdefg..",
             "c00004_abcdefg..", "abcdefghijkl"]
    # quick and thorough: all 4-lists (long headers refused) around "X twice, over-long X..., its cNNNNN_ form taken"
    focused = ["abcdefghijkl", "abcdefghijkl.contig7", "c00007_abcdefg..", "abcdefghijkl_0", "abcdefghijklmnopq",
               "c00003_abcdefg..", "abcdefghijklmn", "abcdefghijklmn_1.1"]

    def cases():
        for allow_long in (False, True):
            for first in pool:
                yield {"records": [{"id": first, "name": first}], "long": allow_long}
                for second in pool:
                    yield {"records": [{"id": first, "name": first}, {"id": second, "name": second}],
                           "long": allow_long}
                    for third in pool:
                        yield {"records": [{"id": i, "name": i} for i in (first, second, third)],
                               "long": allow_long}
        import itertools
        for combo in itertools.product(focused, repeat=4):
            yield {"records": [{"id": i, "name": i} for i in combo], "long": False}
        if with_quadruples:
            for allow_long in (False, True):
                for combo in itertools.product(small, repeat=4):
                    yield {"records": [{"id": i, "name": i} for i in combo], "long": allow_long}
    return cases


def enum_parallel_lists(thorough: bool = False):
    """ ids that shorten identically (two versions of one accession, same contig number and first seven characters,
        a literal shortened / numbered form already present), every ordered pair (thorough: triple) with
        options.cpus 2 and 4; a few crowds """
    pool = ["NZ_AMZN01000079.1", "NZ_AMZN01000079.2", "NZ_AMZN01000079", "sampleAAAA_lib1.contig5",
            "sampleAAAA_lib2.contig5", "c00005_sampleA..", "sampleAAAA_l_0", "abcdefghijklmnopq"]

    def cases():
        import itertools
        core = pool[:2] + pool[3:5]
        for combo in itertools.product(pool, repeat=2):
            yield {"records": [{"id": i, "name": i} for i in combo], "long": False, "cpus": 2}
        for combo in itertools.product(core, repeat=2):
            yield {"records": [{"id": i, "name": i} for i in combo], "long": False, "cpus": 4}
        for combo in itertools.product(core, repeat=3):
            yield {"records": [{"id": i, "name": i} for i in combo], "long": False, "cpus": 2}
        if thorough:
            for cpus in (2, 4):
                for allow_long in (False, True):
                    for combo in itertools.product(pool, repeat=3):
                        yield {"records": [{"id": i, "name": i} for i in combo], "long": allow_long, "cpus": cpus}
    return cases


def enum_parallel_crowds(thorough: bool = False):
    def cases():
        for cpus in ((2, 4) if thorough else (3,)):
            yield {"blocks": [{"template": "metagenome-contig7-bin{:04d}", "count": 12}], "long": False, "cpus": cpus}
            yield {"blocks": [{"template": "NZ_ABCDEF0123456.{}", "first": 1, "count": 9}], "long": False, "cpus": cpus}
            yield {"blocks": [{"template": "abcdefghijklmn", "count": 12}], "long": False, "cpus": cpus}
            yield {"blocks": [{"template": "sampleAAAA_lib{}.contig5", "count": 30}], "long": False, "cpus": cpus}
    return cases


def enum_unicode_lists():
    """ all ordered lists of 1-3 ids from a pool of ids that differ only in look-alike characters """
    pool = ["StrepA", "Strep\u00a0A", "Strep\u3000A", "Strep\uff1aA", "Strep A", "Strep:A", "StrepA_0",
            "\uff33trepA", "Stre\u0301pA"]

    def cases():
        for allow_long in (False, True):
            for first in pool:
                yield {"records": [{"id": first, "name": first}], "long": allow_long}
                for second in pool:
                    yield {"records": [{"id": first, "name": first}, {"id": second, "name": second}],
                           "long": allow_long}
                    for third in pool:
                        yield {"records": [{"id": i, "name": i} for i in (first, second, third)],
                               "long": allow_long}
    return cases


def enum_crowds(thorough: bool = False):
    """ constructed families in which 10 .. 1003 ids run into each other, so that the counters of the generated
        names cross 9->10, 99->100 and 999->1000 (where <first 12 characters>_<n> stops fitting 16 characters) """
    def cases():
        # long ids with the same contig number and the same first 12 characters: one keeps cNNNNN_xxxxxxx..,
        # the others get <first 12>_<n>
        for count in (11, 12, 101, 102, 1001, 1002, 1003):
            yield {"blocks": [{"template": "metagenome-contig7-bin{:04d}", "count": count}], "long": False}
        # the same with the numbered names already present as literal ids of other records
        for taken in (9, 10, 99, 100, 999, 1000, 1001):
            yield {"blocks": [{"template": "abcdefghijkl_{}", "count": taken},
                              {"ids": ["c00005_abcdefg..", "abcdefghijkl-contig5-x", "abcdefghijkl-contig5-y"]}],
                   "long": False}
            yield {"blocks": [{"ids": ["abcdefghijkl-contig5-x", "c00005_abcdefg.."]},
                              {"template": "abcdefghijkl_{}", "first": 1, "count": taken},
                              {"ids": ["abcdefghijkl-contig5-y", "abcdefghijkl_0"]}], "long": False}
        # identical ids: de-duplication numbers them; 13/14 characters + _<n> grows past 16 and is shortened again
        for allow_long in (False, True):
            for template in ("x", "abcdefghijklm", "abcdefghijklmn", "abcdefghijklmnopqrs"):
                for count in ((11, 12, 101, 102, 1001) if not thorough else (11, 12, 101, 102, 1001, 1002, 1102)):
                    yield {"blocks": [{"template": template, "count": count}], "long": allow_long}
        # identical versioned accessions next to their unversioned form
        for count in (3, 12, 102):
            yield {"blocks": [{"ids": ["NZ_AMZN01000079"]}, {"template": "NZ_AMZN01000079.1", "count": count}],
                   "long": False}
    return cases


def enum_unique_ids():
    """ existing-id sets that force the counter across a digit boundary exactly at max_length """
    def cases():
        for prefix in ("a", "abcdefghijkl", "p_0"):
            for boundary in (10, 100, 1000):
                for taken in (boundary - 2, boundary - 1, boundary, boundary + 1):
                    for start in (None, 0, 1, boundary - 1, boundary):
                        for slack in (-1, 0, 1):
                            width = len(f"{prefix}_{boundary - 1}") + slack
                            yield {"prefix": prefix, "taken_ranges": [[0, taken]], "others": [prefix],
                                   "start": start, "max_length": width}
                        yield {"prefix": prefix, "taken_ranges": [[0, taken]], "others": [], "start": start,
                               "max_length": None}
                        yield {"prefix": prefix, "taken_ranges": [[0, taken]], "others": [], "start": start,
                               "max_length": -1}
            # gaps: the first free counter is before the boundary
            yield {"prefix": prefix, "taken_ranges": [[0, 5], [6, 20]], "others": [], "start": None,
                   "max_length": len(prefix) + 2}
            yield {"prefix": prefix, "taken_ranges": [[0, 5], [6, 20]], "others": [], "start": 6,
                   "max_length": len(prefix) + 2}
    return cases


@st.composite
def unique_id_specs(draw):
    prefix = draw(st.sampled_from(["a", "seq", "abcdefghijkl", "x_1", "%s", "{}"]))
    boundary = draw(st.sampled_from([10, 10, 100, 100, 1000]))
    taken = max(0, boundary + draw(st.integers(-3, 3)))
    ranges = [[0, taken]]
    if draw(st.integers(0, 3)) == 0:
        gap = draw(st.integers(0, max(0, taken - 1)))
        ranges = [[0, gap], [gap + 1, max(0, taken - gap)]]
    start = draw(st.sampled_from([None, 0, 1, boundary - 1, boundary, draw(st.integers(0, boundary + 5))]))
    max_length = draw(st.sampled_from([None, -1, 0, len(prefix) + 1 + len(str(boundary - 1)),
                                       len(prefix) + 1 + len(str(boundary)), len(prefix) + 1, len(prefix)]))
    return {"prefix": prefix, "taken_ranges": ranges, "others": draw(st.sampled_from([[], [prefix], [prefix + "_"]])),
            "start": start, "max_length": max_length}


def enum_lengths():
    """ every digit count 1-9 x every number-bearing form x id lengths around the limit """
    def cases():
        for width in range(1, 10):
            for digits in ("1" + "0" * (width - 1), "9" * width, "0" * (width - 1) + "7"):
                for template in ("{w}{d}", "abcdefghij_{w}{d}", "abcdefghij_{w}{d}.tail", "abc:defghij {w}{d} x",
                                 "NODE_1_length_5000_{w}{d}", "{w}{d}|abcdefghijklmnop"):
                    for word in ("contig", "ctg", "scaffold", "scaf", " c"):
                        identifier = template.format(w=word, d=digits)
                        yield {"records": [{"id": identifier, "name": identifier}], "long": False}
                        yield {"records": [{"id": "short", "name": identifier},
                                           {"id": identifier, "name": "short"}], "long": False}
        for size in range(14, 20):
            for fill in ("a", "a.", ":a"):
                identifier = (fill * size)[:size]
                yield {"records": [{"id": identifier, "name": identifier}], "long": False}
                yield {"records": [{"id": identifier, "name": identifier},
                                   {"id": identifier, "name": identifier}], "long": False}
                versioned = identifier[:-2] + ".1"
                yield {"records": [{"id": versioned, "name": identifier[:-2]},
                                   {"id": identifier[:-2], "name": identifier[:-2]}], "long": False}
    return cases


_GENE_ATTRS = ["locus_tag", "locus_tag", "locus_tag", "gene", "protein_id"]
_GENE_ILLEGAL = sorted(ILLEGAL_GENE - {"\r", "\n", "\t"}) + ["\t"]


@st.composite
def gene_specs(draw):
    via = draw(st.sampled_from(["add", "add", "biopython", "biopython", "parse"]))
    length = draw(st.integers(30, 400))
    layout = draw(gen.gene_layout(length, False, max_genes=7, multi_exon=True, allow_span=False))
    pool = draw(st.lists(st.text(alphabet="abAB12_", min_size=1, max_size=5), min_size=1, max_size=3))
    features: list = []
    for gene in layout:
        loc = {"parts": gene["loc"]["parts"], "strand": gene["loc"]["strand"]}
        if features and draw(st.integers(0, 5)) == 0:
            # a second CDS at an existing location (possibly the other strand, possibly a sub-range start)
            other = draw(st.sampled_from([f for f in features if f["type"] == "CDS"] or [None]))
            if other is not None:
                loc = {"parts": [list(p) for p in other["loc"]["parts"]],
                       "strand": other["loc"]["strand"] if draw(st.integers(0, 2)) else -other["loc"]["strand"]}
                if loc["strand"] != other["loc"]["strand"]:
                    loc["parts"] = list(reversed(loc["parts"]))
                # the same coordinates with a boundary marked partial (<12..48 / 12..>48) is another location
                loc["fuzzy"] = draw(st.sampled_from([[False, False], [True, False], [False, True], [True, True]]))
        elif draw(st.integers(0, 7)) == 0:
            loc["fuzzy"] = draw(st.sampled_from([[True, False], [False, True], [True, True]]))
        name_kind = draw(st.sampled_from(["pool", "pool", "variant", "variant", "fresh", "checksum"]))
        base = draw(st.sampled_from(pool))
        crc_of = None
        if name_kind == "pool":
            name = base
        elif name_kind == "variant":
            # (a GenBank file cannot carry quotes/tabs in a qualifier unharmed: plain separators when parsing)
            sep = draw(st.sampled_from(_GENE_ILLEGAL + ["_", "_"] if via != "parse" else ["_", "-", "."]))
            pos = draw(st.integers(0, len(base)))
            name = base[:pos] + sep + base[pos:]
        elif name_kind == "fresh":
            name = f"{base}{len(features)}x"
        else:
            name = base
            crc_of = draw(st.integers(0, 8))
        attr = draw(st.sampled_from(_GENE_ATTRS))
        feature = {"type": "CDS", "loc": loc, "locus_tag": None, "gene": None, "protein_id": None, "crc_of": None}
        feature[attr] = name
        if crc_of is not None:
            feature["locus_tag"], feature["gene"], feature["protein_id"] = name, None, None
            feature["crc_of"] = crc_of
        elif draw(st.integers(0, 3)) == 0:
            extra = draw(st.sampled_from(["locus_tag", "gene", "protein_id"]))
            if not feature[extra]:
                feature[extra] = draw(st.sampled_from(pool))
        if draw(st.integers(0, 3)) == 0:
            gene_name = feature["locus_tag"] or feature["gene"] or draw(st.sampled_from(pool))
            gene_loc = loc if draw(st.booleans()) else {"parts": [[0, 3]], "strand": 1}
            features.append({"type": "gene", "loc": gene_loc, "locus_tag": gene_name if feature["locus_tag"] else None,
                             "gene": None if feature["locus_tag"] else gene_name, "protein_id": None,
                             "crc_of": None})
        features.append(feature)
    # 1 case in 3: a group of 3-5 overlapping CDS sharing one locus tag (splice variants), among them partial-
    # boundary variants of one location, which must all end up with different names (or be refused cleanly)
    cds_features = [f for f in features if f["type"] == "CDS"]
    if cds_features and draw(st.integers(0, 2)) == 0:
        anchor = draw(st.sampled_from(cds_features))
        tag = anchor["locus_tag"] or anchor["gene"] or anchor["protein_id"]
        anchor["locus_tag"], anchor["crc_of"] = tag, None
        position = next(i for i, f in enumerate(features) if f is anchor) + 1
        flags = [[False, False], [True, False], [False, True], [True, True]]
        variants = draw(st.lists(st.sampled_from(flags), min_size=2, max_size=4))
        for fuzzy in variants:
            parts = [list(p) for p in anchor["loc"]["parts"]]
            low = min(range(len(parts)), key=lambda i: parts[i][0])
            high = max(range(len(parts)), key=lambda i: parts[i][1])
            shape = draw(st.sampled_from(["same", "same", "same", "shorter_end", "later_start"]))
            if shape == "shorter_end" and parts[high][1] - parts[high][0] > 5:
                parts[high][1] -= 3
            elif shape == "later_start" and parts[low][1] - parts[low][0] > 5:
                parts[low][0] += 3
            member = {"type": "CDS", "loc": {"parts": parts, "strand": anchor["loc"]["strand"], "fuzzy": list(fuzzy)},
                      "locus_tag": tag, "gene": None, "protein_id": None, "crc_of": None}
            features.insert(position, member)
            position += 1
    if draw(st.integers(0, 3)) == 0:
        features = draw(st.permutations(features))
    return {"L": length, "via": via, "ignore_invalid": draw(st.booleans()), "target_first": draw(st.booleans()),
            "features": list(features)}


def enum_gene_variants(thorough: bool = False):
    """ one locus tag on 3 (thorough: also 4) overlapping CDS: a longer anchor and every ordered choice of
        partial-boundary variants {plain, <start, end>, both} of one location; simple and two-exon, both strands,
        through add_cds_feature, Record.from_biopython and parse_input_sequence (strict and ignoring invalid) """
    import itertools
    flags = [[False, False], [True, False], [False, True], [True, True]]
    shapes = [([[12, 60]], [[12, 48]]), ([[12, 30], [36, 60]], [[12, 30], [36, 48]])]

    def cases():
        for via, ignore in (("add", False), ("biopython", False), ("parse", False), ("parse", True)):
            for anchor_parts, variant_parts in shapes:
                for strand in (1, -1):
                    for size in ((2, 3) if thorough else (2,)):
                        for combo in itertools.product(flags, repeat=size):
                            order = (lambda parts: list(reversed(parts)) if strand == -1 else parts)
                            features = [{"type": "CDS", "loc": {"parts": order(anchor_parts), "strand": strand},
                                         "locus_tag": "geneT", "gene": None, "protein_id": None, "crc_of": None}]
                            for fuzzy in combo:
                                features.append({"type": "CDS", "loc": {"parts": order(variant_parts), "strand": strand,
                                                                        "fuzzy": list(fuzzy)},
                                                 "locus_tag": "geneT", "gene": None, "protein_id": None,
                                                 "crc_of": None})
                            yield {"L": 90, "via": via, "ignore_invalid": ignore, "target_first": True,
                                   "features": features}
    return cases


def run(ctx) -> None:
    shards = ctx.pick(8, 16)
    ctx.enum("records_enum", enum_record_lists(ctx.thorough), shards=ctx.pick(8, 16))
    ctx.enum("length_enum", enum_lengths(), shards=ctx.pick(4, 8))
    ctx.enum("records_enum", enum_unicode_lists(), shards=ctx.pick(4, 8))
    ctx.enum("crowd_enum", enum_crowds(ctx.thorough), shards=ctx.pick(8, 16))
    ctx.enum("unique_id_enum", enum_unique_ids(), shards=ctx.pick(4, 8))
    ctx.enum("genes_enum", enum_gene_variants(ctx.thorough), shards=ctx.pick(4, 8))
    # options.cpus > 1: pre_process_sequences forks its own pool, so these run in this process (shards=1)
    ctx.enum("parallel_enum", enum_parallel_lists(ctx.thorough), shards=1)
    ctx.enum("parallel_crowd_enum", enum_parallel_crowds(ctx.thorough), shards=1)
    ctx.hyp("parallel", id_list_specs("collide", cpus_choices=(2, 2, 4)), max_examples=ctx.pick(50, 1200), shards=1)
    ctx.hyp("unique_id", unique_id_specs(), max_examples=ctx.pick(600, 8000), shards=ctx.pick(4, 8))
    ctx.hyp("records", id_list_specs("collide"), max_examples=ctx.pick(3000, 60000), shards=shards)
    ctx.hyp("length", id_list_specs("length"), max_examples=ctx.pick(1500, 30000), shards=shards)
    ctx.hyp("genes", gene_specs(), max_examples=ctx.pick(2000, 40000), shards=shards)
